//! Heap meter: a counting global allocator that attributes live heap bytes to
//! the connection object of the endpoint under test. Every allocation carries
//! a small header with the tag that was current when it was made; only
//! allocations made inside `Connection::poll` / `poll_accept` / `poll_closed`
//! (and outside the simulated transport and the event log, which are harness
//! memory) are counted, and they are un-counted when freed, whoever frees
//! them. One slot per worker thread; a case id in the tag keeps
//! leftovers of an earlier case (leaked after a contained panic) out.

use std::alloc::{GlobalAlloc, Layout, System};
use std::cell::Cell;
use std::sync::atomic::{AtomicI64, AtomicU64, AtomicUsize, Ordering};

pub struct Meter;

const SLOTS: usize = 64;
#[allow(clippy::declare_interior_mutable_const)]
const Z64: AtomicI64 = AtomicI64::new(0);
#[allow(clippy::declare_interior_mutable_const)]
const ZU64: AtomicU64 = AtomicU64::new(0);
static LIVE: [AtomicI64; SLOTS] = [Z64; SLOTS];
static CASE: [AtomicU64; SLOTS] = [ZU64; SLOTS];
static NEXT_SLOT: AtomicUsize = AtomicUsize::new(0);
static NEXT_CASE: AtomicU64 = AtomicU64::new(1);

thread_local! {
    /// tag stamped on allocations made right now by this thread (0 = not counted)
    static TAG: Cell<u64> = const { Cell::new(0) };
    /// tag of the case this thread is running (0 = none)
    static CUR: Cell<u64> = const { Cell::new(0) };
    static SLOT: Cell<usize> = const { Cell::new(usize::MAX) };
    static PEAK: Cell<i64> = const { Cell::new(0) };
}

#[inline]
fn header(l: &Layout) -> (usize, Layout) {
    let a = l.align().max(16);
    // SAFETY: a is a power of two ≥ 16; size + a cannot overflow isize for any real request
    (a, unsafe { Layout::from_size_align_unchecked(l.size() + a, a) })
}

unsafe impl GlobalAlloc for Meter {
    unsafe fn alloc(&self, l: Layout) -> *mut u8 {
        let (h, nl) = header(&l);
        let p = System.alloc(nl);
        if p.is_null() {
            return p;
        }
        let tag = TAG.try_with(|t| t.get()).unwrap_or(0);
        (p as *mut u64).write(tag);
        if tag != 0 {
            LIVE[((tag & 0xff) - 1) as usize].fetch_add(l.size() as i64, Ordering::Relaxed);
        }
        p.add(h)
    }
    unsafe fn dealloc(&self, p: *mut u8, l: Layout) {
        let (h, nl) = header(&l);
        let p0 = p.sub(h);
        let tag = (p0 as *mut u64).read();
        if tag != 0 {
            let slot = ((tag & 0xff) - 1) as usize;
            if CASE[slot].load(Ordering::Relaxed) == tag >> 8 {
                LIVE[slot].fetch_sub(l.size() as i64, Ordering::Relaxed);
            }
        }
        System.dealloc(p0, nl)
    }
}

/// Start metering a case on this thread. Returns false if no slot is left (then nothing is counted).
pub fn begin_case() -> bool {
    let slot = SLOT.with(|s| {
        if s.get() == usize::MAX {
            s.set(NEXT_SLOT.fetch_add(1, Ordering::Relaxed));
        }
        s.get()
    });
    if slot >= SLOTS {
        return false;
    }
    let id = NEXT_CASE.fetch_add(1, Ordering::Relaxed);
    CASE[slot].store(id, Ordering::Relaxed);
    LIVE[slot].store(0, Ordering::Relaxed);
    CUR.with(|c| c.set(id << 8 | (slot as u64 + 1)));
    PEAK.with(|p| p.set(0));
    true
}

pub fn end_case() {
    CUR.with(|c| c.set(0));
    TAG.with(|t| t.set(0));
}

/// live bytes attributed to the current case
pub fn live() -> i64 {
    let slot = SLOT.with(|s| s.get());
    if slot >= SLOTS {
        return 0;
    }
    LIVE[slot].load(Ordering::Relaxed)
}

pub fn peak() -> i64 {
    PEAK.with(|p| p.get())
}

/// Count allocations from here on (a connection task is being polled) until the guard drops.
pub struct Tracked(u64);
impl Tracked {
    pub fn new() -> Tracked {
        let prev = TAG.with(|t| t.replace(CUR.with(|c| c.get())));
        Tracked(prev)
    }
}
impl Drop for Tracked {
    fn drop(&mut self) {
        TAG.with(|t| t.set(self.0));
        let l = live();
        PEAK.with(|p| {
            if l > p.get() {
                p.set(l)
            }
        });
    }
}

/// Harness memory (transport pipes, tap, event log, spawned tasks): not counted.
pub struct Untracked(u64);
impl Untracked {
    pub fn new() -> Untracked {
        Untracked(TAG.with(|t| t.replace(0)))
    }
}
impl Drop for Untracked {
    fn drop(&mut self) {
        TAG.with(|t| t.set(self.0));
    }
}
