//! Scripted in-memory transport for the component engines (codec / hpack):
//! every read and write is cut according to a plan of choices; `Pending` is
//! returned with an immediate self-wake, so a plain poll loop drives it.

use std::io;
use std::pin::Pin;
use std::task::{Context, Poll, RawWaker, RawWakerVTable, Waker};
use tokio::io::{AsyncRead, AsyncWrite, ReadBuf};

pub const SIZES: [usize; 16] = [1, 1, 2, 3, 5, 8, 9, 10, 17, 64, 255, 256, 1024, 4096, 16384, usize::MAX];

#[derive(Debug, Default)]
pub struct ScriptIo {
    pub input: Vec<u8>,
    pub rpos: usize,
    pub read_plan: Vec<u16>,
    pub rplan_pos: usize,
    pub eof: bool,
    pub written: Vec<u8>,
    pub write_plan: Vec<u16>,
    pub wplan_pos: usize,
    pub vectored: bool,
    last_read_pending: bool,
    last_write_pending: bool,
    pub write_calls: usize,
    pub vectored_calls: usize,
    pub short_writes: usize,
    pub pendings: usize,
    pub flushes: usize,
    pub shutdown_called: bool,
    pub written_at_shutdown: usize,
}

impl ScriptIo {
    pub fn reader(input: Vec<u8>, plan: Vec<u16>, eof: bool) -> ScriptIo {
        ScriptIo { input, read_plan: plan, eof, ..Default::default() }
    }
    pub fn writer(plan: Vec<u16>, vectored: bool) -> ScriptIo {
        ScriptIo { write_plan: plan, vectored, ..Default::default() }
    }
    fn next_write(&mut self, len: usize, cx: &mut Context<'_>) -> Option<usize> {
        let c = if self.wplan_pos < self.write_plan.len() {
            let c = self.write_plan[self.wplan_pos];
            self.wplan_pos += 1;
            c
        } else {
            0xffff
        };
        if c % 5 == 0 && !self.last_write_pending && c != 0xffff {
            self.last_write_pending = true;
            self.pendings += 1;
            cx.waker().wake_by_ref();
            return None;
        }
        self.last_write_pending = false;
        let n = SIZES[(c as usize >> 4) % 16].min(len).max(1.min(len));
        if n < len {
            self.short_writes += 1;
        }
        Some(n)
    }
}

impl AsyncRead for ScriptIo {
    fn poll_read(mut self: Pin<&mut Self>, cx: &mut Context<'_>, buf: &mut ReadBuf<'_>) -> Poll<io::Result<()>> {
        let me = &mut *self;
        let avail = me.input.len() - me.rpos;
        if avail == 0 {
            if me.eof {
                return Poll::Ready(Ok(()));
            }
            // nothing more will ever come: the driver decides what that means
            return Poll::Pending;
        }
        let c = if me.rplan_pos < me.read_plan.len() {
            let c = me.read_plan[me.rplan_pos];
            me.rplan_pos += 1;
            c
        } else {
            0xffff
        };
        if c % 5 == 0 && !me.last_read_pending && c != 0xffff {
            me.last_read_pending = true;
            me.pendings += 1;
            cx.waker().wake_by_ref();
            return Poll::Pending;
        }
        me.last_read_pending = false;
        let n = SIZES[(c as usize >> 4) % 16].min(avail).min(buf.remaining());
        buf.put_slice(&me.input[me.rpos..me.rpos + n]);
        me.rpos += n;
        Poll::Ready(Ok(()))
    }
}

impl AsyncWrite for ScriptIo {
    fn poll_write(mut self: Pin<&mut Self>, cx: &mut Context<'_>, buf: &[u8]) -> Poll<io::Result<usize>> {
        let me = &mut *self;
        me.write_calls += 1;
        match me.next_write(buf.len(), cx) {
            None => Poll::Pending,
            Some(n) => {
                me.written.extend_from_slice(&buf[..n]);
                Poll::Ready(Ok(n))
            }
        }
    }
    fn poll_write_vectored(mut self: Pin<&mut Self>, cx: &mut Context<'_>, bufs: &[io::IoSlice<'_>]) -> Poll<io::Result<usize>> {
        let me = &mut *self;
        me.write_calls += 1;
        me.vectored_calls += 1;
        let total: usize = bufs.iter().map(|b| b.len()).sum();
        match me.next_write(total, cx) {
            None => Poll::Pending,
            Some(mut n) => {
                let ret = n;
                for b in bufs {
                    let k = b.len().min(n);
                    me.written.extend_from_slice(&b[..k]);
                    n -= k;
                    if n == 0 {
                        break;
                    }
                }
                Poll::Ready(Ok(ret))
            }
        }
    }
    fn is_write_vectored(&self) -> bool {
        self.vectored
    }
    fn poll_flush(mut self: Pin<&mut Self>, _cx: &mut Context<'_>) -> Poll<io::Result<()>> {
        self.flushes += 1;
        Poll::Ready(Ok(()))
    }
    fn poll_shutdown(mut self: Pin<&mut Self>, _cx: &mut Context<'_>) -> Poll<io::Result<()>> {
        if !self.shutdown_called {
            self.shutdown_called = true;
            self.written_at_shutdown = self.written.len();
        }
        Poll::Ready(Ok(()))
    }
}

fn raw_noop() -> RawWaker {
    fn clone(_: *const ()) -> RawWaker {
        raw_noop()
    }
    fn noop(_: *const ()) {}
    static VT: RawWakerVTable = RawWakerVTable::new(clone, noop, noop, noop);
    RawWaker::new(std::ptr::null(), &VT)
}

pub fn noop_waker() -> Waker {
    // SAFETY: the vtable functions never dereference the (null) data pointer.
    unsafe { Waker::from_raw(raw_noop()) }
}
