//! Bridge for coverage-guided fuzzing: libFuzzer mutates the *choice tapes* of
//! the engines (bytes → tapes → generated case → run → oracles), so a crash is
//! an ordinary replay file and every target has the semantic oracle inside.

use crate::runner::{Engine, Known, Outcome};
use serde_json::{json, Value};
use std::sync::atomic::{AtomicU64, Ordering};
use std::sync::OnceLock;

pub trait Erased: Sync + Send {
    fn ename(&self) -> &'static str;
    fn lens(&self) -> Vec<usize>;
    fn run_tapes(&self, tapes: &[Vec<u32>]) -> (Value, Outcome);
}

impl<E: Engine + Sync + Send> Erased for E
where
    E::Case: serde::Serialize,
{
    fn ename(&self) -> &'static str {
        self.name()
    }
    fn lens(&self) -> Vec<usize> {
        self.tape_lens()
    }
    fn run_tapes(&self, tapes: &[Vec<u32>]) -> (Value, Outcome) {
        let case = self.gen(tapes);
        let out = self.run_contained(&case, "");
        (serde_json::to_value(&case).unwrap_or(Value::Null), out)
    }
}

pub fn engine(name: &str) -> Option<Box<dyn Erased>> {
    use crate::eng_codec::{ReadEngine, WriteEngine};
    use crate::eng_hpack::{DecEngine, EncEngine, SplitEngine};
    use crate::eng_pair::{NestEngine, PairEngine};
    use crate::eng_raw::{CatalogueServerEngine, HttpEngine};
    use crate::eng_raw2::{AcksEngine, CapEngine, FlowEngine, ShutdownEngine};
    use crate::sim_pair::Focus;
    Some(match name {
        "hpack-dec" => Box::new(DecEngine),
        "hpack-split" => Box::new(SplitEngine),
        "hpack-enc" => Box::new(EncEngine { big: false }),
        "codec-write" => Box::new(WriteEngine),
        "codec-read" => Box::new(ReadEngine),
        "raw-catalogue-server" => Box::new(CatalogueServerEngine),
        "raw-catalogue-client" => Box::new(crate::eng_raw::CatalogueClientEngine),
        "raw-acks-server" => Box::new(AcksEngine),
        "raw-flow-server" => Box::new(FlowEngine),
        "raw-capacity-server" => Box::new(CapEngine),
        "flood-doubling" => Box::new(crate::eng_flood::FloodEngine),
        "nest-coop" => Box::new(NestEngine { focus: Focus::Coop }),
        "nest-resets" => Box::new(NestEngine { focus: Focus::Resets }),
        "nest-faults" => Box::new(NestEngine { focus: Focus::Faults }),
        "raw-soup-server" => Box::new(crate::eng_soup::SoupEngine { server: true }),
        "raw-soup-client" => Box::new(crate::eng_soup::SoupEngine { server: false }),
        "raw-shutdown-server" => Box::new(ShutdownEngine { server: true }),
        "raw-goaway-client" => Box::new(ShutdownEngine { server: false }),
        "raw-queue-client" => Box::new(crate::eng_queue::QueueEngine),
        "raw-http-server" => Box::new(HttpEngine { server: true }),
        "raw-http-client" => Box::new(HttpEngine { server: false }),
        "pair-coop" => Box::new(PairEngine { focus: Focus::Coop }),
        "pair-resets" => Box::new(PairEngine { focus: Focus::Resets }),
        "pair-faults" => Box::new(PairEngine { focus: Focus::Faults }),
        _ => return None,
    })
}

/// bytes → one tape per engine tape, cut in proportion to the tape lengths
pub fn tapes_from_bytes(lens: &[usize], data: &[u8]) -> Vec<Vec<u32>> {
    let total: usize = lens.iter().sum::<usize>().max(1);
    let words = data.len() / 4;
    let mut out = Vec::new();
    let mut pos = 0usize;
    for (i, l) in lens.iter().enumerate() {
        let share = if i + 1 == lens.len() { words.saturating_sub(pos) } else { words * l / total };
        let n = share.min(*l);
        out.push(crate::tape::tape_from_bytes(&data[pos * 4..(pos + n) * 4]));
        pos += share;
    }
    out
}

/// the inverse (seed corpus from proptest-generated tapes): tapes → bytes such that `tapes_from_bytes` returns them
pub fn bytes_from_tapes(lens: &[usize], tapes: &[Vec<u32>]) -> Vec<u8> {
    // choose a word count W such that every share ≥ the tape's length, then pad each share with zeros
    let total: usize = lens.iter().sum::<usize>().max(1);
    let mut w = 4usize;
    loop {
        let ok = tapes.iter().enumerate().all(|(i, t)| if i + 1 == lens.len() { true } else { w * lens[i] / total >= t.len() });
        let used: usize = (0..lens.len().saturating_sub(1)).map(|i| w * lens[i] / total).sum();
        if ok && w >= used + tapes.last().map(|t| t.len()).unwrap_or(0) {
            break;
        }
        w += 4;
        if w > 1 << 20 {
            break;
        }
    }
    let mut out: Vec<u8> = Vec::new();
    for (i, t) in tapes.iter().enumerate() {
        let share = if i + 1 == lens.len() { t.len() } else { w * lens[i] / total };
        for k in 0..share {
            out.extend_from_slice(&t.get(k).copied().unwrap_or(0).to_le_bytes());
        }
    }
    out
}

struct Target {
    eng: Box<dyn Erased>,
    property: String,
    known: Known,
    root: std::path::PathBuf,
}

static TARGET: OnceLock<Option<Target>> = OnceLock::new();
static EXECS: AtomicU64 = AtomicU64::new(0);
static NONTRIVIAL: AtomicU64 = AtomicU64::new(0);
static KNOWN_HITS: AtomicU64 = AtomicU64::new(0);

/// One libFuzzer iteration. Engine and property come from H2V_ENGINE / H2V_PROPERTY. Panics (→ libFuzzer crash)
/// iff the case violates the property and the violation is not a recorded finding; the replay file is written first.
pub fn fuzz_one(data: &[u8]) {
    let t = TARGET.get_or_init(|| {
        // (libfuzzer-sys installs an aborting panic hook at start-up: contained panics of the code under test are
        // part of what the simulator observes, so the harness's own hook replaces it)
        crate::util::install_panic_hook();
        let name = std::env::var("H2V_ENGINE").ok()?;
        let eng = engine(&name)?;
        let root = std::path::PathBuf::from(std::env::var("VERIF_ROOT").unwrap_or_else(|_| "/verif".into()));
        Some(Target { eng, property: std::env::var("H2V_PROPERTY").unwrap_or_default(), known: Known::load(&root), root })
    });
    let t = match t {
        Some(t) => t,
        None => {
            eprintln!("fz_tape: set H2V_ENGINE to an engine name and H2V_PROPERTY to a property id");
            std::process::exit(2);
        }
    };
    let tapes = tapes_from_bytes(&t.eng.lens(), data);
    let r = std::panic::catch_unwind(std::panic::AssertUnwindSafe(|| t.eng.run_tapes(&tapes)));
    let (case, out) = match r {
        Ok(x) => x,
        Err(_) => {
            // a panic of the harness itself: infrastructure, not a verdict — reported and skipped
            eprintln!("fz_tape: harness panic: {:?}", crate::util::take_panic());
            std::process::exit(2);
        }
    };
    let n = EXECS.fetch_add(1, Ordering::Relaxed) + 1;
    if out.nontrivial {
        NONTRIVIAL.fetch_add(1, Ordering::Relaxed);
    }
    let mine: Vec<_> = out.violations.iter().filter(|v| v.property == t.property).collect();
    let any_known = out.violations.iter().any(|v| t.known.matches(v).is_some());
    if any_known {
        KNOWN_HITS.fetch_add(1, Ordering::Relaxed);
    }
    if n % 500 == 0 {
        let _ = std::fs::write(
            t.root.join("fuzz").join(format!("stats-{}-{}.json", t.property, t.eng.ename())),
            serde_json::to_vec(&json!({"engine": t.eng.ename(), "property": t.property, "execs": n, "nontrivial": NONTRIVIAL.load(Ordering::Relaxed), "known_finding_hits": KNOWN_HITS.load(Ordering::Relaxed)})).unwrap_or_default(),
        );
    }
    if any_known {
        return;
    }
    if let Some(v) = mine.first() {
        let dir = t.root.join("replays").join(&t.property);
        let _ = std::fs::create_dir_all(&dir);
        let body = json!({"engine": t.eng.ename(), "property": t.property, "violation": v, "case": case, "found_by": "libFuzzer over the choice tapes"});
        let bytes = serde_json::to_vec_pretty(&body).unwrap_or_default();
        let path = dir.join(format!("fuzz-{:016x}.json", crate::tape::fnv(&bytes)));
        let _ = std::fs::write(&path, bytes);
        eprintln!("violation detail: oracle={} signature={} :: {}", v.oracle, v.signature, v.detail);
        eprintln!("VIOLATION property={} replay={}", t.property, path.display());
        std::process::abort();
    }
}
