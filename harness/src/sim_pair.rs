//! PAIR mode: an h2 client and an h2 server run against each other on the
//! deterministic simulator, driven by generated application programs.

use crate::eng_codec::{mix, SegBuf};
use crate::sim::*;
use crate::tape::Tape;
use bytes::Bytes;
use h2::{client, server, RecvStream, SendStream};
use serde::{Deserialize, Serialize};
use std::cell::RefCell;
use std::collections::VecDeque;
use std::future::poll_fn;
use std::rc::Rc;
use std::task::{Poll, Waker};

// ------------------------------------------------------------ case

#[derive(Clone, Debug, Serialize, Deserialize)]
pub struct Cfg {
    pub initial_window: Option<u32>,
    pub conn_window: Option<u32>,
    pub max_frame: Option<u32>,
    pub header_table: Option<u32>,
    pub max_header_list: Option<u32>,
    pub max_concurrent: Option<u32>,
    pub max_send_buffer: Option<usize>,
    pub reset_max: Option<usize>,
    pub reset_dur_zero: bool,
    pub enable_push: Option<bool>,
    /// client only: client::Builder::initial_stream_id (to reach the end of the identifier space)
    #[serde(default)]
    pub initial_stream_id: Option<u32>,
}

#[derive(Clone, Debug, Serialize, Deserialize)]
pub struct Chunk {
    pub len: usize,
    /// use reserve_capacity + poll_capacity instead of a blind send_data
    pub reserve: bool,
    pub cuts: Vec<usize>,
    /// scheduler yields before this chunk
    pub delay: usize,
    /// reserve mode: scheduler yields between being assigned capacity and sending (capacity held unused)
    #[serde(default)]
    pub hold: usize,
}

#[derive(Clone, Debug, PartialEq, Serialize, Deserialize)]
pub enum EndKind {
    Clean,
    /// send_reset(code) after this many chunks have been submitted
    Reset { after: usize, code: u32 },
    /// drop the send handle after this many chunks
    Drop { after: usize },
}

#[derive(Clone, Debug, Serialize, Deserialize)]
pub struct Msg {
    pub nfields: usize,
    /// bytes of one large field value (0 = none); forces CONTINUATION when > max frame size
    pub big: usize,
    pub sensitive: bool,
    pub chunks: Vec<Chunk>,
    pub trailers: Option<usize>,
    /// END_STREAM on the head (only honoured when there are no chunks/trailers)
    pub eos_on_head: bool,
    pub end: EndKind,
    /// submit a field the send API must refuse or strip (C13 send side): index into BAD_FIELDS + 1
    #[serde(default)]
    pub bad: u8,
    /// after the last chunk keep the send handle and wait in poll_reset (resolves on reset or connection end)
    #[serde(default)]
    pub watch_reset: bool,
    /// after the message was finished (END_STREAM submitted) wait this many yields, then call send_reset(code):
    /// whatever is still unsent must be discarded
    #[serde(default)]
    pub reset_after_end: Option<(usize, u32)>,
}

pub const BAD_FIELDS: &[(&str, &str)] = &[("connection", "close"), ("keep-alive", "1"), ("proxy-connection", "x"), ("transfer-encoding", "chunked"), ("upgrade", "h2c"), ("te", "gzip"), ("te", "trailers, deflate")];

#[derive(Clone, Debug, PartialEq, Serialize, Deserialize)]
pub enum Reader {
    Eager,
    /// release after this many scheduler yields
    Deferred(usize),
    /// drop the receive handle once this many bytes have been read
    DropAfter(usize),
    /// release in lumps: only once this many bytes are held, and the rest at the end of the body — followed at
    /// once by the drop of the handle
    Lump(usize),
    /// read to the end without ever releasing anything, then drop the handle (what was read comes back to the
    /// windows when the handle goes)
    NoRelease,
}

#[derive(Clone, Debug, Serialize, Deserialize)]
pub struct Push {
    pub resp: Msg,
    pub status: u16,
    pub reader: Reader,
    /// drop the pushed-response handle without sending anything
    pub abandon: bool,
    /// scheduler yields between push_request and the pushed response (0 = in the same turn, before the PUSH_PROMISE
    /// can have been written)
    #[serde(default)]
    pub resp_delay: usize,
}

#[derive(Clone, Debug, Serialize, Deserialize)]
pub struct Req {
    pub id: u32,
    pub method: String,
    pub delay: usize,
    pub req: Msg,
    pub req_reader: Reader,
    pub status: u16,
    pub interim: u8,
    pub resp: Msg,
    pub resp_reader: Reader,
    pub resp_delay: usize,
    pub pushes: Vec<Push>,
    /// client drops the ResponseFuture right after send_request
    pub drop_response_future: bool,
    /// client uses its own clone of SendRequest
    pub clone_handle: bool,
    /// after sending this request the same task waits for readiness again on the same handle and sends a
    /// small follow-up request (parks in poll_ready behind its own queued stream when the limit is reached)
    #[serde(default)]
    pub then_second: bool,
    /// server application drops every handle of the stream as soon as it has accepted it (no response, no reset call)
    #[serde(default)]
    pub abandon: bool,
    /// server promises its pushes only after the response head and the first body bytes were queued
    #[serde(default)]
    pub push_late: bool,
    /// client: having taken the final response head, wait this many yields and ask once more for interim
    /// responses (there are none; what is queued on the stream must stay as it is), then read the body
    #[serde(default)]
    pub late_info: Option<usize>,
}

#[derive(Clone, Debug, Serialize, Deserialize)]
pub enum ConnCmd {
    SetInitialWindow(u32),
    SetTargetWindow(u32),
    Ping,
    GracefulShutdown,
    AbruptShutdown(u32),
    DropConnection,
    DropSendRequest,
}

#[derive(Clone, Debug, Serialize, Deserialize)]
pub struct ConnOp {
    pub side: Side,
    /// fire after this many API events have been logged
    pub after_events: usize,
    pub cmd: ConnCmd,
    /// … and then after this many further progress ticks (bytes moved / API events) of the system
    #[serde(default)]
    pub gap: usize,
}

#[derive(Clone, Debug, Serialize, Deserialize)]
pub struct Fault {
    /// which direction is cut
    pub c2s: bool,
    pub at: usize,
    pub kind: CutKind,
}

/// One operation of the send-capacity program (C16): executed sequentially by a single server task that owns
/// the SendStreams of the first `streams` requests.
#[derive(Clone, Debug, Serialize, Deserialize)]
pub enum CapOp {
    Reserve { s: usize, n: usize },
    /// await poll_capacity once
    WaitCap { s: usize },
    /// read capacity() and send exactly that many bytes
    SendCap { s: usize },
    /// blind send
    Send { s: usize, n: usize },
    /// read capacity() of every stream at once
    Census,
    /// the same, at a moment the program expects the connection to have settled with every reservation far above
    /// what the connection window can give (conservation probe)
    CensusFinal,
    End { s: usize },
    /// end the stream with a trailer section instead of an empty final DATA frame
    EndTrailers { s: usize },
    /// with capacity in hand that is smaller than before (part of it was just used): wait until capacity() has
    /// grown above `above` again (the send buffer drained), polling poll_capacity in between
    WaitIncrease { s: usize, above: usize },
    Reset { s: usize, code: u32 },
    Drop { s: usize },
    Yield(usize),
    /// the program stops here and goes idle for good: the streams stay open, their handles alive (kept until the
    /// case is torn down), nothing is sent or asked any more
    StopHere,
}

thread_local! {
    /// handles an application keeps alive while it does nothing at all (dropped when the case is torn down)
    static HELD: RefCell<Vec<Box<dyn std::any::Any>>> = RefCell::new(Vec::new());
}

#[derive(Clone, Debug, Serialize, Deserialize)]
pub struct CapProgram {
    pub streams: usize,
    pub ops: Vec<CapOp>,
    /// scheduler yields before the response heads are sent (the streams are accepted, their send halves not started)
    #[serde(default)]
    pub start_delay: usize,
}

#[derive(Clone, Debug, Serialize, Deserialize)]
pub struct PairCase {
    /// C16: the server runs this program instead of per-request handlers
    #[serde(default)]
    pub cap: Option<CapProgram>,
    /// C18: the server application stops accepting after this many streams (drives the connection with
    /// poll_closed from then on)
    #[serde(default)]
    pub accept_limit: Option<usize>,
    pub ccfg: Cfg,
    pub scfg: Cfg,
    pub client_init_max_send: Option<usize>,
    pub vectored_c: bool,
    pub vectored_s: bool,
    pub sched: Vec<u32>,
    pub chunk_c2s: Vec<u32>,
    pub chunk_s2c: Vec<u32>,
    pub reqs: Vec<Req>,
    pub ops: Vec<ConnOp>,
    pub fault: Option<Fault>,
    /// client drops its last SendRequest when all requests have been issued
    pub drop_send_request_at_end: bool,
    /// C20: decisions taken at the transport callbacks inside a connection's poll — whether (and which) runnable
    /// application task is polled right there, as a thread running in parallel would; empty = never
    #[serde(default)]
    pub nest: Vec<u32>,
}

// ------------------------------------------------------------ generator

#[derive(Clone, Copy, Debug, PartialEq, Eq)]
pub enum Focus {
    /// cooperative, fragmentation heavy (C01, C02, C06, C12)
    Coop,
    /// resets / drops at every moment (C04, C17, C19, C05)
    Resets,
    /// one transport fault or shutdown (C07, C15)
    Faults,
}

const WINDOWS: &[u32] = &[65535, 1, 2, 100, 1000, 16384, 16385, 65536, 100_000, 1 << 20, 0x7fff_ffff];
const BODY: &[usize] = &[0, 1, 2, 100, 255, 256, 257, 1000, 1023, 1024, 1025, 5000, 16383, 16384, 16385, 20000, 40000, 65535, 65536, 70000, 100_000];

fn gen_cfg(t: &mut Tape, server: bool) -> Cfg {
    Cfg {
        initial_window: if t.chance(1, 2) { Some(*t.pick(WINDOWS)) } else { None },
        conn_window: if t.chance(1, 3) { Some(*t.pick(&[65535u32, 65536, 100_000, 1 << 20, 1 << 24])) } else { None },
        max_frame: if t.chance(1, 3) { Some(*t.pick(&[16384u32, 16385, 20000, 65536, 1 << 20])) } else { None },
        header_table: if t.chance(1, 4) { Some(*t.pick(&[0u32, 100, 4096, 65536])) } else { None },
        max_header_list: None,
        max_concurrent: if t.chance(1, 2) { Some(*t.pick(&[1u32, 2, 3, 5, 100])) } else { None },
        max_send_buffer: if t.chance(1, 3) { Some(*t.pick(&[1usize, 100, 1000, 16384, 1 << 20])) } else { None },
        reset_max: if t.chance(1, 4) { Some(*t.pick(&[0usize, 1, 2, 10])) } else { None },
        reset_dur_zero: t.chance(1, 3),
        enable_push: if server { None } else if t.chance(1, 3) { Some(false) } else { None },
        initial_stream_id: None,
    }
}

fn gen_chunks(t: &mut Tape, allow_big: bool) -> Vec<Chunk> {
    let n = match t.weighted(&[3, 4, 2]) {
        0 => 0,
        1 => 1 + t.below(2),
        _ => 2 + t.below(5),
    };
    (0..n)
        .map(|_| {
            let len = match t.weighted(&[6, 3]) {
                0 => *t.pick(if allow_big { BODY } else { &BODY[..12] }),
                _ => t.below(3000),
            };
            let nc = t.below(3);
            Chunk { len, reserve: t.chance(1, 3), cuts: (0..nc).map(|_| t.below(len.max(1))).collect(), delay: if t.chance(1, 3) { t.below(6) } else { 0 }, hold: if t.chance(1, 5) { 1 + t.below(12) } else { 0 } }
        })
        .collect()
}

fn gen_msg(t: &mut Tape, focus: Focus, allow_big: bool) -> Msg {
    let chunks = gen_chunks(t, allow_big);
    let nch = chunks.len();
    let end = match focus {
        Focus::Coop => EndKind::Clean,
        // a send half dropped while the same side keeps reading leaves the peer's reader waiting for
        // ever by design (no RST until the last handle goes): fine for wire/reset oracles, but a
        // program-level circular wait for "everything resolves" verdicts
        _ => match t.weighted(&[5, 2, if focus == Focus::Faults { 0 } else { 2 }]) {
            0 => EndKind::Clean,
            1 => EndKind::Reset { after: t.below(nch + 1), code: if t.chance(3, 4) { t.below(14) as u32 } else { t.u32() } },
            _ => EndKind::Drop { after: t.below(nch + 1) },
        },
    };
    Msg {
        nfields: t.below(6),
        big: if t.chance(1, 8) { *t.pick(&[100usize, 5000, 17000, 40000]) } else { 0 },
        sensitive: t.chance(1, 8),
        trailers: if t.chance(1, 4) { Some(t.below(4)) } else { None },
        eos_on_head: t.chance(1, 2),
        chunks,
        end: end.clone(),
        bad: if focus == Focus::Resets && t.chance(1, 12) { 1 + t.below(BAD_FIELDS.len()) as u8 } else { 0 },
        watch_reset: (focus == Focus::Faults && t.chance(1, 5)) || (focus == Focus::Resets && t.chance(1, 8)),
        // (Resets focus: a reset of a message that is complete from the application's point of view but may still be
        // waiting for window)
        reset_after_end: if focus == Focus::Resets && end == EndKind::Clean && nch > 0 && t.chance(1, 6) { Some((t.below(30), if t.chance(3, 4) { t.below(14) as u32 } else { t.u32() })) } else { None },
    }
}

fn gen_reader(t: &mut Tape, focus: Focus) -> Reader {
    match focus {
        // (Faults: a receive handle dropped while another handle of the stream stays alive neither resets
        // the stream nor grants it window — the peer's sender then waits by design, which would be a
        // program-level hang in "everything resolves after graceful shutdown" verdicts)
        Focus::Coop | Focus::Faults => match t.weighted(&[3, 2]) {
            0 => Reader::Eager,
            _ => Reader::Deferred(1 + t.below(8)),
        },
        _ => match t.weighted(&[3, 2, 2, 1]) {
            0 => Reader::Eager,
            1 => Reader::Deferred(1 + t.below(8)),
            2 => Reader::DropAfter(*t.pick(&[0usize, 1, 100, 5000, 20000])),
            _ => Reader::NoRelease,
        },
    }
}

pub fn gen_pair(tapes: &[Vec<u32>], focus: Focus) -> PairCase {
    let mut t = Tape::new(&tapes[0]);
    let mut ccfg = gen_cfg(&mut t, false);
    let mut scfg = gen_cfg(&mut t, true);
    let push_ok = ccfg.enable_push != Some(false);
    let nreq = 1 + match t.weighted(&[4, 3, 1]) {
        0 => t.below(2),
        1 => t.below(5),
        _ => t.below(12),
    };
    let mut reqs = Vec::new();
    for i in 0..nreq {
        let has_body = t.chance(2, 3);
        let mut req = gen_msg(&mut t, focus, true);
        if !has_body {
            req.chunks.clear();
            req.trailers = None;
        }
        let resp = gen_msg(&mut t, focus, true);
        // pushes make the h2 server emit promised ids out of order when handlers race (recorded finding
        // C04/promised-id-not-increasing): the cooperative focus generates them only with a single request, where
        // ids are ordered by construction; the Resets focus also with several requests
        let multi_ok = nreq == 1 || (focus == Focus::Resets && t.chance(1, 2));
        let npush = if push_ok && multi_ok && t.chance(1, 3) { 1 + t.below(3) } else { 0 };
        let pushes = (0..npush)
            .map(|_| Push { resp: gen_msg(&mut t, focus, false), status: 200, reader: gen_reader(&mut t, focus), abandon: focus != Focus::Coop && t.chance(1, 6), resp_delay: if t.chance(1, 3) { 1 + t.below(40) } else { 0 } })
            .collect();
        reqs.push(Req {
            id: i as u32 + 1,
            method: if has_body { "POST".into() } else { t.pick(&["GET", "GET", "DELETE", "OPTIONS"]).to_string() },
            delay: if t.chance(1, 2) { t.below(10) } else { 0 },
            req,
            req_reader: gen_reader(&mut t, focus),
            status: *t.pick(&[200u16, 200, 201, 404, 500]),
            interim: if t.chance(1, 5) { 1 + t.below(3) as u8 } else { 0 },
            resp,
            resp_reader: gen_reader(&mut t, focus),
            resp_delay: if t.chance(1, 2) { t.below(10) } else { 0 },
            pushes,
            drop_response_future: focus != Focus::Coop && t.chance(1, 10),
            clone_handle: t.chance(1, 3),
            then_second: focus != Focus::Resets && t.chance(1, 6),
            abandon: false,
            push_late: false,
            late_info: None,
        });
    }
    // some servers promise late (after the response head and first body bytes)
    for r in reqs.iter_mut() {
        let r: &mut Req = r;
        if !r.pushes.is_empty() && !r.resp.chunks.is_empty() && t.chance(1, 3) {
            r.push_late = true;
        }
        if t.chance(1, 6) {
            r.late_info = Some(t.below(40));
        }
    }
    // bound the number of DATA frames: with a window of w bytes a body of n bytes needs ≥ n/w frames
    // (and as many WINDOW_UPDATEs); keep every chunk below ~400 window-fuls
    let minw = |c: &Cfg| c.initial_window.unwrap_or(65535).min(c.conn_window.unwrap_or(65535)).max(1) as usize;
    let (wc, ws) = (minw(&ccfg), minw(&scfg));
    let has_window_ops = true;
    let _ = has_window_ops;
    for r in reqs.iter_mut() {
        for ch in r.req.chunks.iter_mut() {
            ch.len = ch.len.min(ws.saturating_mul(400));
        }
        for ch in r.resp.chunks.iter_mut() {
            ch.len = ch.len.min(wc.saturating_mul(400));
        }
        for p in r.pushes.iter_mut() {
            for ch in p.resp.chunks.iter_mut() {
                ch.len = ch.len.min(wc.saturating_mul(400));
            }
        }
    }
    // a client that opens streams before it has seen the server's limit gets the surplus
    // refused (legitimate); keep cooperative runs below the limit from the start
    let mut client_init_max_send = match scfg.max_concurrent {
        Some(m) => Some((m as usize).min(if t.chance(1, 2) { m as usize } else { 1 + t.below(m as usize) })),
        None => None,
    };
    // outside the cooperative focus the client may also start from an assumption above the server's real limit:
    // when the server's SETTINGS arrive the limit drops below the number of streams already open (the surplus is
    // refused, legitimately), and requests issued afterwards have to wait until enough of them have closed
    if focus == Focus::Resets {
        if let Some(m) = scfg.max_concurrent {
            if t.chance(1, 3) {
                client_init_max_send = Some(m as usize + 1 + t.below(4));
            }
        }
    }
    if focus != Focus::Resets && ccfg.max_concurrent == Some(1) && reqs.iter().any(|r| r.pushes.len() > 1) {
        ccfg.max_concurrent = None; // pushed streams over the limit are refused (legitimately): not a cooperative exchange
    }
    let mut ops = Vec::new();
    if t.chance(1, 4) {
        let n = 1 + t.below(3);
        for _ in 0..n {
            let side = if t.bool() { Side::Client } else { Side::Server };
            let cmd = match t.weighted(&[4, 3, 2]) {
                0 => ConnCmd::SetInitialWindow(*t.pick(&WINDOWS[3..])),
                1 => ConnCmd::SetTargetWindow(*t.pick(&[65535u32, 70000, 1 << 20, 100_000])),
                _ => ConnCmd::Ping,
            };
            ops.push(ConnOp { side, after_events: t.below(40), cmd, gap: 0 });
        }
    }
    if focus != Focus::Faults && !reqs.is_empty() && t.chance(1, 8) {
        // frame-size story: one side advertises a frame size above the default, later changes another setting (a second
        // SETTINGS frame that does not mention the frame size), and only then receives bodies cut into large frames
        let server = t.bool();
        let big = *t.pick(&[20000u32, 65536, 1 << 20]);
        {
            let cfg = if server { &mut scfg } else { &mut ccfg };
            cfg.max_frame = Some(big);
            if cfg.initial_window.map(|w| w < 40000).unwrap_or(false) {
                cfg.initial_window = None;
            }
        }
        ops.retain(|o| !(matches!(o.cmd, ConnCmd::SetInitialWindow(_)) && (o.side == Side::Server) == server));
        ops.push(ConnOp { side: if server { Side::Server } else { Side::Client }, after_events: t.below(8), cmd: ConnCmd::SetInitialWindow(*t.pick(&[65535u32, 65536, 100_000, 1 << 20])), gap: 0 });
        let k = t.below(reqs.len());
        let ch = Chunk { len: 17000 + t.below(40000), reserve: t.bool(), cuts: vec![], delay: 30 + t.below(60), hold: 0 };
        if server {
            reqs[k].method = "POST".into();
            reqs[k].req.eos_on_head = false;
            reqs[k].req.chunks.push(ch);
        } else if reqs[k].method != "HEAD" && ![204u16, 304].contains(&reqs[k].status) {
            reqs[k].resp.eos_on_head = false;
            reqs[k].resp.chunks.push(ch);
        }
    }
    if t.chance(1, 5) {
        // two or three pings from one side, some of them when the connection has gone idle
        let side = if t.bool() { Side::Client } else { Side::Server };
        let n = 2 + t.below(2);
        for k in 0..n {
            ops.push(ConnOp { side, after_events: if t.bool() { t.below(40) } else { 10_000 + k }, cmd: ConnCmd::Ping, gap: 0 });
        }
    }
    let mut fault = None;
    if focus == Focus::Faults {
        match t.weighted(&[5, 2, 2, 1]) {
            0 => {
                fault = Some(Fault { c2s: t.bool(), at: t.below(3000) + if t.chance(1, 3) { t.below(60000) } else { 0 }, kind: *t.pick(&[CutKind::Eof, CutKind::ReadErr, CutKind::ReadErrEof, CutKind::WriteErr, CutKind::WriteZero]) });
            }
            1 => {
                let at = t.below(60);
                if t.chance(1, 2) {
                    // a user PING written just before: two PINGs outstanding when the shutdown begins
                    ops.push(ConnOp { side: Side::Server, after_events: at, cmd: ConnCmd::Ping, gap: 0 });
                }
                // (the shutdown follows one or two API events later, so the user PING is often on the wire first)
                let gap = if ops.iter().any(|o| matches!(o.cmd, ConnCmd::Ping) && o.after_events == at) { 1 + t.below(6) } else { 0 };
                ops.push(ConnOp { side: Side::Server, after_events: at, cmd: ConnCmd::GracefulShutdown, gap });
            }
            2 => ops.push(ConnOp { side: Side::Server, after_events: t.below(60), cmd: ConnCmd::AbruptShutdown(t.below(14) as u32), gap: 0 }),
            _ => ops.push(ConnOp { side: if t.bool() { Side::Client } else { Side::Server }, after_events: t.below(60), cmd: ConnCmd::DropConnection, gap: 0 }),
        }
    }
    // one reader that releases capacity in lumps (and the rest at the very end, just before it lets go of the handle);
    // the lump never exceeds half of the windows in force, so the transfer cannot stall on it
    let windows_change = ops.iter().any(|o| matches!(o.cmd, ConnCmd::SetInitialWindow(_) | ConnCmd::SetTargetWindow(_)));
    if !windows_change && !reqs.is_empty() && t.chance(1, 3) {
        let k = t.below(reqs.len());
        let server_reads = t.bool();
        let cfg = if server_reads { &scfg } else { &ccfg };
        let w = (cfg.initial_window.unwrap_or(65535) as usize).min(cfg.conn_window.unwrap_or(65535) as usize).min(65535);
        let lump = Reader::Lump(1 + t.below((w / 2).max(1)));
        if server_reads {
            reqs[k].req_reader = lump;
        } else {
            reqs[k].resp_reader = lump;
        }
    }
    let mut t2 = Tape::new(&tapes[1]);
    let ns = t2.below(400);
    let sched = (0..ns).map(|_| t2.u32()).collect();
    let mut t3 = Tape::new(&tapes[2]);
    let n1 = t3.below(150);
    let chunk_c2s = (0..n1).map(|_| t3.u32()).collect();
    let n2 = t3.below(150);
    let chunk_s2c = (0..n2).map(|_| t3.u32()).collect();
    PairCase {
        cap: None,
        accept_limit: None,
        ccfg,
        scfg,
        client_init_max_send,
        vectored_c: t3.bool(),
        vectored_s: t3.bool(),
        sched,
        chunk_c2s,
        chunk_s2c,
        reqs,
        ops,
        fault,
        drop_send_request_at_end: t.chance(1, 2),
        nest: vec![],
    }
}

pub fn empty_msg() -> Msg {
    Msg { nfields: 0, big: 0, sensitive: false, chunks: vec![], trailers: None, eos_on_head: true, end: EndKind::Clean, bad: 0, watch_reset: false, reset_after_end: None }
}

pub fn default_req(key: u32) -> Req {
    let mut resp = empty_msg();
    resp.chunks = vec![Chunk { len: 10, reserve: false, cuts: vec![], delay: 0, hold: 0 }];
    Req {
        id: key,
        method: "GET".into(),
        delay: 0,
        req: empty_msg(),
        req_reader: Reader::Eager,
        status: 200,
        interim: 0,
        resp,
        resp_reader: Reader::Eager,
        resp_delay: 0,
        pushes: vec![],
        drop_response_future: false,
        clone_handle: false,
        then_second: false,
        abandon: false,
        push_late: false,
        late_info: None,
    }
}

// ------------------------------------------------------------ message construction (shared by both sides)

pub fn fields_of(m: &http::HeaderMap) -> Vec<(String, String)> {
    m.iter().map(|(n, v)| (n.as_str().to_string(), String::from_utf8_lossy(v.as_bytes()).into_owned())).collect()
}

pub fn extra_fields(key: u32, m: &Msg, map: &mut http::HeaderMap) {
    for i in 0..m.nfields {
        let name = format!("x-f{}", (i + key as usize) % 7);
        // (every third message carries one value of 198..207 'a's: 202 and 203 of them Huffman-code to exactly 127
        // octets, the boundary of the one-octet string length)
        let val = if i == 1 && (key as usize + m.nfields) % 3 == 0 { "a".repeat(198 + (key % 10) as usize) } else { format!("v{}-{}", key, i) };
        let mut v = http::HeaderValue::from_str(&val).unwrap();
        if m.sensitive && i == 0 {
            v.set_sensitive(true);
        }
        map.append(http::header::HeaderName::from_bytes(name.as_bytes()).unwrap(), v);
    }
    if m.bad > 0 {
        let (n, v) = BAD_FIELDS[(m.bad as usize - 1) % BAD_FIELDS.len()];
        map.append(http::header::HeaderName::from_bytes(n.as_bytes()).unwrap(), http::HeaderValue::from_static(v));
    }
    if m.big > 0 {
        let s: String = (0..m.big).map(|i| (b'a' + ((i as u32 + key) % 26) as u8) as char).collect();
        map.append("x-big", http::HeaderValue::from_str(&s).unwrap());
    }
}

pub fn trailer_map(key: u32, n: usize) -> http::HeaderMap {
    let mut m = http::HeaderMap::new();
    for i in 0..n {
        m.append(http::header::HeaderName::from_bytes(format!("x-t{}", i).as_bytes()).unwrap(), http::HeaderValue::from_str(&format!("t{}-{}", key, i)).unwrap());
    }
    m
}

/// message id for body content: distinct per (key, direction)
pub fn msg_id(key: u32, from: Side) -> u64 {
    (key as u64) * 2 + if from == Side::Client { 0 } else { 1 }
}

fn body_bytes(key: u32, from: Side, off: u64, len: usize) -> Vec<u8> {
    let m = msg_id(key, from);
    (0..len as u64).map(|i| mix(m, off + i)).collect()
}

pub fn head_eos(m: &Msg) -> bool {
    m.chunks.is_empty() && m.trailers.is_none() && m.eos_on_head && m.end == EndKind::Clean
}

// ------------------------------------------------------------ shared context

#[derive(Default)]
pub struct CmdQ {
    pub q: VecDeque<ConnCmd>,
    pub waker: Option<Waker>,
    /// pings requested (handled by the side's own pinger task)
    pub pings: usize,
    pub ping_waker: Option<Waker>,
    pub closed: bool,
}

/// Owns the PingPong handle in its own task: send_ping / poll_pong happen away from
/// the connection task, so the connection must be woken by the handle.
async fn pinger(mut pp: h2::PingPong, cmds: Rc<RefCell<CmdQ>>, side: Side, log: Log) {
    loop {
        let go = poll_fn(|cx| {
            let mut q = cmds.borrow_mut();
            if q.pings > 0 {
                q.pings -= 1;
                Poll::Ready(true)
            } else if q.closed {
                Poll::Ready(false)
            } else {
                q.ping_waker = Some(cx.waker().clone());
                Poll::Pending
            }
        })
        .await;
        if !go {
            return;
        }
        match pp.send_ping(h2::Ping::opaque()) {
            Ok(()) => {
                log.push(side, 0, Api::ConnOp { op: "send_ping -> Ok".into() });
                let r = poll_fn(|cx| pp.poll_pong(cx)).await;
                log.push(side, 0, Api::Pong { result: r.map(|_| ()).map_err(|e| err_info(&e)) });
            }
            Err(e) => log.push(side, 0, Api::ConnOp { op: format!("send_ping -> Err({})", e) }),
        }
    }
}

#[derive(Clone)]
pub struct Ctx {
    pub log: Log,
    pub sp: Spawner,
    pub reqs: Rc<Vec<Req>>,
    /// deferred releases: (remaining yields, flow control handle, bytes)
    pub probes: Rc<RefCell<Vec<(Side, h2::verif::VerifProbe)>>>,
}

// ------------------------------------------------------------ sending a message body

async fn send_body(mut st: SendStream<SegBuf>, m: Msg, key: u32, side: Side, log: Log, sp: Spawner) {
    let mut off = 0u64;
    let n = m.chunks.len();
    for (i, ch) in m.chunks.iter().enumerate() {
        match m.end {
            EndKind::Reset { after, code } if after == i => {
                st.send_reset(h2::Reason::from(code));
                log.push(side, key, Api::SentReset { code });
                return;
            }
            EndKind::Drop { after } if after == i => {
                log.push(side, key, Api::DroppedSend);
                drop(st);
                return;
            }
            _ => {}
        }
        yield_n(ch.delay).await;
        let last = i + 1 == n && m.trailers.is_none() && m.end == EndKind::Clean;
        if ch.reserve && ch.len > 0 {
            let mut left = ch.len;
            let mut cut_base = 0usize;
            while left > 0 {
                st.reserve_capacity(left);
                // (each wait starts with one poll under another waker — as when the wait is begun in one place and continued
                // in a task of its own: the waker of the latest poll is the one that counts)
                let early = {
                    let w = crate::mockio::noop_waker();
                    let mut cx0 = std::task::Context::from_waker(&w);
                    st.poll_capacity(&mut cx0)
                };
                let got = match early {
                    Poll::Ready(x) => x,
                    Poll::Pending => poll_fn(|cx| st.poll_capacity(cx)).await,
                };
                match got {
                    Some(Ok(c)) => {
                        log.push(side, key, Api::Capacity { got: c });
                        if c == 0 {
                            // reported by the C16 oracle; avoid spinning
                            yield_now().await;
                            continue;
                        }
                        if ch.hold > 0 {
                            yield_n(ch.hold).await;
                        }
                        let k = c.min(left);
                        let data = body_bytes(key, side, off, k);
                        let cuts: Vec<usize> = ch.cuts.iter().filter_map(|c| c.checked_sub(cut_base)).collect();
                        let eos = last && k == left;
                        match st.send_data(SegBuf::new(data, &cuts), eos) {
                            Ok(()) => log.push(side, key, Api::SentData { len: k, eos }),
                            Err(e) => {
                                log.push(side, key, Api::SendErr { op: "send_data", err: err_info(&e) });
                                return;
                            }
                        }
                        off += k as u64;
                        left -= k;
                        cut_base += k;
                    }
                    Some(Err(e)) => {
                        log.push(side, key, Api::CapacityErr { err: err_info(&e) });
                        return;
                    }
                    None => {
                        log.push(side, key, Api::CapacityEnd);
                        return;
                    }
                }
            }
        } else {
            let data = body_bytes(key, side, off, ch.len);
            match st.send_data(SegBuf::new(data, &ch.cuts), last) {
                Ok(()) => log.push(side, key, Api::SentData { len: ch.len, eos: last }),
                Err(e) => {
                    log.push(side, key, Api::SendErr { op: "send_data", err: err_info(&e) });
                    return;
                }
            }
            off += ch.len as u64;
        }
    }
    match m.end {
        EndKind::Reset { code, .. } => {
            st.send_reset(h2::Reason::from(code));
            log.push(side, key, Api::SentReset { code });
            return;
        }
        EndKind::Drop { .. } => {
            log.push(side, key, Api::DroppedSend);
            drop(st);
            return;
        }
        EndKind::Clean => {}
    }
    if let Some(nt) = m.trailers {
        let tm = trailer_map(key, nt);
        let f = fields_of(&tm);
        match st.send_trailers(tm) {
            Ok(()) => log.push(side, key, Api::SentTrailers { fields: f }),
            Err(e) => log.push(side, key, Api::SendErr { op: "send_trailers", err: err_info(&e) }),
        }
    } else if m.chunks.is_empty() {
        // no chunks, no trailers, head did not carry END_STREAM: finish with an empty DATA frame
        match st.send_data(SegBuf::new(vec![], &[]), true) {
            Ok(()) => log.push(side, key, Api::SentData { len: 0, eos: true }),
            Err(e) => log.push(side, key, Api::SendErr { op: "send_data", err: err_info(&e) }),
        }
    }
    if let Some((d, code)) = m.reset_after_end {
        yield_n(d).await;
        st.send_reset(h2::Reason::from(code));
        log.push(side, key, Api::SentReset { code });
        return;
    }
    if m.watch_reset {
        // its own task (and task name): a reset wait on a stream that has finished sending
        let name = format!("{}-resetwatch-{}", if side == Side::Client { "c" } else { "s" }, key);
        let group = if side == Side::Client { Group::ClientApp } else { Group::ServerApp };
        log.push(side, key, Api::ConnOp { op: "watch poll_reset".into() });
        sp.spawn(name, group, async move {
            // (the first poll happens under a different waker — a handle that was polled once where it was created and
            // then moved into its task: the waker of the latest poll is the one that counts)
            {
                let w = crate::mockio::noop_waker();
                let mut cx2 = std::task::Context::from_waker(&w);
                if let Poll::Ready(r) = st.poll_reset(&mut cx2) {
                    log.push(side, key, Api::PollReset { result: r.map(u32::from).map_err(|e| err_info(&e)) });
                    return;
                }
            }
            let r = poll_fn(|cx| st.poll_reset(cx)).await;
            log.push(side, key, Api::PollReset { result: r.map(u32::from).map_err(|e| err_info(&e)) });
        });
        return;
    }
    // by now END_STREAM has been queued, so dropping the handle is a no-op for the wire
    drop(st);
}

// ------------------------------------------------------------ reading a message body

async fn read_body(mut rs: RecvStream, reader: Reader, key: u32, side: Side, log: Log) {
    let from = side.other();
    let m = msg_id(key, from);
    let mut off = 0u64;
    let mut held = 0usize;
    loop {
        if let Reader::DropAfter(n) = reader {
            if off as usize >= n {
                log.push(side, key, Api::DroppedRecv);
                drop(rs);
                return;
            }
        }
        let r = poll_fn(|cx| rs.poll_data(cx)).await;
        match r {
            Some(Ok(b)) => {
                let ok = b.iter().enumerate().all(|(i, &x)| x == mix(m, off + i as u64));
                off += b.len() as u64;
                log.push(side, key, Api::RecvData { len: b.len(), ok });
                let n = b.len();
                drop::<Bytes>(b);
                if let Reader::Deferred(d) = reader {
                    yield_n(d).await;
                }
                if reader == Reader::NoRelease {
                    // (given back only if the stream fails; at a clean end the handle is simply dropped)
                    held += n;
                    continue;
                }
                if let Reader::Lump(l) = reader {
                    held += n;
                    if held >= l {
                        let r = rs.flow_control().release_capacity(held);
                        log.push(side, key, Api::Released { n: held, err: r.err().map(|e| e.to_string()) });
                        held = 0;
                    }
                    continue;
                }
                let r = rs.flow_control().release_capacity(n);
                log.push(side, key, Api::Released { n, err: r.err().map(|e| e.to_string()) });
            }
            Some(Err(e)) => {
                log.push(side, key, Api::RecvErr { op: "data", err: err_info(&e) });
                if held > 0 {
                    // an orderly application gives back what it took before it lets go of the stream
                    let r = rs.flow_control().release_capacity(held);
                    log.push(side, key, Api::Released { n: held, err: r.err().map(|e| e.to_string()) });
                }
                return;
            }
            None => {
                log.push(side, key, Api::RecvDataEnd);
                if held > 0 && reader != Reader::NoRelease {
                    let r = rs.flow_control().release_capacity(held);
                    log.push(side, key, Api::Released { n: held, err: r.err().map(|e| e.to_string()) });
                }
                break;
            }
        }
    }
    if reader == Reader::NoRelease {
        // (not logged as the end of reading: what was read and never released stays charged until the *last* handle of
        // the stream is gone, which this task cannot know)
        drop(rs);
        return;
    }
    let t = poll_fn(|cx| rs.poll_trailers(cx)).await;
    match t {
        Ok(t) => {
            let eos = rs.is_end_stream();
            log.push(side, key, Api::RecvTrailers { fields: t.as_ref().map(fields_of) });
            if !eos {
                log.push(side, key, Api::RecvErr { op: "is_end_stream-false-after-trailers", err: ErrInfo { reason: None, is_remote: false, is_library: false, is_reset: false, is_go_away: false, is_io: false, text: "is_end_stream() false after poll_trailers returned Ok".into() } });
            }
        }
        Err(e) => log.push(side, key, Api::RecvErr { op: "trailers", err: err_info(&e) }),
    }
}

// ------------------------------------------------------------ client

fn client_builder(c: &Cfg, init_max_send: Option<usize>) -> client::Builder {
    let mut b = client::Builder::new();
    if let Some(v) = c.initial_window {
        b.initial_window_size(v);
    }
    if let Some(v) = c.conn_window {
        b.initial_connection_window_size(v);
    }
    if let Some(v) = c.max_frame {
        b.max_frame_size(v);
    }
    if let Some(v) = c.header_table {
        b.header_table_size(v);
    }
    if let Some(v) = c.max_header_list {
        b.max_header_list_size(v);
    }
    if let Some(v) = c.max_concurrent {
        b.max_concurrent_streams(v);
    }
    if let Some(v) = c.max_send_buffer {
        b.max_send_buffer_size(v);
    }
    if let Some(v) = c.reset_max {
        b.max_concurrent_reset_streams(v);
    }
    b.reset_stream_duration(if c.reset_dur_zero { std::time::Duration::ZERO } else { std::time::Duration::from_secs(3600) });
    if let Some(v) = c.enable_push {
        b.enable_push(v);
    }
    if let Some(v) = init_max_send {
        b.initial_max_send_streams(v);
    }
    if let Some(v) = c.initial_stream_id {
        b.verif_initial_stream_id(v);
    }
    b
}

fn server_builder(c: &Cfg) -> server::Builder {
    let mut b = server::Builder::new();
    if let Some(v) = c.initial_window {
        b.initial_window_size(v);
    }
    if let Some(v) = c.conn_window {
        b.initial_connection_window_size(v);
    }
    if let Some(v) = c.max_frame {
        b.max_frame_size(v);
    }
    if let Some(v) = c.header_table {
        b.header_table_size(v);
    }
    if let Some(v) = c.max_header_list {
        b.max_header_list_size(v);
    }
    if let Some(v) = c.max_concurrent {
        b.max_concurrent_streams(v);
    }
    if let Some(v) = c.max_send_buffer {
        b.max_send_buffer_size(v);
    }
    if let Some(v) = c.reset_max {
        b.max_concurrent_reset_streams(v);
    }
    b.reset_stream_duration(if c.reset_dur_zero { std::time::Duration::ZERO } else { std::time::Duration::from_secs(3600) });
    b
}

fn apply_client_cmd(conn: &mut client::Connection<Io, SegBuf>, cmd: &ConnCmd, log: &Log) -> bool {
    match cmd {
        ConnCmd::SetInitialWindow(v) => {
            let r = conn.set_initial_window_size(*v);
            log.push(Side::Client, 0, Api::ConnOp { op: format!("set_initial_window_size({}) -> {:?}", v, r.map_err(|e| e.to_string())) });
        }
        ConnCmd::SetTargetWindow(v) => {
            conn.set_target_window_size(*v);
            log.push(Side::Client, 0, Api::ConnOp { op: format!("set_target_window_size({})", v) });
        }
        ConnCmd::DropConnection => return true,
        _ => {}
    }
    false
}

async fn client_main(io: Io, case: Rc<PairCase>, ctx: Ctx, cmds: Rc<RefCell<CmdQ>>) {
    let log = ctx.log.clone();
    let b = client_builder(&case.ccfg, case.client_init_max_send);
    let (sr, mut conn) = match b.handshake::<Io, SegBuf>(io).await {
        Ok(x) => x,
        Err(e) => {
            log.push(Side::Client, 0, Api::ConnDone { result: Err(err_info(&e)) });
            return;
        }
    };
    ctx.probes.borrow_mut().push((Side::Client, conn.verif_probe()));
    if let Some(pp) = conn.ping_pong() {
        ctx.sp.spawn("client-pinger", Group::ClientApp, pinger(pp, cmds.clone(), Side::Client, log.clone()));
    }
    // connection driver
    {
        let log = log.clone();
        let cmds2 = cmds.clone();
        ctx.sp.spawn("client-conn", Group::ClientConn, async move {
            let mut conn = Some(conn);
            let mut moved = false;
            poll_fn(|cx| {
                let mut drop_it = false;
                {
                    let mut q = cmds2.borrow_mut();
                    q.waker = Some(cx.waker().clone());
                    while let Some(c) = q.q.pop_front() {
                        if apply_client_cmd(conn.as_mut().unwrap(), &c, &log) {
                            drop_it = true;
                        }
                    }
                }
                if drop_it {
                    log.push(Side::Client, 0, Api::ConnOp { op: "drop(Connection)".into() });
                    conn = None;
                    close_pinger(&cmds2);
                    return Poll::Ready(());
                }
                let polled = {
                    let _t = crate::heapmeter::Tracked::new();
                    // (the very first poll happens under another waker, as when a connection is polled once where it was
                    // created and then moved into its own task: the waker of the latest poll is the one that counts)
                    let mut early = Poll::Pending;
                    if !moved {
                        moved = true;
                        let w = crate::mockio::noop_waker();
                        let mut cx0 = std::task::Context::from_waker(&w);
                        early = std::pin::Pin::new(conn.as_mut().unwrap()).poll(&mut cx0);
                    }
                    if early.is_ready() {
                        early
                    } else {
                        std::pin::Pin::new(conn.as_mut().unwrap()).poll(cx)
                    }
                };
                match polled {
                    Poll::Ready(r) => {
                        log.push(Side::Client, 0, Api::ConnDone { result: r.map_err(|e| err_info(&e)) });
                        conn = None;
                        close_pinger(&cmds2);
                        Poll::Ready(())
                    }
                    Poll::Pending => Poll::Pending,
                }
            })
            .await;
        });
    }
    // request tasks
    let mut root = Some(sr);
    let n = case.reqs.len();
    for (i, r) in case.reqs.iter().enumerate() {
        let handle = if r.clone_handle || i + 1 < n || !case.drop_send_request_at_end { root.as_ref().unwrap().clone() } else { root.take().unwrap() };
        let ctx2 = ctx.clone();
        let r2 = r.clone();
        ctx.sp.spawn(format!("c-req-{}", r.id), Group::ClientApp, client_request(handle, r2, ctx2));
    }
    if case.drop_send_request_at_end {
        drop(root);
    } else {
        // keep the handle alive for the whole run (held by a parked task that never completes is not
        // allowed under the strict executor): parked until the case is torn down
        HELD.with(|h| h.borrow_mut().push(Box::new(root)));
    }
    use std::future::Future;
}

async fn client_request(sr: client::SendRequest<SegBuf>, r: Req, ctx: Ctx) {
    let log = ctx.log.clone();
    let key = r.id;
    yield_n(r.delay).await;
    let mut sr = match sr.ready().await {
        Ok(s) => {
            log.push(Side::Client, key, Api::Ready { result: Ok(()) });
            s
        }
        Err(e) => {
            log.push(Side::Client, key, Api::Ready { result: Err(err_info(&e)) });
            return;
        }
    };
    let mut b = http::Request::builder().method(r.method.as_str()).uri(format!("https://example.com/r/{}", key));
    {
        let h = b.headers_mut().unwrap();
        h.insert("x-id", http::HeaderValue::from_str(&key.to_string()).unwrap());
        extra_fields(key, &r.req, h);
    }
    let req = b.body(()).unwrap();
    let mut fields = vec![(":method".to_string(), r.method.clone()), (":scheme".into(), "https".into()), (":authority".into(), "example.com".into()), (":path".into(), format!("/r/{}", key))];
    fields.extend(fields_of(req.headers()));
    let eos = head_eos(&r.req);
    let (mut resp, st) = match sr.send_request(req, eos) {
        Ok(x) => x,
        Err(e) => {
            log.push(Side::Client, key, Api::SendErr { op: "send_request", err: err_info(&e) });
            return;
        }
    };
    let sid = resp.stream_id().as_u32();
    log.push(Side::Client, key, Api::SentHead { kind: "request", stream: sid, fields, eos });
    if r.then_second {
        let ctx2 = ctx.clone();
        let key2 = key + 500;
        ctx.sp.spawn(format!("c-second-{}", key2), Group::ClientApp, async move {
            match sr.ready().await {
                Ok(mut sr) => {
                    ctx2.log.push(Side::Client, key2, Api::Ready { result: Ok(()) });
                    let req = http::Request::builder().method("GET").uri(format!("https://example.com/r/{}", key2)).header("x-id", key2.to_string()).body(()).unwrap();
                    let f = vec![(":method".to_string(), "GET".to_string()), (":scheme".into(), "https".into()), (":authority".into(), "example.com".into()), (":path".into(), format!("/r/{}", key2)), ("x-id".into(), key2.to_string())];
                    match sr.send_request(req, true) {
                        Ok((resp, _st)) => {
                            ctx2.log.push(Side::Client, key2, Api::SentHead { kind: "request", stream: resp.stream_id().as_u32(), fields: f, eos: true });
                            match resp.await {
                                Ok(resp) => {
                                    let (parts, body) = resp.into_parts();
                                    let mut f = vec![(":status".to_string(), parts.status.as_u16().to_string())];
                                    f.extend(fields_of(&parts.headers));
                                    ctx2.log.push(Side::Client, key2, Api::RecvHead { kind: "response", stream: body.stream_id().as_u32(), fields: f, eos: body.is_end_stream() });
                                    read_body(body, Reader::Eager, key2, Side::Client, ctx2.log.clone()).await;
                                }
                                Err(e) => ctx2.log.push(Side::Client, key2, Api::RecvErr { op: "response", err: err_info(&e) }),
                            }
                        }
                        Err(e) => ctx2.log.push(Side::Client, key2, Api::SendErr { op: "send_request", err: err_info(&e) }),
                    }
                }
                Err(e) => ctx2.log.push(Side::Client, key2, Api::Ready { result: Err(err_info(&e)) }),
            }
        });
    } else {
        drop(sr);
    }
    if !eos {
        ctx.sp.spawn(format!("c-body-{}", key), Group::ClientApp, send_body(st, r.req.clone(), key, Side::Client, log.clone(), ctx.sp.clone()));
    } else {
        drop(st);
    }
    if r.drop_response_future {
        log.push(Side::Client, key, Api::DroppedResponseFuture);
        drop(resp);
        return;
    }
    // pushes
    {
        let mut pp = resp.push_promises();
        let ctx2 = ctx.clone();
        let pushes = r.pushes.clone();
        ctx.sp.spawn(format!("c-push-{}", key), Group::ClientApp, async move {
            loop {
                match pp.push_promise().await {
                    Some(Ok(p)) => {
                        let (preq, presp) = p.into_parts();
                        let n: u32 = preq.headers().get("x-push").and_then(|v| v.to_str().ok()).and_then(|s| s.parse().ok()).unwrap_or(999);
                        let pkey = key * 1000 + n;
                        let mut f = vec![(":method".to_string(), preq.method().to_string()), (":uri".into(), preq.uri().to_string())];
                        f.extend(fields_of(preq.headers()));
                        ctx2.log.push(Side::Client, pkey, Api::RecvHead { kind: "push-request", stream: presp.stream_id().as_u32(), fields: f, eos: false });
                        let reader = pushes.get(n as usize).map(|p| p.reader.clone()).unwrap_or(Reader::Eager);
                        let log = ctx2.log.clone();
                        ctx2.sp.spawn(format!("c-pushresp-{}", pkey), Group::ClientApp, async move {
                            match presp.await {
                                Ok(resp) => {
                                    let (parts, body) = resp.into_parts();
                                    let mut f = vec![(":status".to_string(), parts.status.as_u16().to_string())];
                                    f.extend(fields_of(&parts.headers));
                                    log.push(Side::Client, pkey, Api::RecvHead { kind: "response", stream: body.stream_id().as_u32(), fields: f, eos: body.is_end_stream() });
                                    read_body(body, reader, pkey, Side::Client, log).await;
                                }
                                Err(e) => log.push(Side::Client, pkey, Api::RecvErr { op: "pushed-response", err: err_info(&e) }),
                            }
                        });
                    }
                    Some(Err(e)) => {
                        ctx2.log.push(Side::Client, key, Api::RecvErr { op: "push_promise", err: err_info(&e) });
                        break;
                    }
                    None => break,
                }
            }
        });
    }
    // interim responses, in order, then the final one
    loop {
        let r = poll_fn(|cx| resp.poll_informational(cx)).await;
        match r {
            Some(Ok(i)) => {
                let mut f = vec![(":status".to_string(), i.status().as_u16().to_string())];
                f.extend(fields_of(i.headers()));
                log.push(Side::Client, key, Api::RecvHead { kind: "interim", stream: sid, fields: f, eos: false });
            }
            Some(Err(e)) => {
                log.push(Side::Client, key, Api::RecvErr { op: "informational", err: err_info(&e) });
                return;
            }
            None => break,
        }
    }
    match (&mut resp).await {
        Ok(got) => {
            let (parts, body) = got.into_parts();
            let mut f = vec![(":status".to_string(), parts.status.as_u16().to_string())];
            f.extend(fields_of(&parts.headers));
            log.push(Side::Client, key, Api::RecvHead { kind: "response", stream: sid, fields: f, eos: body.is_end_stream() });
            if let Some(k) = r.late_info {
                // (same task as the body reader: the waker this poll may register is the reader's own)
                yield_n(k).await;
                let late = poll_fn(|cx| Poll::Ready(resp.poll_informational(cx))).await;
                match late {
                    Poll::Ready(Some(Ok(i))) => {
                        let mut f = vec![(":status".to_string(), i.status().as_u16().to_string())];
                        f.extend(fields_of(i.headers()));
                        log.push(Side::Client, key, Api::RecvHead { kind: "interim", stream: sid, fields: f, eos: false });
                    }
                    Poll::Ready(Some(Err(e))) => log.push(Side::Client, key, Api::ConnOp { op: format!("late poll_informational: error {}", err_info(&e).text) }),
                    Poll::Ready(None) => log.push(Side::Client, key, Api::ConnOp { op: "late poll_informational: none".into() }),
                    Poll::Pending => log.push(Side::Client, key, Api::ConnOp { op: "late poll_informational: pending".into() }),
                }
            }
            drop(resp);
            read_body(body, r.resp_reader.clone(), key, Side::Client, log).await;
        }
        Err(e) => log.push(Side::Client, key, Api::RecvErr { op: "response", err: err_info(&e) }),
    }
}

fn close_pinger(cmds: &Rc<RefCell<CmdQ>>) {
    let mut q = cmds.borrow_mut();
    q.closed = true;
    if let Some(w) = q.ping_waker.take() {
        w.wake();
    }
}

// ------------------------------------------------------------ server

async fn server_main(io: Io, case: Rc<PairCase>, ctx: Ctx, cmds: Rc<RefCell<CmdQ>>) {
    let log = ctx.log.clone();
    let b = server_builder(&case.scfg);
    let mut conn: server::Connection<Io, SegBuf> = match b.handshake(io).await {
        Ok(c) => c,
        Err(e) => {
            log.push(Side::Server, 0, Api::ConnDone { result: Err(err_info(&e)) });
            return;
        }
    };
    ctx.probes.borrow_mut().push((Side::Server, conn.verif_probe()));
    if let Some(pp) = conn.ping_pong() {
        ctx.sp.spawn("server-pinger", Group::ServerApp, pinger(pp, cmds.clone(), Side::Server, log.clone()));
    }
    let mut conn = Some(conn);
    let mut cap_handles: Vec<server::SendResponse<SegBuf>> = Vec::new();
    let mut accepted_n = 0usize;
    loop {
        let next = poll_fn(|cx| {
            let mut drop_it = false;
            {
                let mut q = cmds.borrow_mut();
                q.waker = Some(cx.waker().clone());
                while let Some(c) = q.q.pop_front() {
                    let conn = conn.as_mut().unwrap();
                    match c {
                        ConnCmd::SetInitialWindow(v) => {
                            let r = conn.set_initial_window_size(v);
                            log.push(Side::Server, 0, Api::ConnOp { op: format!("set_initial_window_size({}) -> {:?}", v, r.map_err(|e| e.to_string())) });
                        }
                        ConnCmd::SetTargetWindow(v) => {
                            conn.set_target_window_size(v);
                            log.push(Side::Server, 0, Api::ConnOp { op: format!("set_target_window_size({})", v) });
                        }
                        ConnCmd::GracefulShutdown => {
                            conn.graceful_shutdown();
                            log.push(Side::Server, 0, Api::ConnOp { op: "graceful_shutdown".into() });
                        }
                        ConnCmd::AbruptShutdown(code) => {
                            conn.abrupt_shutdown(h2::Reason::from(code));
                            log.push(Side::Server, 0, Api::ConnOp { op: format!("abrupt_shutdown({})", code) });
                        }
                        ConnCmd::Ping => {}
                        ConnCmd::DropConnection => drop_it = true,
                        ConnCmd::DropSendRequest => {}
                    }
                }
            }
            if drop_it {
                return Poll::Ready(None);
            }
            if case.accept_limit.map(|l| accepted_n >= l).unwrap_or(false) {
                // not accepting any more: only drive the connection
                let polled = {
                    let _t = crate::heapmeter::Tracked::new();
                    conn.as_mut().unwrap().poll_closed(cx)
                };
                return polled.map(|r| match r {
                    Ok(()) => Some(None),
                    Err(e) => Some(Some(Err(e))),
                });
            }
            let _t = crate::heapmeter::Tracked::new();
            conn.as_mut().unwrap().poll_accept(cx).map(Some)
        })
        .await;
        match next {
            None => {
                log.push(Side::Server, 0, Api::ConnOp { op: "drop(Connection)".into() });
                conn = None;
                break;
            }
            Some(None) => {
                log.push(Side::Server, 0, Api::AcceptEnd);
                log.push(Side::Server, 0, Api::ConnDone { result: Ok(()) });
                break;
            }
            Some(Some(Err(e))) => {
                log.push(Side::Server, 0, Api::ConnDone { result: Err(err_info(&e)) });
                break;
            }
            Some(Some(Ok(_))) if false => {}
            Some(Some(Ok((req, respond)))) if case.cap.is_some() && cap_handles.len() < case.cap.as_ref().unwrap().streams => {
                let sid = respond.stream_id().as_u32();
                log.push(Side::Server, 0, Api::Accepted { stream: sid });
                let (_parts, body) = req.into_parts();
                // request bodies are not interesting here: read and release in the background
                ctx.sp.spawn(format!("s-reqbody-{}", sid), Group::ServerApp, read_body(body, Reader::Eager, 9000 + sid, Side::Server, log.clone()));
                cap_handles.push(respond);
                if cap_handles.len() == case.cap.as_ref().unwrap().streams {
                    let prog = case.cap.clone().unwrap();
                    let hs = std::mem::take(&mut cap_handles);
                    ctx.sp.spawn("cap-app", Group::ServerApp, cap_app(prog, hs, log.clone()));
                }
            }
            Some(Some(Ok((req, respond)))) => {
                accepted_n += 1;
                let sid = respond.stream_id().as_u32();
                log.push(Side::Server, 0, Api::Accepted { stream: sid });
                let key: u32 = req.headers().get("x-id").and_then(|v| v.to_str().ok()).and_then(|s| s.parse().ok()).unwrap_or(9000 + sid);
                let script = ctx.reqs.iter().find(|r| r.id == key).cloned();
                let ctx2 = ctx.clone();
                ctx.sp.spawn(format!("s-handler-{}", key), Group::ServerApp, server_handler(req, respond, script, key, ctx2));
            }
        }
    }
    drop(conn);
    close_pinger(&cmds);
}

/// The send-capacity program: one task, sequential operations over several response streams.
async fn cap_app(prog: CapProgram, handles: Vec<server::SendResponse<SegBuf>>, log: Log) {
    yield_n(prog.start_delay).await;
    let mut streams: Vec<Option<SendStream<SegBuf>>> = Vec::new();
    let mut sids: Vec<u32> = Vec::new();
    let mut offs: Vec<u64> = Vec::new();
    for mut h in handles {
        let sid = h.stream_id().as_u32();
        let resp = http::Response::builder().status(200).body(()).unwrap();
        match h.send_response(resp, false) {
            Ok(st) => {
                log.push(Side::Server, sid, Api::SentHead { kind: "response", stream: sid, fields: vec![(":status".into(), "200".into())], eos: false });
                streams.push(Some(st));
            }
            Err(e) => {
                log.push(Side::Server, sid, Api::SendErr { op: "send_response", err: err_info(&e) });
                streams.push(None);
            }
        }
        sids.push(sid);
        offs.push(0);
    }
    for op in &prog.ops {
        match op {
            CapOp::Yield(n) => yield_n(*n).await,
            CapOp::Census | CapOp::CensusFinal => {
                let v: Vec<(u32, usize)> = streams.iter().zip(sids.iter()).filter_map(|(s, id)| s.as_ref().map(|s| (*id, s.capacity()))).collect();
                let tag = if matches!(op, CapOp::CensusFinal) { "census-final" } else { "census" };
                log.push(Side::Server, 0, Api::ConnOp { op: format!("{} {:?}", tag, v) });
            }
            CapOp::Reserve { s, n } => {
                if let Some(Some(st)) = streams.get_mut(*s) {
                    st.reserve_capacity(*n);
                    log.push(Side::Server, sids[*s], Api::ConnOp { op: format!("reserve_capacity({})", n) });
                }
            }
            CapOp::WaitCap { s } => {
                if let Some(Some(st)) = streams.get_mut(*s) {
                    // the documented use: wait only while nothing is assigned yet (waiting again with capacity in
                    // hand, or after lowering a reservation, waits for a notification that is not owed)
                    if st.capacity() > 0 {
                        log.push(Side::Server, sids[*s], Api::ConnOp { op: format!("skip wait: capacity() = {}", st.capacity()) });
                        continue;
                    }
                    let r = poll_fn(|cx| st.poll_capacity(cx)).await;
                    match r {
                        Some(Ok(c)) => log.push(Side::Server, sids[*s], Api::Capacity { got: c }),
                        Some(Err(e)) => log.push(Side::Server, sids[*s], Api::CapacityErr { err: err_info(&e) }),
                        None => log.push(Side::Server, sids[*s], Api::CapacityEnd),
                    }
                }
            }
            CapOp::SendCap { s } | CapOp::Send { s, .. } => {
                if let Some(Some(st)) = streams.get_mut(*s) {
                    let n = match op {
                        CapOp::SendCap { .. } => {
                            let c = st.capacity();
                            log.push(Side::Server, sids[*s], Api::ConnOp { op: format!("capacity() = {}", c) });
                            c
                        }
                        CapOp::Send { n, .. } => *n,
                        _ => 0,
                    };
                    if n > 0 {
                        let data: Vec<u8> = (0..n as u64).map(|i| mix(msg_id(sids[*s], Side::Server), offs[*s] + i)).collect();
                        match st.send_data(SegBuf::new(data, &[]), false) {
                            Ok(()) => {
                                offs[*s] += n as u64;
                                log.push(Side::Server, sids[*s], Api::SentData { len: n, eos: false });
                            }
                            Err(e) => log.push(Side::Server, sids[*s], Api::SendErr { op: "send_data", err: err_info(&e) }),
                        }
                    }
                }
            }
            CapOp::End { s } => {
                if let Some(slot) = streams.get_mut(*s) {
                    if let Some(mut st) = slot.take() {
                        match st.send_data(SegBuf::new(vec![], &[]), true) {
                            Ok(()) => log.push(Side::Server, sids[*s], Api::SentData { len: 0, eos: true }),
                            Err(e) => log.push(Side::Server, sids[*s], Api::SendErr { op: "send_data", err: err_info(&e) }),
                        }
                    }
                }
            }
            CapOp::EndTrailers { s } => {
                if let Some(slot) = streams.get_mut(*s) {
                    if let Some(mut st) = slot.take() {
                        let mut tm = http::HeaderMap::new();
                        tm.insert("x-t", http::HeaderValue::from_static("1"));
                        match st.send_trailers(tm) {
                            Ok(()) => log.push(Side::Server, sids[*s], Api::SentTrailers { fields: vec![("x-t".into(), "1".into())] }),
                            Err(e) => log.push(Side::Server, sids[*s], Api::SendErr { op: "send_trailers", err: err_info(&e) }),
                        }
                    }
                }
            }
            CapOp::WaitIncrease { s, above } => {
                if let Some(Some(st)) = streams.get_mut(*s) {
                    let before = *above;
                    log.push(Side::Server, sids[*s], Api::ConnOp { op: format!("wait for capacity above {}", before) });
                    let r = poll_fn(|cx| {
                        if st.capacity() > before {
                            return Poll::Ready(Ok(st.capacity()));
                        }
                        match st.poll_capacity(cx) {
                            Poll::Ready(Some(Ok(_))) => {
                                if st.capacity() > before {
                                    Poll::Ready(Ok(st.capacity()))
                                } else {
                                    // a notification without an increase: ask again
                                    cx.waker().wake_by_ref();
                                    Poll::Pending
                                }
                            }
                            Poll::Ready(Some(Err(e))) => Poll::Ready(Err(err_info(&e))),
                            Poll::Ready(None) => Poll::Ready(Err(ErrInfo { reason: None, is_remote: false, is_library: false, is_reset: false, is_go_away: false, is_io: false, text: "poll_capacity: None".into() })),
                            Poll::Pending => Poll::Pending,
                        }
                    })
                    .await;
                    match r {
                        Ok(c) => log.push(Side::Server, sids[*s], Api::Capacity { got: c }),
                        Err(e) => log.push(Side::Server, sids[*s], Api::CapacityErr { err: e }),
                    }
                }
            }
            CapOp::StopHere => {
                let all: Vec<Option<SendStream<SegBuf>>> = streams.drain(..).collect();
                HELD.with(|h| h.borrow_mut().push(Box::new(all)));
                log.push(Side::Server, 0, Api::ConnOp { op: "cap-app idle for good".into() });
                log.push(Side::Server, 0, Api::ConnOp { op: "cap-app done".into() });
                return;
            }
            CapOp::Reset { s, code } => {
                if let Some(slot) = streams.get_mut(*s) {
                    if let Some(mut st) = slot.take() {
                        st.send_reset(h2::Reason::from(*code));
                        log.push(Side::Server, sids[*s], Api::SentReset { code: *code });
                    }
                }
            }
            CapOp::Drop { s } => {
                if let Some(slot) = streams.get_mut(*s) {
                    if slot.take().is_some() {
                        log.push(Side::Server, sids[*s], Api::DroppedSend);
                    }
                }
            }
        }
    }
    // finish whatever is still open
    for (i, slot) in streams.iter_mut().enumerate() {
        if let Some(mut st) = slot.take() {
            match st.send_data(SegBuf::new(vec![], &[]), true) {
                Ok(()) => log.push(Side::Server, sids[i], Api::SentData { len: 0, eos: true }),
                Err(e) => log.push(Side::Server, sids[i], Api::SendErr { op: "send_data", err: err_info(&e) }),
            }
        }
    }
    log.push(Side::Server, 0, Api::ConnOp { op: "cap-app done".into() });
}

/// The pushes of one request: promise, then the pushed response (its body in a task of its own).
fn do_pushes(respond: &mut server::SendResponse<SegBuf>, r: &Req, key: u32, ctx: &Ctx) {
    let log = ctx.log.clone();
    for (n, p) in r.pushes.iter().enumerate() {
        let pkey = key * 1000 + n as u32;
        let mut preq = http::Request::builder().method("GET").uri(format!("https://example.com/p/{}", pkey)).header("x-push", n.to_string()).body(()).unwrap();
        if p.resp.big >= 17000 {
            // a promised request whose header block needs CONTINUATION frames
            let sbig: String = (0..p.resp.big).map(|i| (b'a' + ((i as u32 + pkey) % 26) as u8) as char).collect();
            preq.headers_mut().insert("x-pbig", http::HeaderValue::from_str(&sbig).unwrap());
        }
        let mut f = vec![(":method".to_string(), "GET".to_string()), (":uri".into(), preq.uri().to_string())];
        f.extend(fields_of(preq.headers()));
        match respond.push_request(preq) {
            Ok(mut pushed) => {
                let psid = pushed.stream_id().as_u32();
                log.push(Side::Server, pkey, Api::SentHead { kind: "push-request", stream: psid, fields: f, eos: false });
                if p.abandon {
                    log.push(Side::Server, pkey, Api::DroppedSend);
                    drop(pushed);
                    continue;
                }
                let mut b = http::Response::builder().status(p.status);
                extra_fields(pkey, &p.resp, b.headers_mut().unwrap());
                let resp = b.body(()).unwrap();
                let mut f = vec![(":status".to_string(), p.status.to_string())];
                f.extend(fields_of(resp.headers()));
                let eos = head_eos(&p.resp);
                if p.resp_delay > 0 {
                    // the pushed response starts later, when the PUSH_PROMISE has (probably) been written already
                    let (log, sp, msg, delay) = (log.clone(), ctx.sp.clone(), p.resp.clone(), p.resp_delay);
                    ctx.sp.spawn(format!("s-pushresp-{}", pkey), Group::ServerApp, async move {
                        yield_n(delay).await;
                        match pushed.send_response(resp, eos) {
                            Ok(st) => {
                                log.push(Side::Server, pkey, Api::SentHead { kind: "response", stream: psid, fields: f, eos });
                                if !eos {
                                    send_body(st, msg, pkey, Side::Server, log.clone(), sp).await;
                                }
                            }
                            Err(e) => log.push(Side::Server, pkey, Api::SendErr { op: "send_response(pushed)", err: err_info(&e) }),
                        }
                    });
                    continue;
                }
                match pushed.send_response(resp, eos) {
                    Ok(st) => {
                        log.push(Side::Server, pkey, Api::SentHead { kind: "response", stream: psid, fields: f, eos });
                        if !eos {
                            ctx.sp.spawn(format!("s-pushbody-{}", pkey), Group::ServerApp, send_body(st, p.resp.clone(), pkey, Side::Server, log.clone(), ctx.sp.clone()));
                        }
                    }
                    Err(e) => log.push(Side::Server, pkey, Api::SendErr { op: "send_response(pushed)", err: err_info(&e) }),
                }
            }
            Err(e) => log.push(Side::Server, pkey, Api::SendErr { op: "push_request", err: err_info(&e) }),
        }
    }
}

async fn server_handler(req: http::Request<RecvStream>, mut respond: server::SendResponse<SegBuf>, script: Option<Req>, key: u32, ctx: Ctx) {
    let log = ctx.log.clone();
    let (parts, body) = req.into_parts();
    let sid = respond.stream_id().as_u32();
    let mut f = vec![
        (":method".to_string(), parts.method.to_string()),
        (":scheme".into(), parts.uri.scheme_str().unwrap_or("").to_string()),
        (":authority".into(), parts.uri.authority().map(|a| a.to_string()).unwrap_or_default()),
        (":path".into(), parts.uri.path_and_query().map(|p| p.to_string()).unwrap_or_default()),
    ];
    f.extend(fields_of(&parts.headers));
    log.push(Side::Server, key, Api::RecvHead { kind: "request", stream: sid, fields: f, eos: body.is_end_stream() });
    let r = match script {
        Some(r) => r,
        // a request the program has no script for (RAW modes: injected streams): read everything,
        // answer 200 with a short body
        None => default_req(key),
    };
    if r.abandon {
        drop(body);
        drop(respond);
        log.push(Side::Server, key, Api::DroppedSend);
        return;
    }
    // an application that does not read the body keeps the receive handle, without polling it, until the stream
    // is reset or the connection ends
    let hold_body = matches!(r.req_reader, Reader::Deferred(d) if d >= PARK);
    let mut held_body = None;
    if hold_body {
        held_body = Some(body);
    } else {
        ctx.sp.spawn(format!("s-reqbody-{}", key), Group::ServerApp, read_body(body, r.req_reader.clone(), key, Side::Server, log.clone()));
    }
    if r.resp_delay >= PARK {
        // an application that does not answer: it holds its handles until the stream is reset or the connection ends
        let res = poll_fn(|cx| respond.poll_reset(cx)).await;
        log.push(Side::Server, key, Api::ConnOp { op: format!("held stream ended: {:?}", res.map(|r| u32::from(r)).map_err(|e| e.to_string())) });
        drop(held_body);
        return;
    }
    yield_n(r.resp_delay).await;
    for i in 0..r.interim {
        let resp = http::Response::builder().status(if i == 0 { 103 } else { 102 }).header("x-i", i.to_string()).body(()).unwrap();
        let mut f = vec![(":status".to_string(), resp.status().as_u16().to_string())];
        f.extend(fields_of(resp.headers()));
        match respond.send_informational(resp) {
            Ok(()) => log.push(Side::Server, key, Api::SentHead { kind: "interim", stream: sid, fields: f, eos: false }),
            Err(e) => log.push(Side::Server, key, Api::SendErr { op: "send_informational", err: err_info(&e) }),
        }
    }
    // pushes normally precede the response; a late pusher promises only after the response head and the first body
    // bytes have been queued (the PUSH_PROMISE then waits behind them in the stream's queue)
    if !r.push_late {
        do_pushes(&mut respond, &r, key, &ctx);
    }
    if let EndKind::Reset { after: 0, code } = r.resp.end {
        if r.resp.chunks.is_empty() {
            // reset instead of responding
            respond.send_reset(h2::Reason::from(code));
            log.push(Side::Server, key, Api::SentReset { code });
            return;
        }
    }
    let mut b = http::Response::builder().status(r.status);
    extra_fields(key, &r.resp, b.headers_mut().unwrap());
    let resp = b.body(()).unwrap();
    let mut f = vec![(":status".to_string(), r.status.to_string())];
    f.extend(fields_of(resp.headers()));
    let eos = head_eos(&r.resp) && !hold_body;
    match respond.send_response(resp, eos) {
        Ok(mut st) if hold_body => {
            log.push(Side::Server, key, Api::SentHead { kind: "response", stream: sid, fields: f, eos });
            let res = poll_fn(|cx| st.poll_reset(cx)).await;
            log.push(Side::Server, key, Api::ConnOp { op: format!("held stream ended: {:?}", res.map(|r| u32::from(r)).map_err(|e| e.to_string())) });
            drop(held_body);
        }
        Ok(st) => {
            log.push(Side::Server, key, Api::SentHead { kind: "response", stream: sid, fields: f, eos });
            if r.push_late && !eos {
                ctx.sp.spawn(format!("s-body-{}", key), Group::ServerApp, send_body(st, r.resp.clone(), key, Side::Server, log.clone(), ctx.sp.clone()));
                yield_n(2).await;
                do_pushes(&mut respond, &r, key, &ctx);
            } else if !eos {
                send_body(st, r.resp.clone(), key, Side::Server, log.clone(), ctx.sp.clone()).await;
            }
        }
        Err(e) => log.push(Side::Server, key, Api::SendErr { op: "send_response", err: err_info(&e) }),
    }
}

// ------------------------------------------------------------ run

pub struct PairRun {
    pub events: Vec<ApiEvent>,
    pub wire: Wire,
    pub end: RunEnd,
    /// (task name, group, what it waits for) of tasks not finished at the end
    pub unfinished: Vec<(String, Group)>,
    pub panic: Option<(String, String)>,
    pub steps: u64,
    /// completed under the generous executor although stalled under the strict one
    pub completed_when_repolled: Option<bool>,
    pub stats: Vec<(Side, Option<h2::verif::VerifStats>, bool)>,
    /// statistics sampled every 8 executor steps while the run was going: (step, side, stats)
    pub samples: Vec<(u64, Side, h2::verif::VerifStats)>,
    /// live heap bytes allocated by connection-task polls (see heapmeter): running maximum and value at the end of the run
    pub heap_peak: i64,
    pub heap_end: i64,
    /// C20: application-task polls performed inside a connection's poll, and transport callbacks at which the
    /// connection still held one of its locks
    pub nested: u64,
    pub lock_held: Vec<String>,
    /// stream records kept although the id map no longer points at them, per side: (stream id, handles)
    pub orphans: Vec<(Side, Vec<(u32, usize)>)>,
    /// the same records with the queues that still hold them (probe `orphan_flags`)
    pub orphan_flags: Vec<(Side, Vec<(u32, u8)>)>,
}

pub fn run_pair(case: &PairCase) -> PairRun {
    run_sim(case, None)
}

/// `raw`: (which side is h2, the scripted peer for the other side)
pub fn run_sim(case: &PairCase, raw: Option<(Side, Rc<crate::sim_raw::RawSpec>, Rc<RefCell<crate::sim_raw::PeerObs>>)>) -> PairRun {
    run_sim_cap(case, raw, None)
}

/// `e_out_cap`: finite capacity of the pipe that carries the h2 endpoint's output (RAW modes)
pub fn run_sim_cap(case: &PairCase, raw: Option<(Side, Rc<crate::sim_raw::RawSpec>, Rc<RefCell<crate::sim_raw::PeerObs>>)>, e_out_cap: Option<usize>) -> PairRun {
    crate::heapmeter::begin_case();
    let mut exec = Exec::new(case.sched.clone());
    let (mut cio, mut sio, wire) = duplex(&exec, case.chunk_c2s.clone(), case.chunk_s2c.clone(), case.vectored_c, case.vectored_s);
    let probes_shared: Rc<RefCell<Vec<(Side, h2::verif::VerifProbe)>>> = Rc::new(RefCell::new(Vec::new()));
    let lock_held: Rc<RefCell<Vec<String>>> = Rc::new(RefCell::new(Vec::new()));
    if !case.nest.is_empty() {
        let tape = Rc::new(RefCell::new(OwnedTape::new(case.nest.clone())));
        let mk = |side: Side| -> Hook {
            let nest = exec.nest();
            let tape = tape.clone();
            let probes = probes_shared.clone();
            let lock_held = lock_held.clone();
            Rc::new(move |at: &'static str| {
                if nest.depth.get() > 0 {
                    return;
                }
                let v = match tape.borrow_mut().next() {
                    Some(v) => v,
                    None => return,
                };
                if v % 3 != 0 {
                    return;
                }
                // a thread calling into a handle here would block on (or find poisoned) any lock still held
                for (s, p) in probes.borrow().iter() {
                    if *s == side && !p.locks_free() {
                        lock_held.borrow_mut().push(format!("{}:{}", side.name(), at));
                        return;
                    }
                }
                let r = nest.runnable_apps();
                if r.is_empty() {
                    return;
                }
                let pick = (((v >> 4) as u64 * r.len() as u64) >> 28) as usize;
                nest.poll_nested(r[pick.min(r.len() - 1)]);
            })
        };
        cio.hook = Some(mk(Side::Client));
        sio.hook = Some(mk(Side::Server));
    }
    if let (Some(cap), Some((side, _, _))) = (e_out_cap, raw.as_ref()) {
        let p = if *side == Side::Server { &wire.s2c } else { &wire.c2s };
        p.borrow_mut().cap = cap.max(64);
    }
    if let Some(f) = &case.fault {
        let p = if f.c2s { &wire.c2s } else { &wire.s2c };
        p.borrow_mut().cut_at = Some((f.at, f.kind));
    }
    let log = Log::new(&exec);
    // (the last reference to a probe must be dropped inside the teardown's panic containment: no local copy)
    let ctx = Ctx { log: log.clone(), sp: exec.spawner(), reqs: Rc::new(case.reqs.clone()), probes: probes_shared };
    let ccmd = Rc::new(RefCell::new(CmdQ::default()));
    let scmd = Rc::new(RefCell::new(CmdQ::default()));
    let rc = Rc::new(case.clone());
    match raw {
        None => {
            exec.spawner().spawn("client-main", Group::ClientApp, client_main(cio, rc.clone(), ctx.clone(), ccmd.clone()));
            exec.spawner().spawn("server-conn", Group::ServerConn, server_main(sio, rc.clone(), ctx.clone(), scmd.clone()));
        }
        Some((Side::Server, spec, obs)) => {
            // h2 server against a scripted raw client
            // (the unused end must not be dropped now — that would close the pipes — and must not be leaked either: it
            // owns both pipes with every byte that crossed them)
            HELD.with(|h| h.borrow_mut().push(Box::new(cio)));
            exec.spawner().spawn("server-conn", Group::ServerConn, server_main(sio, rc.clone(), ctx.clone(), scmd.clone()));
            exec.spawner().spawn("raw-peer", Group::Peer, crate::sim_raw::peer_task(spec, wire.s2c.clone(), wire.c2s.clone(), true, obs, exec.clock.clone()));
        }
        Some((Side::Client, spec, obs)) => {
            HELD.with(|h| h.borrow_mut().push(Box::new(sio)));
            exec.spawner().spawn("client-main", Group::ClientApp, client_main(cio, rc.clone(), ctx.clone(), ccmd.clone()));
            exec.spawner().spawn("raw-peer", Group::Peer, crate::sim_raw::peer_task(spec, wire.c2s.clone(), wire.s2c.clone(), false, obs, exec.clock.clone()));
        }
    }
    // controller: fires connection ops when enough API events have been logged
    {
        let mut ops = case.ops.clone();
        ops.sort_by_key(|o| o.after_events);
        let log2 = log.clone();
        let (c2, s2) = (ccmd.clone(), scmd.clone());
        let progress = exec.progress.clone();
        exec.spawner().spawn("controller", Group::Control, async move {
            for op in ops {
                // wait until enough API events were logged, or the system has gone idle
                let mut spins = 0;
                let mut idle = 0;
                let mut last = progress.get();
                while log2.events.borrow().len() < op.after_events && spins < 20_000 && idle < 40 {
                    yield_now().await;
                    spins += 1;
                    if progress.get() == last {
                        idle += 1;
                    } else {
                        idle = 0;
                        last = progress.get();
                    }
                }
                if op.gap > 0 {
                    let target = progress.get() + op.gap as u64;
                    let mut spins = 0;
                    while progress.get() < target && spins < 200 {
                        yield_now().await;
                        spins += 1;
                    }
                }
                let q = if op.side == Side::Client { &c2 } else { &s2 };
                let mut q = q.borrow_mut();
                if let ConnCmd::Ping = op.cmd {
                    q.pings += 1;
                    if let Some(w) = q.ping_waker.take() {
                        w.wake();
                    }
                    continue;
                }
                q.q.push_back(op.cmd.clone());
                if let Some(w) = q.waker.take() {
                    w.wake();
                }
            }
            // no more pings will be requested: idle pinger tasks may finish
            close_pinger(&c2);
            close_pinger(&s2);
        });
    }
    let total_bytes: usize = case.reqs.iter().map(|r| r.req.chunks.iter().map(|c| c.len).sum::<usize>() + r.resp.chunks.iter().map(|c| c.len).sum::<usize>() + r.req.big + r.resp.big).sum();
    let budget = 200_000 + 64 * total_bytes as u64 + 20_000 * case.reqs.len() as u64;
    let mut samples: Vec<(u64, Side, h2::verif::VerifStats)> = Vec::new();
    let probes = ctx.probes.clone();
    let mut end = exec.run_sampled(budget, &mut |step| {
        if samples.len() < 4000 {
            for (side, p) in probes.borrow().iter() {
                if let Some(st) = p.stats() {
                    samples.push((step, *side, st));
                }
            }
        }
    });
    drop(probes);
    if let Some(f) = &case.fault {
        if end == RunEnd::Quiescent {
            let p = if f.c2s { &wire.c2s } else { &wire.s2c };
            let pending = !p.borrow().cut_done;
            if pending {
                // the exchange produced fewer bytes than the fault offset: the fault hits now, on an idle
                // (or finished) connection
                p.borrow_mut().force_cut(f.kind);
                end = exec.run(budget);
            }
        }
    }
    let mut completed_when_repolled = None;
    if end == RunEnd::Quiescent && exec.any_panic().is_none() && !exec.unfinished().is_empty() {
        // classify the stall: does it complete when every task is re-polled (spurious polls)?
        let snapshot_unfinished: Vec<(String, Group)> = exec.unfinished().iter().map(|t| (t.name.clone(), t.group)).collect();
        let app_pending = |exec: &Exec| exec.unfinished().iter().filter(|t| matches!(t.group, Group::ClientApp | Group::ServerApp)).count();
        if app_pending(&exec) > 0 {
            let mut rounds = 0;
            loop {
                let progressed = exec.repoll_all();
                let e2 = exec.run(budget);
                if e2 != RunEnd::Quiescent {
                    end = e2;
                    break;
                }
                rounds += 1;
                if app_pending(&exec) == 0 {
                    completed_when_repolled = Some(true);
                    break;
                }
                if !progressed || rounds > 200 {
                    completed_when_repolled = Some(false);
                    break;
                }
            }
        }
        let stats = collect_stats(&ctx);
        let mut run = PairRun {
            events: log.events.borrow().clone(),
            end,
            unfinished: snapshot_unfinished,
            panic: exec.any_panic(),
            steps: exec.clock.get(),
            completed_when_repolled,
            stats,
            samples,
            wire,
            heap_peak: crate::heapmeter::peak(),
            heap_end: crate::heapmeter::live(),
            nested: exec.nested_polls(),
            lock_held: lock_held.borrow().clone(),
            orphans: ctx.probes.borrow().iter().map(|(s, p)| (*s, p.orphans().unwrap_or_default())).collect(),
        orphan_flags: ctx.probes.borrow().iter().map(|(s, p)| (*s, p.orphan_flags().unwrap_or_default())).collect(),
        };
        teardown_all(exec, ctx, &mut run);
        crate::heapmeter::end_case();
        return run;
    }
    let stats = collect_stats(&ctx);
    let mut run = PairRun {
        events: log.events.borrow().clone(),
        end,
        unfinished: exec.unfinished().iter().map(|t| (t.name.clone(), t.group)).collect(),
        panic: exec.any_panic(),
        steps: exec.clock.get(),
        completed_when_repolled,
        stats,
        samples,
        wire,
        heap_peak: crate::heapmeter::peak(),
        heap_end: crate::heapmeter::live(),
        nested: exec.nested_polls(),
        lock_held: lock_held.borrow().clone(),
        orphans: ctx.probes.borrow().iter().map(|(s, p)| (*s, p.orphans().unwrap_or_default())).collect(),
        orphan_flags: ctx.probes.borrow().iter().map(|(s, p)| (*s, p.orphan_flags().unwrap_or_default())).collect(),
    };
    teardown_all(exec, ctx, &mut run);
    crate::heapmeter::end_case();
    run
}

/// Drop every task and handle; a panic in a destructor of the code under test is
/// recorded like any other panic.
fn teardown_all(mut exec: Exec, ctx: Ctx, run: &mut PairRun) {
    // (a panic *during the run* may have poisoned locks: everything is leaked then. A panic in a destructor at
    // teardown — the debug assertion of Counts::drop, in most runs that end with streams still counted — is contained
    // per object, and the rest is dropped normally: leaking the pipes of every such case adds up to gigabytes)
    let panicked_in_run = run.panic.is_some() || exec.any_panic().is_some();
    exec.teardown();
    let held: Vec<Box<dyn std::any::Any>> = HELD.with(|h| std::mem::take(&mut *h.borrow_mut()));
    if panicked_in_run {
        if run.panic.is_none() {
            run.panic = exec.any_panic();
        }
        std::mem::forget(held);
        std::mem::forget(ctx);
        std::mem::forget(exec);
        return;
    }
    let r = std::panic::catch_unwind(std::panic::AssertUnwindSafe(move || {
        drop(held);
        drop(ctx);
        drop(exec);
    }));
    if r.is_err() && run.panic.is_none() {
        run.panic = Some(("teardown (destructor)".into(), crate::util::take_panic().unwrap_or_default()));
    }
}

fn collect_stats(ctx: &Ctx) -> Vec<(Side, Option<h2::verif::VerifStats>, bool)> {
    ctx.probes.borrow().iter().map(|(s, p)| (*s, p.stats(), p.is_poisoned())).collect()
}
