//! RAW engines: h2 endpoint against the scripted reference peer.
//!  * catalogue profile (C09): legal prefix → one injected item → probe
//!  * later profiles add C13, C03, C14, C16, C18, C08, C15 (see each section)

use crate::oracles::*;
use crate::oracles2::*;
use crate::refmodel::wire::{self, Frame, Prio, RawFrame};
use crate::runner::{Engine, Outcome};
use crate::sim::*;
use crate::sim_pair::*;
use crate::sim_raw::*;
use crate::tape::Tape;
use crate::tapx::{self, Tap};
use serde::{Deserialize, Serialize};
use std::cell::RefCell;
use std::rc::Rc;

#[derive(Clone, Copy, Debug, PartialEq, Eq, Serialize, Deserialize)]
pub enum Class {
    /// connection error required
    Conn,
    /// at least a stream error on `stream`
    Stream,
    /// must be tolerated
    Legal,
    /// no demand
    Either,
}

#[derive(Clone, Debug, Serialize, Deserialize)]
pub struct Inject {
    pub item: String,
    pub state: String,
    pub class: Class,
    pub stream: u32,
    /// RFC sentence the row encodes
    pub basis: String,
    /// stream ids that must never reach the application
    pub never_surface: Vec<u32>,
    /// message keys that must be delivered completely (valid messages): (key, body bytes)
    #[serde(default)]
    pub must_deliver: Vec<(u32, usize)>,
    /// same, identified by the stream id the endpoint used for its own request (response must arrive complete)
    #[serde(default)]
    pub must_deliver_streams: Vec<(u32, usize)>,
    /// message keys whose head must not be delivered by the receive API
    #[serde(default)]
    pub no_head: Vec<u32>,
    /// message keys whose body must not end cleanly
    #[serde(default)]
    pub no_clean_end: Vec<u32>,
    /// property the reaction is reported under (C09 catalogue / C13 HTTP validity)
    #[serde(default)]
    pub prop: String,
    /// RST_STREAM/GOAWAY demanded only while the stream is still open: skip the wire demand
    #[serde(default)]
    pub wire_optional: bool,
}

#[derive(Clone, Debug, Serialize, Deserialize)]
pub struct RawCase {
    pub h2_side: Side,
    pub base: PairCase,
    pub spec: RawSpec,
    pub inject: Option<Inject>,
    pub probe_stream: u32,
    /// capacity of the pipe carrying E's output (None = unbounded)
    #[serde(default)]
    pub e_out_cap: Option<usize>,
}

pub struct RawRun {
    pub run: PairRun,
    pub obs: PeerObs,
}

pub fn run_raw(case: &RawCase) -> RawRun {
    let obs = Rc::new(RefCell::new(PeerObs::default()));
    let run = run_sim_cap(&case.base, Some((case.h2_side, Rc::new(case.spec.clone()), obs.clone())), case.e_out_cap);
    let o = std::mem::take(&mut *obs.borrow_mut());
    RawRun { run, obs: o }
}

fn base_case(t: &mut Tape, tapes: &[Vec<u32>], cfg: Cfg, reqs: Vec<Req>) -> PairCase {
    let mut t2 = Tape::new(&tapes[1]);
    let ns = t2.below(300);
    let sched = (0..ns).map(|_| t2.u32()).collect();
    let mut t3 = Tape::new(&tapes[2]);
    let n1 = t3.below(120);
    let chunk_c2s = (0..n1).map(|_| t3.u32()).collect();
    let n2 = t3.below(120);
    let chunk_s2c = (0..n2).map(|_| t3.u32()).collect();
    let _ = t;
    PairCase {
        cap: None,
        accept_limit: None,
        ccfg: cfg.clone(),
        scfg: cfg,
        client_init_max_send: None,
        vectored_c: t3.bool(),
        vectored_s: t3.bool(),
        sched,
        chunk_c2s,
        chunk_s2c,
        reqs,
        ops: vec![],
        fault: None,
        drop_send_request_at_end: true, nest: vec![]
    }
}

pub fn plain_cfg() -> Cfg {
    Cfg { initial_window: None, conn_window: None, max_frame: None, header_table: None, max_header_list: None, max_concurrent: None, max_send_buffer: None, reset_max: None, reset_dur_zero: false, enable_push: None, initial_stream_id: None }
}

fn req_fields(stream: u32, method: &str) -> Vec<(String, String)> {
    vec![
        (":method".into(), method.into()),
        (":scheme".into(), "https".into()),
        (":authority".into(), "example.com".into()),
        (":path".into(), format!("/s/{}", stream)),
        ("x-id".into(), stream.to_string()),
    ]
}

fn hdr(stream: u32, method: &str, end_stream: bool) -> PStep {
    PStep::Headers { stream, fields: req_fields(stream, method), end_stream, splits: vec![], pad: None, prio: None, enc: 0 }
}

fn fr(f: Frame) -> PStep {
    PStep::Frame { f, extra_flags: 0, r_bit: false }
}

fn rawf(ty: u8, flags: u8, stream: u32, payload: Vec<u8>) -> PStep {
    PStep::Raw(RawFrame::new(ty, flags, stream, payload).encode())
}

// ------------------------------------------------------------ C09 catalogue, h2 server under test

const STATES: &[&str] = &["none", "open", "half-closed-remote", "closed", "peer-reset"];

/// Returns the catalogue size so generators / evidence can report coverage.
pub const N_ITEMS_SERVER: usize = 85;

#[allow(clippy::too_many_lines)]
fn server_item(k: usize, t: &mut Tape, target: u32, state: &str, next_id: u32, cfg: &Cfg) -> Option<(Vec<PStep>, Inject)> {
    let mk = |item: &str, class: Class, stream: u32, basis: &str, never: Vec<u32>| Inject { item: item.into(), state: state.into(), class, stream, basis: basis.into(), never_surface: never, must_deliver: vec![], must_deliver_streams: vec![], no_head: vec![], no_clean_end: vec![], prop: "C09".into(), wire_optional: false };
    let has_stream = state != "none";
    let s = target;
    let idle = next_id; // an id never used so far
    let hdr_frag = vec![0x82u8, 0x87, 0x84, 0x01, 0x01, b'a']; // :method GET, :scheme https, :path /, :authority a
    Some(match k {
        // ---- stream-0 misuse (RFC 9113 §6.1-6.4, 6.6, 6.10)
        0 => (vec![rawf(wire::T_DATA, 0, 0, vec![1, 2, 3])], mk("data-on-stream-0", Class::Conn, 0, "§6.1 DATA frames MUST be associated with a stream", vec![])),
        1 => (vec![rawf(wire::T_HEADERS, 0x5, 0, hdr_frag.clone())], mk("headers-on-stream-0", Class::Conn, 0, "§6.2 HEADERS on stream 0 is a connection error", vec![])),
        2 => (vec![rawf(wire::T_PRIORITY, 0, 0, vec![0, 0, 0, 1, 5])], mk("priority-on-stream-0", Class::Conn, 0, "§6.3 PRIORITY on stream 0 is a connection error", vec![])),
        3 => (vec![rawf(wire::T_RST, 0, 0, vec![0, 0, 0, 8])], mk("rst-on-stream-0", Class::Conn, 0, "§6.4 RST_STREAM on stream 0 is a connection error", vec![])),
        4 => (vec![rawf(wire::T_CONT, 0x4, 0, vec![])], mk("continuation-on-stream-0", Class::Conn, 0, "§6.10 CONTINUATION on stream 0 / without open block", vec![])),
        5 => (vec![rawf(wire::T_PUSH, 0x4, if has_stream { s } else { 1 }, vec![0, 0, 0, 2, 0x82])], mk("push-promise-from-client", Class::Conn, 0, "§8.4 a client cannot push; PUSH_PROMISE received by a server is a connection error", vec![2])),
        // ---- connection-level frames on a stream (§6.5, 6.7, 6.8)
        6 => (vec![rawf(wire::T_SETTINGS, 0, 1, vec![])], mk("settings-on-stream-1", Class::Conn, 0, "§6.5 SETTINGS stream id other than 0 is a connection error", vec![])),
        7 => (vec![rawf(wire::T_PING, 0, 1, vec![0; 8])], mk("ping-on-stream-1", Class::Conn, 0, "§6.7 PING stream id other than 0 is a connection error", vec![])),
        8 => (vec![rawf(wire::T_GOAWAY, 0, 1, vec![0, 0, 0, 0, 0, 0, 0, 0])], mk("goaway-on-stream-1", Class::Conn, 0, "§6.8 GOAWAY stream id other than 0 MUST be treated as a connection error", vec![])),
        // ---- wrong lengths (§6.3-6.9)
        9 => (vec![rawf(wire::T_PING, 0, 0, vec![0; 7])], mk("ping-len-7", Class::Conn, 0, "§6.7 PING length other than 8 is FRAME_SIZE_ERROR", vec![])),
        10 => (vec![rawf(wire::T_PING, 0, 0, vec![0; 9])], mk("ping-len-9", Class::Conn, 0, "§6.7", vec![])),
        11 => (vec![rawf(wire::T_RST, 0, if has_stream { s } else { 1 }, vec![0, 0, 8])], mk("rst-len-3", Class::Conn, 0, "§6.4 RST_STREAM length other than 4 is a connection error", vec![])),
        12 => (vec![rawf(wire::T_WINUP, 0, 0, vec![0, 0, 1])], mk("window-update-len-3", Class::Conn, 0, "§6.9 WINDOW_UPDATE length other than 4 is a connection error", vec![])),
        13 => (vec![rawf(wire::T_GOAWAY, 0, 0, vec![0; 7])], mk("goaway-len-7", Class::Conn, 0, "§6.8 / §4.2 frame too small for mandatory fields", vec![])),
        14 => (vec![rawf(wire::T_SETTINGS, 0, 0, vec![0, 4, 0, 0, 1])], mk("settings-len-5", Class::Conn, 0, "§6.5 SETTINGS length not a multiple of 6", vec![])),
        15 => (vec![rawf(wire::T_SETTINGS, 1, 0, vec![0, 4, 0, 0, 1, 0])], mk("settings-ack-with-payload", Class::Conn, 0, "§6.5 ACK with non-empty payload is FRAME_SIZE_ERROR", vec![])),
        16 => (vec![rawf(wire::T_PRIORITY, 0, if has_stream { s } else { idle }, vec![0, 0, 0, 0])], mk("priority-len-4", Class::Stream, if has_stream { s } else { idle }, "§6.3 PRIORITY length other than 5 is a stream error", vec![])),
        // ---- padding (§6.1, 6.2)
        17 if has_stream && state == "open" => (vec![rawf(wire::T_DATA, 0x8, s, vec![5, 1, 2, 3])], mk("data-pad-ge-length", Class::Conn, 0, "§6.1 padding ≥ payload length is a connection error", vec![])),
        18 => (vec![rawf(wire::T_HEADERS, 0x8 | 0x5, idle, vec![200, 0x82])], mk("headers-pad-ge-length", Class::Conn, 0, "§6.2 padding exceeding the payload is a connection error", vec![idle])),
        19 if has_stream && state == "open" => (vec![rawf(wire::T_DATA, 0x8, s, vec![])], mk("data-padded-empty", Class::Conn, 0, "§4.2 frame too small for the pad length field", vec![])),
        // ---- header block contiguity (§4.3, 6.10)
        20 => (
            vec![rawf(wire::T_HEADERS, 0x1, idle, hdr_frag.clone()), rawf(wire::T_PING, 0, 0, vec![0; 8])],
            mk("header-block-interrupted-by-ping", Class::Conn, 0, "§4.3 header block MUST be contiguous", vec![idle]),
        ),
        21 => (
            vec![rawf(wire::T_HEADERS, 0x1, idle, hdr_frag.clone()), rawf(wire::T_CONT, 0x4, idle + 2, vec![])],
            mk("continuation-on-other-stream", Class::Conn, 0, "§6.10 CONTINUATION on a different stream", vec![idle, idle + 2]),
        ),
        22 => (
            vec![rawf(wire::T_HEADERS, 0x1, idle, hdr_frag.clone()), rawf(0x50, 0, 0, vec![1])],
            mk("header-block-interrupted-by-unknown-frame", Class::Conn, 0, "§4.3 / §5.5 extension frames in the middle of a field block are a connection error", vec![idle]),
        ),
        23 => (vec![rawf(wire::T_CONT, 0x4, if has_stream { s } else { 1 }, vec![0x82])], mk("continuation-without-block", Class::Conn, 0, "§6.10 CONTINUATION not preceded by HEADERS/PUSH_PROMISE/CONTINUATION without END_HEADERS", vec![])),
        // ---- HPACK (§4.3)
        24 => (vec![rawf(wire::T_HEADERS, 0x5, idle, vec![0x80])], mk("hpack-index-0", Class::Conn, 0, "§4.3 decoding error is a connection error COMPRESSION_ERROR", vec![idle])),
        25 => (vec![rawf(wire::T_HEADERS, 0x5, idle, vec![0xff, 0x80, 0x01])], mk("hpack-index-out-of-range", Class::Conn, 0, "§4.3", vec![idle])),
        26 => (vec![rawf(wire::T_HEADERS, 0x5, idle, vec![0x3f, 0xe1, 0xff, 0x03])], mk("hpack-size-update-over-limit", Class::Conn, 0, "RFC 7541 §6.3 size update above SETTINGS_HEADER_TABLE_SIZE", vec![idle])),
        27 => (vec![rawf(wire::T_HEADERS, 0x5, idle, vec![0x82, 0x87, 0x84, 0x41, 0x05, b'a'])], mk("hpack-truncated-block", Class::Conn, 0, "§4.3 truncated field block", vec![idle])),
        28 => (vec![rawf(wire::T_HEADERS, 0x5, idle, vec![0x82, 0x20])], mk("hpack-size-update-after-field", Class::Conn, 0, "RFC 7541 §4.2 size update must be at the start of a block", vec![idle])),
        29 => (vec![rawf(wire::T_HEADERS, 0x5, idle, vec![0x00, 0x81, 0xff, 0x01, b'v'])], mk("hpack-huffman-bad-padding", Class::Conn, 0, "RFC 7541 §5.2 padding longer than 7 bits", vec![idle])),
        // ---- idle streams (§5.1)
        30 => (vec![fr(Frame::Data { stream: idle, end_stream: false, pad: None, data: vec![1] })], mk("data-on-idle-stream", Class::Conn, 0, "§5.1 idle: any frame other than HEADERS or PRIORITY is a connection error", vec![idle])),
        31 => (vec![fr(Frame::Rst { stream: idle, code: 8 })], mk("rst-on-idle-stream", Class::Conn, 0, "§6.4 RST_STREAM on an idle stream is a connection error", vec![idle])),
        32 => (vec![fr(Frame::WinUp { stream: idle, inc: 10, inc_r: false })], mk("window-update-on-idle-stream", Class::Conn, 0, "§5.1 idle", vec![idle])),
        // ---- identifiers (§5.1.1)
        33 => (vec![hdr(idle + 4, "GET", true), PStep::Barrier, hdr(idle, "GET", true)], mk("stream-id-lower-than-previous", Class::Conn, 0, "§5.1.1 identifiers MUST be numerically greater than all streams the endpoint has opened", vec![idle])),
        34 => (vec![hdr(idle + 1, "GET", true)], mk("even-stream-id-from-client", Class::Conn, 0, "§5.1.1 client streams MUST use odd identifiers", vec![idle + 1])),
        // ---- SETTINGS values (§6.5.2)
        35 => (vec![fr(Frame::Settings { ack: false, params: vec![(2, 2)] })], mk("settings-enable-push-2", Class::Conn, 0, "§6.5.2 ENABLE_PUSH other than 0 or 1", vec![])),
        36 => (vec![fr(Frame::Settings { ack: false, params: vec![(4, 0x8000_0000)] })], mk("settings-initial-window-over-max", Class::Conn, 0, "§6.5.2 INITIAL_WINDOW_SIZE above 2^31-1 is FLOW_CONTROL_ERROR", vec![])),
        37 => (vec![fr(Frame::Settings { ack: false, params: vec![(5, 16383)] })], mk("settings-max-frame-size-too-small", Class::Conn, 0, "§6.5.2 MAX_FRAME_SIZE outside [2^14, 2^24-1]", vec![])),
        38 => (vec![fr(Frame::Settings { ack: false, params: vec![(5, 1 << 24)] })], mk("settings-max-frame-size-too-large", Class::Conn, 0, "§6.5.2", vec![])),
        39 => (vec![fr(Frame::Settings { ack: true, params: vec![] })], mk("stray-settings-ack", Class::Conn, 0, "property C14: an acknowledgement that answers nothing is a connection error", vec![])),
        // ---- WINDOW_UPDATE (§6.9)
        40 => (vec![rawf(wire::T_WINUP, 0, 0, vec![0, 0, 0, 0])], mk("window-update-0-connection", Class::Conn, 0, "§6.9 increment 0 on the connection is a connection error", vec![])),
        41 => (vec![fr(Frame::WinUp { stream: 0, inc: 0x7fff_ffff, inc_r: false })], mk("window-update-overflow-connection", Class::Conn, 0, "§6.9.1 window above 2^31-1: connection error FLOW_CONTROL_ERROR", vec![])),
        42 if has_stream && state == "open" => (vec![rawf(wire::T_WINUP, 0, s, vec![0, 0, 0, 0])], mk("window-update-0-stream", Class::Stream, s, "§6.9 increment 0 on a stream is a stream error", vec![])),
        43 if has_stream && state == "open" => (vec![fr(Frame::WinUp { stream: s, inc: 0x7fff_ffff, inc_r: false })], mk("window-update-overflow-stream", Class::Stream, s, "§6.9.1 stream window above 2^31-1: RST_STREAM FLOW_CONTROL_ERROR", vec![])),
        // ---- flow control exceeded (§6.9.1)
        44 if has_stream && state == "open" => {
            let w = cfg.initial_window.unwrap_or(65535) as usize;
            if w >= 65535 {
                // connection window (65535) is the binding one
                (vec![PStep::Data { stream: s, len: 65535 + 1, pad: None, end_stream: false, force: true }], mk("data-beyond-connection-window", Class::Conn, 0, "property C09: connection window violations end the connection (§6.9.1 MAY)", vec![]))
            } else {
                (vec![PStep::Data { stream: s, len: w + 1, pad: None, end_stream: false, force: true }], mk("data-beyond-stream-window", Class::Stream, s, "§6.9.1 stream error FLOW_CONTROL_ERROR", vec![]))
            }
        }
        // ---- frames in wrong stream states (§5.1)
        45 if state == "half-closed-remote" => (vec![fr(Frame::Data { stream: s, end_stream: false, pad: None, data: vec![1, 2] })], mk("data-after-end-stream", Class::Stream, s, "§5.1 half-closed (remote): frames other than WINDOW_UPDATE/PRIORITY/RST_STREAM are a stream error STREAM_CLOSED", vec![])),
        46 if state == "half-closed-remote" => (vec![PStep::Headers { stream: s, fields: vec![("x-t".into(), "1".into())], end_stream: true, splits: vec![], pad: None, prio: None, enc: 0 }], mk("headers-after-end-stream", Class::Stream, s, "§5.1 half-closed (remote)", vec![])),
        47 if state == "closed" => (vec![fr(Frame::Data { stream: s, end_stream: false, pad: None, data: vec![1, 2] })], mk("data-on-closed-stream", Class::Stream, s, "§5.1 closed (after END_STREAM): stream error STREAM_CLOSED (or connection error)", vec![])),
        48 if state == "closed" => (vec![PStep::Headers { stream: s, fields: req_fields(s, "GET"), end_stream: true, splits: vec![], pad: None, prio: None, enc: 0 }], mk("headers-on-closed-stream", Class::Stream, s, "§5.1 closed", vec![])),
        49 if state == "peer-reset" => (vec![fr(Frame::Data { stream: s, end_stream: false, pad: None, data: vec![1, 2] })], mk("data-after-own-rst", Class::Stream, s, "§5.1 closed (after sending RST_STREAM the sender MUST NOT send more; receiver treats as stream error)", vec![])),
        50 if state == "peer-reset" => (vec![PStep::Headers { stream: s, fields: vec![("x-t".into(), "1".into())], end_stream: true, splits: vec![], pad: None, prio: None, enc: 0 }], mk("headers-after-own-rst", Class::Stream, s, "§5.1 closed", vec![])),
        51 if state == "open" => (vec![PStep::Headers { stream: s, fields: vec![("x-t".into(), "1".into())], end_stream: false, splits: vec![], pad: None, prio: None, enc: 0 }], mk("trailers-without-end-stream", Class::Stream, s, "§8.1 trailers MUST carry END_STREAM (malformed)", vec![])),
        52 => (vec![PStep::Headers { stream: idle, fields: req_fields(idle, "GET"), end_stream: true, splits: vec![], pad: None, prio: Some(Prio { exclusive: false, dep: idle, weight: 1 }), enc: 0 }], mk("headers-self-dependency", Class::Either, idle, "§5.3.1 (RFC 7540) self-dependency is a stream error; RFC 9113 deprecates priority", vec![])),
        // ---- oversize frame (§4.2)
        53 => {
            let lim = cfg.max_frame.unwrap_or(16384) as usize;
            let mut v = Vec::new();
            RawFrame::new(wire::T_PING, 0, 0, vec![]).encode_with_len((lim + 1) as u32, &mut v);
            (vec![PStep::Raw(v)], mk("frame-larger-than-max-frame-size", Class::Conn, 0, "§4.2 FRAME_SIZE_ERROR", vec![]))
        }
        // ---- legal but unusual (must be tolerated)
        54 => (vec![fr(Frame::Priority { stream: idle + 10, prio: Prio { exclusive: false, dep: 0, weight: 3 } })], mk("priority-on-idle-stream", Class::Legal, 0, "§6.3 PRIORITY can be sent in any stream state, including idle", vec![])),
        55 if has_stream => (vec![fr(Frame::Priority { stream: s, prio: Prio { exclusive: true, dep: 0, weight: 255 } })], mk("priority-on-existing-stream", Class::Legal, 0, "§6.3 PRIORITY in any state (open, half-closed, closed)", vec![])),
        56 => (vec![rawf(0x0b + t.below(200) as u8, t.below(256) as u8, 0, t.bytes(9))], mk("unknown-frame-type-on-stream-0", Class::Legal, 0, "§4.1 unknown frame types MUST be ignored", vec![])),
        57 if has_stream => (vec![rawf(0x0b + t.below(200) as u8, t.below(256) as u8, s, t.bytes(3))], mk("unknown-frame-type-on-stream", Class::Legal, 0, "§4.1", vec![])),
        58 => (vec![fr(Frame::Settings { ack: false, params: vec![(0x0a0a, 7), (0x7fff, u32::MAX), (0, 1)] })], mk("unknown-settings-ids", Class::Legal, 0, "§6.5.2 unknown settings MUST be ignored", vec![])),
        59 => (vec![PStep::Frame { f: Frame::Ping { ack: false, data: [9; 8] }, extra_flags: 0xfe, r_bit: true }], mk("ping-undefined-flags-and-reserved-bit", Class::Legal, 0, "§4.1 undefined flags MUST be ignored; reserved bit MUST be ignored", vec![])),
        60 if state == "open" => (vec![PStep::Data { stream: s, len: 10, pad: Some(t.below(256) as u8), end_stream: false, force: false }], mk("padded-data", Class::Legal, 0, "§6.1 padding", vec![])),
        61 => (vec![PStep::Headers { stream: idle, fields: req_fields(idle, "GET"), end_stream: true, splits: vec![], pad: Some(t.below(256) as u8), prio: Some(Prio { exclusive: t.bool(), dep: 0, weight: 7 }), enc: 0 }], mk("padded-headers-with-priority", Class::Legal, 0, "§6.2 padding and priority fields", vec![])),
        62 if state == "open" => (vec![fr(Frame::Data { stream: s, end_stream: false, pad: None, data: vec![] }), fr(Frame::Data { stream: s, end_stream: false, pad: None, data: vec![] })], mk("empty-data-frames", Class::Legal, 0, "§6.1 empty DATA frames are valid", vec![])),
        63 => (vec![PStep::Headers { stream: idle, fields: req_fields(idle, "GET"), end_stream: true, splits: vec![0, 0, 3, 3, 9], pad: None, prio: None, enc: 0 }], mk("header-block-with-empty-fragments", Class::Legal, 0, "§6.10 any number of CONTINUATION frames, fragments may be empty", vec![])),
        64 if state == "closed" => (vec![fr(Frame::WinUp { stream: s, inc: 100, inc_r: false })], mk("window-update-on-closed-stream", Class::Legal, 0, "§5.1 closed: WINDOW_UPDATE can arrive for a short period after END_STREAM", vec![])),
        65 if state == "closed" => (vec![fr(Frame::Rst { stream: s, code: 8 })], mk("rst-on-closed-stream", Class::Legal, 0, "§5.1 closed: RST_STREAM after END_STREAM must be tolerated", vec![])),
        66 => (vec![fr(Frame::WinUp { stream: 0, inc: 0x7fff_ffff - 65535, inc_r: false })], mk("window-update-to-exactly-max", Class::Legal, 0, "§6.9.1 2^31-1 is the largest legal window", vec![])),
        67 => (vec![fr(Frame::Ping { ack: true, data: [7; 8] })], mk("unsolicited-ping-ack", Class::Either, 0, "RFC silent", vec![])),
        68 => (vec![fr(Frame::Settings { ack: false, params: vec![] }), fr(Frame::Settings { ack: false, params: vec![(4, 70000), (4, 65535)] }), fr(Frame::Settings { ack: false, params: vec![] })], mk("repeated-settings", Class::Legal, 0, "§6.5 any number of SETTINGS; values processed in order", vec![])),
        69 => (vec![hdr(idle + 20, "GET", true)], mk("stream-id-gap", Class::Legal, 0, "§5.1.1 identifiers need not be consecutive", vec![])),
        70 => (vec![PStep::Headers { stream: idle, fields: req_fields(idle, "GET"), end_stream: true, splits: vec![2, 11], pad: None, prio: None, enc: 3 }], mk("hpack-unusual-valid-encodings", Class::Legal, 0, "RFC 7541: every representation choice is valid", vec![])),
        71 if state == "open" => (vec![PStep::Headers { stream: s, fields: vec![("x-trailer".into(), "1".into())], end_stream: true, splits: vec![], pad: None, prio: None, enc: 0 }], mk("trailers", Class::Legal, 0, "§8.1 trailer section", vec![])),
        72 if state == "open" => (vec![PStep::Frame { f: Frame::Data { stream: s, end_stream: false, pad: None, data: vec![1, 2, 3] }, extra_flags: 0xf6, r_bit: true }], mk("data-undefined-flags", Class::Legal, 0, "§4.1 undefined flags MUST be ignored", vec![])),
        73 if state == "peer-reset" => (vec![fr(Frame::Rst { stream: s, code: 8 })], mk("second-rst-after-own-rst", Class::Either, 0, "§5.1: RFC says stream error; property lists RST_STREAM on closed streams as tolerated", vec![])),
        74 if state == "peer-reset" => (vec![fr(Frame::WinUp { stream: s, inc: 5, inc_r: false })], mk("window-update-after-own-rst", Class::Either, 0, "§5.1", vec![])),
        75 => (vec![fr(Frame::GoAway { last: 0, last_r: false, code: 0, debug: b"bye".to_vec() }), fr(Frame::GoAway { last: 0, last_r: false, code: 0, debug: vec![] })], mk("repeated-goaway-no-error", Class::Either, 0, "§6.8 (peer is shutting down; probe not applicable)", vec![])),
        76 => {
            // more streams than the advertised limit (only meaningful with a limit)
            let lim = cfg.max_concurrent?;
            let mut v = Vec::new();
            let mut ids = Vec::new();
            for i in 0..=lim {
                let id = idle + 2 * i;
                v.push(hdr(id, "POST", false));
                ids.push(id);
            }
            let last = *ids.last().unwrap();
            // afterwards the accepted streams are finished so that slots are free again for the probe
            v.push(PStep::Barrier);
            for id in &ids[..ids.len() - 1] {
                v.push(fr(Frame::Data { stream: *id, end_stream: true, pad: None, data: vec![] }));
                v.push(PStep::WaitEnd(*id));
            }
            (v, mk("stream-over-concurrency-limit", Class::Stream, last, "§5.1.2 exceeding the advertised limit is a stream error PROTOCOL_ERROR or REFUSED_STREAM", vec![last]))
        }
        78 | 79 => {
            // a stream refused for exceeding the limit is a stream the endpoint reset: what the peer had in flight
            // for it must not hurt the connection, and its identifier stays used
            let lim = cfg.max_concurrent?;
            let mut v = Vec::new();
            let mut ids = Vec::new();
            for i in 0..=lim {
                let id = idle + 2 * i;
                v.push(hdr(id, "POST", false));
                ids.push(id);
            }
            let last = *ids.last().unwrap();
            if k == 78 {
                let what = t.below(4);
                if what == 0 || what == 3 {
                    v.push(fr(Frame::Data { stream: last, end_stream: false, pad: None, data: vec![1, 2, 3] }));
                }
                if what == 1 || what == 3 {
                    v.push(fr(Frame::WinUp { stream: last, inc: 10, inc_r: false }));
                }
                if what == 2 || what == 3 {
                    v.push(fr(Frame::Rst { stream: last, code: 8 }));
                }
            }
            v.push(PStep::Barrier);
            for id in &ids[..ids.len() - 1] {
                v.push(fr(Frame::Data { stream: *id, end_stream: true, pad: None, data: vec![] }));
                v.push(PStep::WaitEnd(*id));
            }
            if k == 78 {
                (v, mk("in-flight-frames-on-refused-stream", Class::Legal, last, "§5.4.2 / §6.4 after sending RST_STREAM an endpoint MUST be prepared to receive frames the peer sent before it arrived", vec![last]))
            } else {
                // a slot is free again: the peer opens the refused identifier a second time
                v.push(PStep::Barrier);
                v.push(hdr(last, "GET", true));
                (v, mk("refused-stream-id-opened-again", Class::Either, 0, "§5.1.1 stream identifiers cannot be reused: a second HEADERS for a refused stream never starts a request", vec![last]))
            }
        }
        80 | 81 => {
            // a request rejected while its header block is decoded (malformed: stream error) on an identifier that
            // skips ahead: the identifier and everything below it are used up all the same
            let bad = PStep::Headers { stream: idle + 4, fields: vec![(":method".into(), "GET".into()), (":scheme".into(), "https".into()), (":path".into(), "/".into()), ("connection".into(), "close".into())], end_stream: true, splits: vec![], pad: None, prio: None, enc: 0 };
            if k == 80 {
                (vec![bad, PStep::Barrier, hdr(idle, "GET", true)], mk("lower-stream-id-after-rejected-request", Class::Conn, 0, "§5.1.1 identifiers MUST be numerically greater than all streams the endpoint has opened — a request answered with a stream error was opened", vec![idle]))
            } else {
                let late = match t.below(3) {
                    0 => fr(Frame::Rst { stream: idle + 4, code: 8 }),
                    1 => fr(Frame::WinUp { stream: idle + 4, inc: 10, inc_r: false }),
                    _ => fr(Frame::Data { stream: idle + 4, end_stream: false, pad: None, data: vec![1, 2, 3] }),
                };
                (vec![bad, PStep::Barrier, PStep::Yield(20), late], mk("late-frame-on-rejected-request", Class::Legal, idle + 4, "§5.4.2 after sending RST_STREAM an endpoint MUST be prepared to receive frames the peer sent before it arrived (here: for a request it rejected as malformed)", vec![idle + 4]))
            }
        }
        82 => {
            // a header block cut into many small CONTINUATION frames (8–20 of them)
            let n = 8 + t.below(13);
            let splits: Vec<usize> = (1..=n).collect();
            (vec![PStep::Headers { stream: idle, fields: req_fields(idle, "GET"), end_stream: true, splits, pad: None, prio: None, enc: 0 }], mk("header-block-in-many-continuation-frames", Class::Legal, 0, "§6.10 any number of CONTINUATION frames can be sent", vec![]))
        }
        83 | 84 => {
            // the truncated block of row 27, but its last fragment is a CONTINUATION frame (k = 84: an empty one)
            let block = vec![0x82u8, 0x87, 0x84, 0x41, 0x05, b'a'];
            let cut = if k == 83 { 5 } else { 6 };
            (
                vec![rawf(wire::T_HEADERS, 0x1, idle, block[..cut].to_vec()), rawf(wire::T_CONT, 0x4, idle, block[cut..].to_vec())],
                mk("hpack-truncated-block-ending-in-continuation", Class::Conn, 0, "§4.3 truncated field block (a field block that cannot be decoded is a connection error COMPRESSION_ERROR)", vec![idle]),
            )
        }
        77 => (vec![fr(Frame::Settings { ack: false, params: vec![(3, 0), (4, 0)] }), fr(Frame::Settings { ack: false, params: vec![(3, 100), (4, 65535)] })], mk("settings-zero-limits-then-restore", Class::Legal, 0, "§6.5.2 zero is a valid value for MAX_CONCURRENT_STREAMS and INITIAL_WINDOW_SIZE", vec![])),
        _ => return None,
    })
}

pub fn gen_catalogue_server(tapes: &[Vec<u32>]) -> RawCase {
    let mut t = Tape::new(&tapes[0]);
    let mut cfg = plain_cfg();
    if t.chance(1, 3) {
        cfg.initial_window = Some(*t.pick(&[100u32, 1000, 65535, 100_000]));
    }
    if t.chance(1, 4) {
        cfg.max_frame = Some(*t.pick(&[16384u32, 20000, 65536]));
    }
    // the item is chosen first: the concurrency item needs a small limit, every other item must not be
    // disturbed by one (the probe would be refused while earlier streams are still being answered)
    let k_pre = t.below(N_ITEMS_SERVER);
    let limit_item = matches!(k_pre, 76 | 78 | 79);
    if limit_item {
        cfg.max_concurrent = Some(*t.pick(&[1u32, 2, 5]));
    } else if t.chance(1, 3) {
        cfg.max_concurrent = Some(100);
    }
    if t.chance(1, 4) {
        cfg.header_table = Some(*t.pick(&[0u32, 100, 4096]));
    }
    cfg.reset_dur_zero = t.chance(1, 3);
    if matches!(k_pre, 78 | 81) && t.bool() {
        // (no memory of reset streams: the late frames meet a stream the endpoint has already forgotten)
        cfg.reset_max = Some(0);
    }
    // variant: the item arrives while the endpoint's own writes are stuck behind a large response the peer does
    // not read (whatever reaction is owed has to survive the back-pressure)
    let back_pressure = k_pre != 44 && t.chance(1, 4);
    // (the blocked response occupies a concurrency slot of its own: items that count slots see the limit they expect)
    let item_cfg = cfg.clone();
    if back_pressure {
        if let Some(m) = cfg.max_concurrent {
            cfg.max_concurrent = Some(m + 1);
        }
    }
    // handshake completed in both directions before anything else (E's SETTINGS seen and acknowledged)
    let mut script: Vec<PStep> = vec![PStep::Barrier];
    let mut reqs: Vec<Req> = Vec::new();
    let mut next_id = 1u32;
    // optional earlier complete exchanges
    let nwarm = t.below(3);
    for _ in 0..nwarm {
        let id = next_id;
        next_id += 2;
        if t.bool() {
            script.push(hdr(id, "GET", true));
        } else {
            script.push(hdr(id, "POST", false));
            script.push(PStep::Data { stream: id, len: *t.pick(&[0usize, 1, 100, 5000]), pad: None, end_stream: true, force: false });
        }
        script.push(PStep::WaitEnd(id));
    }
    // the target stream in a chosen state
    // (the concurrency item counts slots itself: no stream may be left open before it)
    let state = if limit_item { *t.pick(&["none", "closed"]) } else { *t.pick(STATES) };
    // variant: the injection arrives after the endpoint completed a graceful shutdown handshake (both GOAWAYs
    // sent) while the target stream keeps the connection open; only connection errors are judged then
    let draining = state == "open" && k_pre != 44 && t.chance(1, 4);
    let mut ops: Vec<ConnOp> = Vec::new();
    let mut target = 0u32;
    match state {
        "open" => {
            target = next_id;
            next_id += 2;
            let mut r = default_req(target);
            r.resp_delay = 2000; // both directions still open when the injection arrives
            if k_pre == 44 {
                // window-violation items: the application holds on to what it reads, so no new credit is
                // granted while the excess arrives
                r.req_reader = Reader::Deferred(5000);
            }
            reqs.push(r);
            script.push(hdr(target, "POST", false));
            script.push(PStep::Barrier);
            if draining {
                ops.push(ConnOp { side: Side::Server, after_events: 2 + t.below(3), cmd: ConnCmd::GracefulShutdown, gap: 0 });
                script.push(PStep::Yield(60));
                script.push(PStep::Barrier);
                script.push(PStep::Barrier);
            }
        }
        "half-closed-remote" => {
            target = next_id;
            next_id += 2;
            let mut r = default_req(target);
            r.resp_delay = 2000; // E has not answered yet when the injection arrives
            reqs.push(r);
            script.push(hdr(target, "GET", true));
            script.push(PStep::Barrier);
        }
        "closed" => {
            target = next_id;
            next_id += 2;
            script.push(hdr(target, "GET", true));
            script.push(PStep::WaitEnd(target));
            script.push(PStep::Barrier);
        }
        "peer-reset" => {
            target = next_id;
            next_id += 2;
            script.push(hdr(target, "POST", false));
            script.push(fr(Frame::Rst { stream: target, code: 8 }));
            script.push(PStep::Barrier);
        }
        _ => {}
    }
    // the injected item
    let mut inject = None;
    for round in 0..40 {
        // (items 44 and 76 need a prepared configuration: only as first choice)
        let k = if round == 0 {
            k_pre
        } else {
            let k = t.below(76);
            if k == 44 {
                45
            } else {
                k
            }
        };
        if let Some((steps, mut inj)) = server_item(k, &mut t, target, state, next_id + if back_pressure { 2 } else { 0 }, &item_cfg) {
            if draining {
                // (frames for streams above the announced last-stream-id may be discarded after GOAWAY, §6.8: only
                // violations on stream 0, on the framing layer or on the target stream are judged)
                let judged = matches!(k, 0..=15 | 17 | 19 | 23 | 35..=41 | 53);
                if inj.class != Class::Conn || !judged {
                    continue;
                }
                inj.state = "open+graceful-shutdown-done".into();
            }
            if back_pressure {
                // a request answered with 40 kB that cannot leave: the peer stops reading first
                let bp = next_id;
                let mut r = default_req(bp);
                r.resp.chunks = vec![Chunk { len: 40_000, reserve: false, cuts: vec![], delay: 0, hold: 0 }];
                reqs.push(r);
                script.push(PStep::Reading(false));
                script.push(hdr(bp, "GET", true));
                script.push(PStep::Yield(25));
                inj.state = format!("{}+writes-blocked", inj.state);
            }
            script.push(PStep::Mark("inject".into()));
            if back_pressure {
                // the peer resumes reading before the first step of the item that waits for the endpoint (else it
                // would wait for an answer it refuses to read)
                let mut steps = steps;
                let at = steps.iter().position(|s| matches!(s, PStep::Barrier | PStep::WaitEnd(_) | PStep::WaitStreams(_))).unwrap_or(steps.len());
                steps.insert(at, PStep::Reading(true));
                steps.insert(at, PStep::Yield(15));
                script.extend(steps);
            } else {
                script.extend(steps);
            }
            inject = Some(inj);
            break;
        }
    }
    if back_pressure {
        next_id += 2;
    }
    next_id += 60;
    // probe: the connection (if it is supposed to survive) still serves a plain request
    let probe = next_id;
    let expect_alive = inject.as_ref().map(|i| i.class != Class::Conn).unwrap_or(true);
    script.push(PStep::Mark("after".into()));
    if expect_alive {
        script.push(PStep::Barrier);
        script.push(hdr(probe, "GET", true));
        script.push(PStep::WaitEnd(probe));
        script.push(PStep::Barrier);
    } else {
        script.push(PStep::Yield(30));
    }
    let spec = RawSpec { peer_settings: if t.bool() { vec![] } else { vec![(3, 100), (4, 65535)] }, script, grant: Grant::Eager, close_at_end: true };
    let mut base = base_case(&mut t, tapes, cfg, reqs);
    base.ops = ops;
    RawCase { h2_side: Side::Server, base, spec, inject, probe_stream: probe, e_out_cap: if back_pressure { Some(*t.pick(&[64usize, 300, 2000])) } else { None } }
}

// ------------------------------------------------------------ evaluation

pub struct Analysed {
    pub tap: Tap,
    pub av: AckedView,
}

pub fn analyse_raw(case: &RawCase, rr: &RawRun) -> Analysed {
    let sides = [case.h2_side];
    let tap = {
        let c2s = rr.run.wire.c2s.borrow();
        let s2c = rr.run.wire.s2c.borrow();
        tapx::analyse(&c2s, &s2c, &sides)
    };
    let av = acked_view(&tap);
    Analysed { tap, av }
}

/// Oracles that apply to every RAW run (the h2 side's output must stay legal
/// whatever the peer does).
pub fn common_raw_oracles(case: &RawCase, rr: &RawRun, an: &Analysed, out: &mut Outcome) {
    let sides = [case.h2_side];
    let poisoned = rr.run.stats.iter().any(|s| s.2);
    check_panic(&rr.run.panic, poisoned, out);
    check_wire_basic(&an.tap, &an.av, &sides, out);
    check_c02(&an.tap, &an.av, &sides, out);
    check_c04(&an.tap, &an.av, &sides, out);
    check_c13_emitted(&an.tap, &sides, out);
    if let RunEnd::BusyLoop(t) = &rr.run.end {
        out.fail("C08", "busy-loop", format!("C08/busy-loop/{}", strip_digits(t)), format!("task {} keeps waking itself without any progress", t));
    }
    if rr.run.end == RunEnd::Budget {
        out.label("step-budget-hit");
    }
    // a program that is stuck at quiescence and completes as soon as every task is polled once more was not woken by
    // the library (whatever the scripted peer still owes it, a re-poll cannot supply)
    if rr.run.end == RunEnd::Quiescent && rr.run.panic.is_none() && rr.run.completed_when_repolled == Some(true) {
        let mut kinds: Vec<String> = rr.run.unfinished.iter().filter(|(_, g)| matches!(g, Group::ClientApp | Group::ServerApp)).map(|(n, _)| strip_digits(n)).collect();
        kinds.sort();
        kinds.dedup();
        out.fail("C06", "lost-wakeup", format!("C06/lost-wakeup/raw/{}", kinds.join("+")), format!("nothing runnable, nothing in flight, yet tasks {:?} are pending — and they complete once every task is polled again: a wake-up was lost", rr.run.unfinished.iter().filter(|(_, g)| matches!(g, Group::ClientApp | Group::ServerApp)).map(|(n, _)| n.clone()).collect::<Vec<_>>()));
    }
}

pub fn check_c09(case: &RawCase, rr: &RawRun, an: &Analysed, out: &mut Outcome) {
    let inj = match &case.inject {
        Some(i) => i,
        None => return,
    };
    let prop: &str = if inj.prop.is_empty() { "C09" } else { &inj.prop };
    let e = case.h2_side;
    let role = e.name();
    out.label(format!("item:{}", inj.item));
    out.label(format!("state:{}", inj.state));
    let (mark_t, mark_off) = match rr.obs.marks.iter().find(|m| m.0 == "inject") {
        Some(m) => (m.1, m.2),
        None => {
            out.label("injection-not-reached");
            return;
        }
    };
    // was the injection delivered to E at all?
    let peer_pipe = if e == Side::Server { rr.run.wire.c2s.borrow() } else { rr.run.wire.s2c.borrow() };
    let delivered_inject = peer_pipe.delivered > mark_off;
    drop(peer_pipe);
    if !delivered_inject {
        out.label("injection-not-delivered");
        return;
    }
    // rows about a stream the endpoint refused for exceeding its limit presuppose that it did refuse it: when the
    // earlier streams had already finished (delivery delayed by chunking or blocked writes) the stream was accepted
    // legitimately and the row says nothing
    if matches!(inj.item.as_str(), "refused-stream-id-opened-again" | "in-flight-frames-on-refused-stream") {
        let refused = inj.never_surface.first().map(|s| an.tap.frames.iter().any(|f| f.from == e && matches!(&f.frame, Ok(Frame::Rst { stream, .. }) if stream == s))).unwrap_or(false);
        if !refused {
            out.label("premise-not-met:stream-was-not-refused");
            return;
        }
    }
    if inj.item == "stream-over-concurrency-limit" {
        // the demand (a refusal) presupposes that as many earlier streams as the endpoint advertised were still open,
        // from the endpoint's point of view, when the surplus stream arrived
        if let Some(last) = inj.never_surface.first() {
            let limit = an.tap.frames.iter().filter(|f| f.from == e).filter_map(|f| if let Ok(Frame::Settings { ack: false, params }) = &f.frame { params.iter().find(|p| p.0 == 3).map(|p| p.1 as usize) } else { None }).last();
            let t_last = an.tap.frames.iter().filter(|f| f.from != e && f.raw.stream == *last && matches!(&f.frame, Ok(Frame::Headers { .. }))).filter_map(|f| f.t_d).min();
            if let (Some(limit), Some(t_last)) = (limit, t_last) {
                let ws = crate::oracles2::wire_streams(&an.tap);
                let i = tapx::side_idx(e);
                let p = 1 - i;
                let open = ws.iter().filter(|(s, w)| **s % 2 == 1 && **s < *last && w.opened_by.is_some()).filter(|(_, w)| {
                    let both_ended = w.end[i].map(|x| x.0 <= t_last).unwrap_or(false) && w.end[p].map(|x| x.1.map(|d| d <= t_last).unwrap_or(false)).unwrap_or(false);
                    let rst = w.rst[i].iter().any(|r| r.0 <= t_last) || w.rst[p].iter().any(|r| r.1.map(|d| d <= t_last).unwrap_or(false));
                    !(both_ended || rst)
                }).count();
                if open < limit {
                    out.label("premise-not-met:limit-not-reached");
                    return;
                }
            }
        }
    }
    out.nontrivial = true;
    let _ = mark_t;
    // E's frames after the first injected byte was delivered
    let inj_t_d0 = an.tap.frames.iter().filter(|f| f.from != e && f.off0 >= mark_off - if e == Side::Server { 0 } else { 0 }).filter_map(|f| f.t_d0).min();
    let t0 = match inj_t_d0 {
        Some(t) => t,
        None => {
            // raw bytes that do not parse as frames: use write time of the mark
            mark_t
        }
    };
    let after: Vec<&tapx::TFrame> = an.tap.frames.iter().filter(|f| f.from == e && f.t_w >= t0).collect();
    let goaway_err = after.iter().find_map(|f| if let Ok(Frame::GoAway { code, .. }) = &f.frame { if *code != 0 { Some(*code) } else { None } } else { None });
    let any_goaway_err_ever = an.tap.frames.iter().any(|f| f.from == e && matches!(&f.frame, Ok(Frame::GoAway { code, .. }) if *code != 0));
    let rst_on = |s: u32| after.iter().find_map(|f| if let Ok(Frame::Rst { stream, code }) = &f.frame { if *stream == s && *code != 0 { Some(*code) } else { None } } else { None });
    let probe_answered = if e == Side::Server {
        an.tap.frames.iter().any(|f| f.from == e && f.raw.stream == case.probe_stream && matches!(&f.frame, Ok(Frame::Headers { .. })))
    } else {
        // client under test: its second request (key = probe_stream) got its response
        // (… whichever request of the application went out second, i.e. on stream 2·probe−1)
        let probe_key = rr.run.events.iter().find(|ev| ev.side == e && matches!(&ev.api, Api::SentHead { kind: "request", stream, .. } if *stream as u64 + 1 == 2 * case.probe_stream as u64)).map(|ev| ev.key).unwrap_or(case.probe_stream);
        rr.run.events.iter().any(|ev| ev.side == e && ev.key == probe_key && matches!(&ev.api, Api::RecvHead { kind: "response", .. }))
    };
    let conn_done_err = rr.run.events.iter().any(|ev| ev.side == e && matches!(&ev.api, Api::ConnDone { result: Err(_) }));
    // (server: streams handed to accept(); client: promised streams handed to the application as pushes)
    let surfaced: Vec<u32> = rr
        .run
        .events
        .iter()
        .filter(|ev| ev.side == e)
        .filter_map(|ev| match &ev.api {
            Api::Accepted { stream } => Some(*stream),
            Api::RecvHead { kind: "push-request", stream, .. } => Some(*stream),
            _ => None,
        })
        .collect();
    let sig = |what: &str| if prop == "C13" { format!("C13/{}/{}/{}", role, inj.state, what) } else { format!("{}/{}/{}/{}/{}", prop, role, inj.item, inj.state, what) };
    for s in &inj.never_surface {
        if surfaced.contains(s) {
            out.fail(prop, "containment/surfaced", sig("illegal-frame-surfaced"), format!("{}: stream {} created by the forbidden frame reached the application ({})", inj.item, s, inj.basis));
        }
    }
    // ---- delivery demands (HTTP validity items)
    let (_, recv) = views(&rr.run.events);
    // (client under test: the items name request keys 1 and 2 meaning "the request on stream 1 / 3"; which of the
    // application's requests went out first is up to the schedule, so the keys are translated through the streams
    // the requests really used; push keys are parent key × 1000 + n)
    let remap = |k: u32| -> u32 {
        if e != Side::Client {
            return k;
        }
        let on_stream = |sid: u32| rr.run.events.iter().find(|ev| ev.side == e && matches!(&ev.api, Api::SentHead { kind: "request", stream, .. } if *stream == sid)).map(|ev| ev.key);
        if k >= 1000 {
            on_stream(2 * (k / 1000) - 1).map(|p| p * 1000 + k % 1000).unwrap_or(k)
        } else if k >= 1 {
            on_stream(2 * k - 1).unwrap_or(k)
        } else {
            k
        }
    };
    let no_head: Vec<u32> = inj.no_head.iter().map(|k| remap(*k)).collect();
    let no_clean_end: Vec<u32> = inj.no_clean_end.iter().map(|k| remap(*k)).collect();
    let must_deliver: Vec<(u32, usize)> = inj.must_deliver.iter().map(|(k, b)| (remap(*k), *b)).collect();
    for key in &no_head {
        if let Some(r) = recv.get(&(*key, e.other())) {
            if r.heads.iter().any(|h| h.0 == "request" || h.0 == "response" || h.0 == "push-request") {
                out.fail("C13", "http/malformed-delivered", format!("C13/{}/{}/malformed-message-delivered", role, inj.state), format!("{}: the receive API handed a head for message key {} to the application although its header section is malformed — {}", inj.item, key, inj.basis));
            }
        }
    }
    for key in &no_clean_end {
        if let Some(r) = recv.get(&(*key, e.other())) {
            if r.clean_end.is_some() {
                out.fail("C13", "http/clean-end", format!("C13/{}/{}/malformed-message-ends-cleanly", role, inj.state), format!("{}: message key {} was reported as a clean end ({} bytes, trailers {:?}) although it is malformed — {}", inj.item, key, r.bytes, r.clean_end.as_ref().map(|t| t.is_some()), inj.basis));
            }
        }
    }
    for (key, bytes) in &must_deliver {
        let ok = recv.get(&(*key, e.other())).map(|r| r.clean_end.is_some() && r.bytes == *bytes && r.content_ok).unwrap_or(false);
        if !ok && rr.run.panic.is_none() && rr.obs.script_done {
            let got = recv.get(&(*key, e.other())).map(|r| format!("heads {} bytes {} clean_end {} err {:?}", r.heads.len(), r.bytes, r.clean_end.is_some(), r.err.as_ref().map(|x| &x.1.text)));
            out.fail("C09", "tolerance/valid-message", format!("C09/{}/{}/valid-message-not-delivered", role, inj.item), format!("{}: a valid message (key {}, {} body bytes) was not delivered completely: {:?} — {}", inj.item, key, bytes, got, inj.basis));
        }
    }
    if !inj.must_deliver_streams.is_empty() {
        let (sent, _) = views(&rr.run.events);
        for (stream, bytes) in &inj.must_deliver_streams {
            let key = sent.iter().find(|((_, from), m)| *from == e && m.stream == *stream).map(|((k, _), _)| *k);
            if let Some(key) = key {
                // (body content is keyed by request key on the application side, by stream id on the peer's: only the length is compared here)
                let resp_ok = recv.get(&(key, e.other())).map(|r| r.clean_end.is_some() && r.bytes == *bytes).unwrap_or(false);
                // … and the endpoint's own half of the exchange reached the wire completely
                let own_end_on_wire = an.tap.frames.iter().any(|f| f.from == e && f.raw.stream == *stream && matches!(&f.frame, Ok(Frame::Data { end_stream: true, .. }) | Ok(Frame::Headers { end_stream: true, .. })));
                let ok = resp_ok && own_end_on_wire;
                // (the peer waits for these streams: a script that is not done at quiescence means the endpoint's
                // side of them never finished)
                if !ok && rr.run.panic.is_none() && rr.run.end == RunEnd::Quiescent {
                    let got = recv.get(&(key, e.other())).map(|r| format!("heads {} bytes {} clean_end {} err {:?}", r.heads.len(), r.bytes, r.clean_end.is_some(), r.err.as_ref().map(|x| &x.1.text)));
                    out.fail("C09", "tolerance/valid-message", format!("C09/{}/{}/valid-message-not-delivered", role, inj.item), format!("{}: the exchange on stream {} (key {}) did not complete: {:?} — {}", inj.item, stream, key, got, inj.basis));
                }
            }
        }
    }
    let wire_demand = !inj.wire_optional;
    match inj.class {
        Class::Stream if !wire_demand => {}
        Class::Conn => {
            if goaway_err.is_none() {
                out.fail(
                    prop,
                    "reaction/connection-error",
                    sig("no-goaway"),
                    format!("{} in state {}: required reaction is a connection error, but {} sent no GOAWAY with an error code afterwards (frames after: {:?}) — {}", inj.item, inj.state, role, after.iter().take(6).map(|f| f.frame.as_ref().map(|x| x.kind()).unwrap_or("?")).collect::<Vec<_>>(), inj.basis),
                );
            } else if !conn_done_err && rr.run.end == RunEnd::Quiescent && rr.run.panic.is_none() {
                out.fail(prop, "reaction/connection-not-ended", sig("connection-survives-goaway"), format!("{}: GOAWAY({}) was sent but the connection future did not end with an error", inj.item, goaway_err.unwrap()));
            }
        }
        Class::Stream => {
            let r = rst_on(inj.stream);
            if r.is_none() && goaway_err.is_none() {
                out.fail(
                    prop,
                    "reaction/stream-error",
                    sig("no-rst-stream"),
                    format!("{} in state {}: required reaction is at least RST_STREAM on stream {}, but neither RST_STREAM nor GOAWAY followed — {}", inj.item, inj.state, inj.stream, inj.basis),
                );
            } else if r.is_some() && goaway_err.is_none() && !probe_answered && rr.obs.script_done {
                out.fail(prop, "containment/other-streams", sig("other-streams-stop-working"), format!("{}: stream error was signalled but a following request on stream {} got no response", inj.item, case.probe_stream));
            }
        }
        Class::Legal => {
            if any_goaway_err_ever {
                let code = an.tap.frames.iter().find_map(|f| if let (true, Ok(Frame::GoAway { code, .. })) = (f.from == e, &f.frame) { Some(*code) } else { None });
                out.fail(
                    prop,
                    "tolerance/goaway",
                    sig("legal-traffic-ends-connection"),
                    format!("{} in state {}: the RFC permits this, yet {} answered with GOAWAY({:?}) — {}", inj.item, inj.state, role, code, inj.basis),
                );
            } else {
                // (a Legal item that names a stream tolerates resets of that very stream: it is the stream the endpoint
                // itself refused or reset; the demand is that the connection and the other streams go on)
                let bad_rst: Vec<(u32, u32)> = after.iter().filter_map(|f| if let Ok(Frame::Rst { stream, code }) = &f.frame { if *code != 0 && !(inj.stream != 0 && *stream == inj.stream) { Some((*stream, *code)) } else { None } } else { None }).collect();
                if !bad_rst.is_empty() {
                    out.fail(prop, "tolerance/rst", sig("legal-traffic-resets-stream"), format!("{} in state {}: permitted by the RFC, yet RST_STREAM {:?} followed — {}", inj.item, inj.state, bad_rst, inj.basis));
                } else if !probe_answered && rr.obs.script_done && rr.run.panic.is_none() {
                    out.fail(prop, "tolerance/service", sig("no-service-after-legal-traffic"), format!("{}: the following plain request on stream {} was not answered", inj.item, case.probe_stream));
                }
            }
        }
        Class::Either => {}
    }
}

pub struct CatalogueServerEngine;

impl Engine for CatalogueServerEngine {
    type Case = RawCase;
    fn name(&self) -> &'static str {
        "raw-catalogue-server"
    }
    fn tape_lens(&self) -> Vec<usize> {
        vec![200, 301, 242]
    }
    fn gen(&self, tapes: &[Vec<u32>]) -> RawCase {
        gen_catalogue_server(tapes)
    }
    fn rule(&self) -> String {
        "h2 server against the scripted reference peer: generated legal prefix (0–2 earlier exchanges, a target stream driven into one of {none, open, half-closed(remote), closed, reset by peer}) → one item of the RFC 9113 violation / legal-but-unusual catalogue → PING barrier → probe request; read chunking, schedule and server configuration generated; non-trivial = the injected item was delivered to the endpoint; coverage = distinct (item, state) pairs reached (see class histogram)".into()
    }
    fn shrink_iters(&self) -> u32 {
        400
    }
    fn run(&self, case: &RawCase) -> Outcome {
        let rr = run_raw(case);
        let an = analyse_raw(case, &rr);
        let mut out = Outcome::default();
        common_raw_oracles(case, &rr, &an, &mut out);
        check_c09(case, &rr, &an, &mut out);
        out.note = format!("{} wire frames, {} API events, end={:?}, script_done={}", an.tap.frames.len(), rr.run.events.len(), rr.run.end, rr.obs.script_done);
        out
    }
}

pub fn dump_raw(case: &RawCase) {
    let rr = run_raw(case);
    let an = analyse_raw(case, &rr);
    crate::eng_pair::dump_lines(&an.tap, &rr.run);
    println!("inject={:?}", case.inject);
    println!("obs: marks={:?} barriers={:?} script_done={} e_closed={} e_streams={:?}", rr.obs.marks, rr.obs.barriers_done, rr.obs.script_done, rr.obs.e_closed, rr.obs.e_streams);
}

// ------------------------------------------------------------ C13: HTTP validity, h2 server receives generated requests

use crate::refmodel::hpack::Field;
use crate::refmodel::http::{self, Kind as HKind};

fn fl(v: &[(String, String)]) -> Vec<Field> {
    v.iter().map(|(n, x)| Field::new(n.as_bytes(), x.as_bytes())).collect()
}

/// Apply one generated mutation to a header list; returns its label.
fn mutate_fields(t: &mut Tape, f: &mut Vec<(String, String)>, request: bool) -> &'static str {
    let pseudo_idx: Vec<usize> = f.iter().enumerate().filter(|(_, x)| x.0.starts_with(':')).map(|(i, _)| i).collect();
    match t.below(14) {
        0 if !pseudo_idx.is_empty() => {
            let i = *t.pick(&pseudo_idx);
            f.remove(i);
            "drop-pseudo"
        }
        1 if !pseudo_idx.is_empty() => {
            let i = *t.pick(&pseudo_idx);
            let x = f[i].clone();
            f.insert(i + 1, x);
            "duplicate-pseudo"
        }
        2 if !pseudo_idx.is_empty() => {
            let i = *t.pick(&pseudo_idx);
            let x = f.remove(i);
            f.push(x);
            "pseudo-after-regular"
        }
        3 => {
            f.insert(0, (":foo".into(), "bar".into()));
            "unknown-pseudo"
        }
        4 => {
            if request {
                f.insert(0, (":status".into(), "200".into()));
            } else {
                // any of the five request pseudo-header fields
                let (n, v) = *t.pick(&[(":path", "/"), (":method", "GET"), (":scheme", "https"), (":authority", "example.com"), (":protocol", "websocket")]);
                let at = t.below(f.iter().filter(|x| x.0.starts_with(':')).count() + 1);
                f.insert(at, (n.into(), v.into()));
            }
            "wrong-direction-pseudo"
        }
        5 => {
            f.push(("X-Upper".into(), "1".into()));
            "uppercase-name"
        }
        6 => {
            let n = *t.pick(&["connection", "keep-alive", "proxy-connection", "transfer-encoding", "upgrade"]);
            f.push((n.into(), if n == "transfer-encoding" { "chunked".into() } else { "x".into() }));
            "connection-specific"
        }
        7 => {
            f.push(("te".into(), t.pick(&["trailers", "gzip", "trailers, deflate", ""]).to_string()));
            "te"
        }
        8 => {
            if let Some(p) = f.iter_mut().find(|x| x.0 == ":path") {
                p.1 = String::new();
            }
            "empty-path"
        }
        9 if request => {
            f.insert(pseudo_idx.len(), (":protocol".into(), "websocket".into()));
            "add-protocol"
        }
        10 if request => {
            if let Some(m) = f.iter_mut().find(|x| x.0 == ":method") {
                m.1 = "CONNECT".into();
            }
            "method-connect"
        }
        11 => {
            // a valid oddity: unusual but legal regular fields
            f.push(("x-odd".into(), "a, b;c=d".into()));
            f.push(("accept".into(), "".into()));
            "legal-odd-fields"
        }
        12 => {
            f.push(("cookie".into(), "a=b".into()));
            f.push(("cookie".into(), "c=d".into()));
            "legal-cookie-crumbs"
        }
        _ => "none",
    }
}

pub fn gen_http_server(tapes: &[Vec<u32>]) -> RawCase {
    let mut t = Tape::new(&tapes[0]);
    let cfg = plain_cfg();
    let mut script: Vec<PStep> = vec![PStep::Barrier];
    let s = 1u32;
    // base shape
    let shape = *t.pick(&["get", "post", "post-cl", "connect", "ext-connect", "get-cl0"]);
    let mut fields: Vec<(String, String)> = match shape {
        "connect" => vec![(":method".into(), "CONNECT".into()), (":authority".into(), "example.com:443".into())],
        "ext-connect" => vec![(":method".into(), "CONNECT".into()), (":scheme".into(), "https".into()), (":authority".into(), "example.com".into()), (":path".into(), "/chat".into()), (":protocol".into(), "websocket".into())],
        "post" | "post-cl" => vec![(":method".into(), "POST".into()), (":scheme".into(), "https".into()), (":authority".into(), "example.com".into()), (":path".into(), "/s/1".into())],
        _ => vec![(":method".into(), "GET".into()), (":scheme".into(), "https".into()), (":authority".into(), "example.com".into()), (":path".into(), "/s/1".into())],
    };
    fields.push(("x-id".into(), "1".into()));
    let has_body = matches!(shape, "post" | "post-cl" | "connect");
    let data_len: usize = if has_body { *t.pick(&[0usize, 1, 5, 100, 3000]) } else { 0 };
    let mut cl_label = "no-content-length";
    if shape == "post-cl" || shape == "get-cl0" || t.chance(1, 6) {
        let (v, l): (String, &'static str) = match t.below(7) {
            0 | 1 => (data_len.to_string(), "cl-equal"),
            2 => ((data_len + 1 + t.below(5)).to_string(), "cl-more-than-data"),
            3 if data_len > 0 => ((data_len - 1).to_string(), "cl-less-than-data"),
            4 => ("12x".into(), "cl-unparsable"),
            5 => ("-1".into(), "cl-unparsable"),
            _ => (data_len.to_string(), "cl-equal"),
        };
        fields.push(("content-length".into(), v));
        cl_label = l;
        if t.chance(1, 8) {
            fields.push(("content-length".into(), (data_len + 7).to_string()));
            cl_label = "cl-two-differing";
        }
    }
    // at most one mutation per header section: reason sets stay (near) singletons, so that each
    // leniency has its own signature
    let nm = t.weighted(&[3, 5]);
    let mut labels: Vec<&'static str> = Vec::new();
    for _ in 0..nm {
        let l = mutate_fields(&mut t, &mut fields, true);
        if l != "none" {
            labels.push(l);
        }
    }
    // trailers
    let mut trailers: Option<(Vec<(String, String)>, bool, &'static str)> = None;
    if has_body && t.chance(1, 3) {
        let mut tf = vec![("x-t".to_string(), "1".to_string())];
        let mut lab = "trailers-valid";
        let mut es = true;
        match t.below(4) {
            0 => {
                tf.insert(0, (":status".into(), "200".into()));
                lab = "trailers-with-pseudo";
            }
            1 => {
                es = false;
                lab = "trailers-without-end-stream";
            }
            _ => {}
        }
        trailers = Some((tf, es, lab));
    }
    let verdict = http::check(HKind::Request, &fl(&fields), !has_body, false);
    let head_ok = verdict.is_valid();
    let body_ok = http::body_agrees(&verdict, data_len as u64, false);
    let tr_ok = trailers.as_ref().map(|(tf, es, _)| http::check(HKind::Trailers, &fl(tf), *es, false).is_valid()).unwrap_or(true);
    // script
    script.push(PStep::Mark("inject".into()));
    let splits = if t.chance(1, 3) { vec![1 + t.below(40), 3 + t.below(80)] } else { vec![] };
    script.push(PStep::Headers { stream: s, fields: fields.clone(), end_stream: !has_body, splits, pad: None, prio: None, enc: t.below(3) as u8 });
    if has_body {
        let end_on_data = trailers.is_none();
        if data_len > 0 && t.bool() {
            let k = 1 + t.below(data_len);
            script.push(PStep::Data { stream: s, len: k, pad: None, end_stream: false, force: false });
            script.push(PStep::Data { stream: s, len: data_len - k, pad: if t.chance(1, 4) { Some(3) } else { None }, end_stream: end_on_data, force: false });
        } else {
            script.push(PStep::Data { stream: s, len: data_len, pad: None, end_stream: end_on_data, force: false });
        }
        if let Some((tf, es, _)) = &trailers {
            script.push(PStep::Headers { stream: s, fields: tf.clone(), end_stream: *es, splits: vec![], pad: None, prio: None, enc: 0 });
        }
    }
    let mut item = format!("request:{}:{}", shape, cl_label);
    for l in &labels {
        item.push(':');
        item.push_str(l);
    }
    if let Some((_, _, l)) = &trailers {
        item.push(':');
        item.push_str(l);
    }
    let reasons = verdict.malformed.join("+");
    let mut inj = Inject {
        item,
        state: if head_ok { if body_ok && tr_ok { "valid".into() } else if !body_ok { format!("content-length-mismatch:{}", cl_label) } else { trailers.as_ref().map(|x| x.2.to_string()).unwrap_or_default() } } else { reasons.clone() },
        class: Class::Legal,
        stream: s,
        basis: "RFC 9113 §8.1.1 malformed messages; §8.2 field validity; §8.3 pseudo-header rules; §8.5 CONNECT".into(),
        never_surface: vec![],
        must_deliver: vec![],
        must_deliver_streams: vec![],
        no_head: vec![],
        no_clean_end: vec![],
        prop: "C13".into(),
        wire_optional: false,
    };
    if !head_ok {
        inj.class = Class::Stream;
        inj.never_surface = vec![s];
        inj.no_head = vec![1];
        inj.no_clean_end = vec![1];
    } else if !body_ok || !tr_ok {
        inj.class = Class::Stream;
        inj.no_clean_end = vec![1];
        // the server's own END_STREAM may already have closed the stream both ways: then the error only
        // shows on the handle
        inj.wire_optional = true;
    } else {
        inj.must_deliver = vec![(1, data_len)];
    }
    let probe = 3u32;
    script.push(PStep::Mark("after".into()));
    script.push(PStep::Barrier);
    script.push(hdr(probe, "GET", true));
    script.push(PStep::WaitEnd(probe));
    script.push(PStep::Barrier);
    let spec = RawSpec { peer_settings: vec![], script, grant: Grant::Eager, close_at_end: true };
    let base = base_case(&mut t, tapes, cfg, vec![]);
    RawCase { h2_side: Side::Server, base, spec, inject: Some(inj), probe_stream: probe, e_out_cap: None }
}

/// h2 client: the server promises a request whose header section is generated / mutated (C13: pushes).
fn gen_http_client_push(t: &mut Tape, tapes: &[Vec<u32>]) -> RawCase {
    let cfg = plain_cfg();
    let r1 = default_req(1);
    let mut r2 = default_req(2);
    r2.delay = 60;
    let reqs = vec![r1, r2];
    let mut script: Vec<PStep> = vec![PStep::Barrier, PStep::WaitStreams(1), PStep::Mark("inject".into())];
    let method = *t.pick(&["GET", "GET", "HEAD", "POST", "OPTIONS"]);
    let mut fields = push_fields("/p/gen", method);
    fields.push(("x-p".into(), "1".into()));
    let mut labels: Vec<&'static str> = Vec::new();
    if t.chance(1, 3) {
        fields.push(("content-length".into(), (*t.pick(&["0", "0", "5", "x"])).to_string()));
        labels.push("with-content-length");
    }
    let nm = t.weighted(&[3, 5]);
    for _ in 0..nm {
        let l = mutate_fields(t, &mut fields, true);
        if l != "none" {
            labels.push(l);
        }
    }
    let verdict = http::check(HKind::PushRequest, &fl(&fields), false, false);
    let ok = verdict.is_valid();
    script.push(PStep::PushPromise { stream: 1, promised: 2, fields: fields.clone(), splits: if t.chance(1, 3) { vec![1 + t.below(12)] } else { vec![] }, pad: None });
    if ok {
        script.push(PStep::Headers { stream: 2, fields: vec![(":status".into(), "200".into())], end_stream: true, splits: vec![], pad: None, prio: None, enc: 0 });
    }
    // the parent's own response is plain
    script.push(PStep::Respond { nth: 0, fields: vec![(":status".into(), "200".into())], end_stream: true, splits: vec![] });
    let mut item = format!("push:{}", method);
    for l in &labels {
        item.push(':');
        item.push_str(l);
    }
    let mut inj = Inject {
        item,
        state: if ok { "valid-push".into() } else { format!("push:{}", verdict.malformed.join("+")) },
        // (h2 fails the parent stream for a header section that is malformed at the HPACK/pseudo level and the promised
        // stream for what it detects later; the property demands "the stream (or connection) is failed" and, above
        // all, that nothing is handed to the application: the wire reaction is not pinned to one stream)
        class: if ok { Class::Legal } else { Class::Either },
        stream: 2,
        basis: "RFC 9113 §8.4.1 promised requests (safe, cacheable, no body) and §8.1.1 / §8.3 header section rules".into(),
        never_surface: if ok { vec![] } else { vec![2] },
        must_deliver: vec![],
        must_deliver_streams: vec![],
        no_head: if ok { vec![] } else { vec![1000] },
        no_clean_end: vec![],
        prop: "C13".into(),
        wire_optional: false,
    };
    if ok {
        // the parent's response must arrive whatever happens to the push
        inj.must_deliver = vec![(1, 0)];
    }
    script.push(PStep::Mark("after".into()));
    script.push(PStep::Barrier);
    script.push(PStep::WaitStreams(2));
    script.push(PStep::Respond { nth: 1, fields: vec![(":status".into(), "200".into())], end_stream: true, splits: vec![] });
    script.push(PStep::Barrier);
    let spec = RawSpec { peer_settings: vec![], script, grant: Grant::Eager, close_at_end: false };
    let mut base = base_case(t, tapes, cfg, reqs);
    base.drop_send_request_at_end = true;
    RawCase { h2_side: Side::Client, base, spec, inject: Some(inj), probe_stream: 2, e_out_cap: None }
}

pub fn gen_http_client(tapes: &[Vec<u32>]) -> RawCase {
    let mut t = Tape::new(&tapes[0]);
    if t.chance(1, 4) {
        return gen_http_client_push(&mut t, tapes);
    }
    let cfg = plain_cfg();
    let method = *t.pick(&["GET", "GET", "HEAD", "POST"]);
    let mut r1 = default_req(1);
    r1.method = method.into();
    let mut r2 = default_req(2);
    r2.delay = 60;
    let reqs = vec![r1, r2];
    let mut script: Vec<PStep> = vec![PStep::Barrier, PStep::WaitStreams(1), PStep::Mark("inject".into())];
    // interim responses
    let n_interim = if t.chance(1, 4) { 1 + t.below(2) } else { 0 };
    let mut interim_bad = false;
    for i in 0..n_interim {
        let es = t.chance(1, 8);
        if es {
            interim_bad = true;
        }
        script.push(PStep::Respond { nth: 0, fields: vec![(":status".into(), if i == 0 { "103".into() } else { "100".into() }), ("x-i".into(), i.to_string())], end_stream: es, splits: vec![] });
        if es {
            break;
        }
    }
    let status = *t.pick(&["200", "200", "204", "304", "404", "500"]);
    let mut fields: Vec<(String, String)> = vec![(":status".into(), status.into()), ("x-r".into(), "1".into())];
    let no_body_status = status == "204" || status == "304";
    let data_len: usize = if method == "HEAD" || no_body_status { if t.chance(1, 6) { 5 } else { 0 } } else { *t.pick(&[0usize, 1, 5, 100, 3000]) };
    let mut cl_label = "no-content-length";
    if t.chance(1, 2) {
        let (v, l): (String, &'static str) = match t.below(6) {
            0 | 1 => (data_len.to_string(), "cl-equal"),
            2 => ((data_len + 1 + t.below(5)).to_string(), "cl-more-than-data"),
            3 if data_len > 0 => ((data_len - 1).to_string(), "cl-less-than-data"),
            4 if method != "HEAD" => ("1 2".into(), "cl-unparsable"),
            _ => (data_len.to_string(), "cl-equal"),
        };
        fields.push(("content-length".into(), v));
        cl_label = l;
        // (not for HEAD: h2 does not look at content-length of a HEAD response at all, and the RFC ties
        // the field to a body that is not there — no demand)
        if method != "HEAD" && t.chance(1, 8) {
            fields.push(("content-length".into(), (data_len + 7).to_string()));
            cl_label = "cl-two-differing";
        }
    }
    let nm = t.weighted(&[3, 5]);
    let mut labels: Vec<&'static str> = Vec::new();
    for _ in 0..nm {
        let l = mutate_fields(&mut t, &mut fields, false);
        if l != "none" {
            labels.push(l);
        }
    }
    let mut trailers: Option<(Vec<(String, String)>, bool, &'static str)> = None;
    if data_len > 0 && t.chance(1, 3) {
        let mut tf = vec![("x-t".to_string(), "1".to_string())];
        let mut lab = "trailers-valid";
        let mut es = true;
        match t.below(4) {
            0 => {
                tf.insert(0, (":status".into(), "200".into()));
                lab = "trailers-with-pseudo";
            }
            1 => {
                es = false;
                lab = "trailers-without-end-stream";
            }
            _ => {}
        }
        trailers = Some((tf, es, lab));
    }
    let head_es = data_len == 0 && trailers.is_none() && t.bool();
    let verdict = http::check(HKind::Response, &fl(&fields), head_es, false);
    let head_ok = verdict.is_valid() && !interim_bad;
    let exempt = method == "HEAD" || no_body_status;
    let body_ok = http::body_agrees(&verdict, data_len as u64, exempt) && !(exempt && data_len > 0 && false);
    let tr_ok = trailers.as_ref().map(|(tf, es, _)| http::check(HKind::Trailers, &fl(tf), *es, false).is_valid()).unwrap_or(true);
    if !interim_bad {
        let splits = if t.chance(1, 3) { vec![1 + t.below(10)] } else { vec![] };
        script.push(PStep::Respond { nth: 0, fields: fields.clone(), end_stream: head_es, splits });
        if !head_es {
            let end_on_data = trailers.is_none();
            script.push(PStep::RespondData { nth: 0, len: data_len, pad: if t.chance(1, 5) { Some(2) } else { None }, end_stream: end_on_data });
            if let Some((tf, es, _)) = &trailers {
                script.push(PStep::Respond { nth: 0, fields: tf.clone(), end_stream: *es, splits: vec![] });
            }
        }
    }
    let mut item = format!("response:{}:{}:{}", method, status, cl_label);
    if n_interim > 0 {
        item.push_str(if interim_bad { ":interim-with-end-stream" } else { ":interim" });
    }
    for l in &labels {
        item.push(':');
        item.push_str(l);
    }
    if let Some((_, _, l)) = &trailers {
        item.push(':');
        item.push_str(l);
    }
    let mut reasons = verdict.malformed.join("+");
    if interim_bad {
        reasons = "interim-response-with-end-stream".into();
    }
    // an exempt response (HEAD/204/304) that nevertheless carries DATA: RFC leaves the reaction open
    // … and so is one that carries a non-zero content-length and ends with an (empty) DATA frame instead of
    // END_STREAM on HEADERS (RFC allows, h2 rejects): no demand either way
    let cl_nonzero = verdict.content_lengths.iter().any(|c| matches!(c, Some(n) if *n != 0));
    let either = exempt && (data_len > 0 || (cl_nonzero && !head_es));
    let mut inj = Inject {
        item,
        state: if head_ok { if body_ok && tr_ok { "valid".into() } else if !body_ok { format!("content-length-mismatch:{}", cl_label) } else { trailers.as_ref().map(|x| x.2.to_string()).unwrap_or_default() } } else { reasons },
        class: Class::Legal,
        stream: 1,
        basis: "RFC 9113 §8.1 (message framing, interim responses), §8.1.1 malformed messages, §8.2, §8.3.2 response pseudo-header".into(),
        never_surface: vec![],
        must_deliver: vec![],
        must_deliver_streams: vec![],
        no_head: vec![],
        no_clean_end: vec![],
        prop: "C13".into(),
        wire_optional: false,
    };
    if either {
        inj.class = Class::Either;
    } else if !head_ok {
        inj.class = Class::Stream;
        inj.no_head = if interim_bad { vec![] } else { vec![1] };
        inj.no_clean_end = vec![1];
        // the client's request may be complete and the malformed frame carries END_STREAM: closed both ways
        inj.wire_optional = true;
    } else if !body_ok || !tr_ok {
        inj.class = Class::Stream;
        inj.no_clean_end = vec![1];
        inj.wire_optional = true;
    } else {
        inj.must_deliver = vec![(1, data_len)];
    }
    script.push(PStep::Mark("after".into()));
    script.push(PStep::Barrier);
    script.push(PStep::WaitStreams(2));
    script.push(PStep::Respond { nth: 1, fields: vec![(":status".into(), "200".into())], end_stream: true, splits: vec![] });
    script.push(PStep::Barrier);
    let spec = RawSpec { peer_settings: vec![], script, grant: Grant::Eager, close_at_end: false };
    let mut base = base_case(&mut t, tapes, cfg, reqs);
    base.drop_send_request_at_end = true;
    RawCase { h2_side: Side::Client, base, spec, inject: Some(inj), probe_stream: 2, e_out_cap: None }
}

pub struct HttpEngine {
    pub server: bool,
}

impl Engine for HttpEngine {
    type Case = RawCase;
    fn name(&self) -> &'static str {
        if self.server {
            "raw-http-server"
        } else {
            "raw-http-client"
        }
    }
    fn tape_lens(&self) -> Vec<usize> {
        vec![120, 301, 242]
    }
    fn gen(&self, tapes: &[Vec<u32>]) -> RawCase {
        if self.server {
            gen_http_server(tapes)
        } else {
            gen_http_client(tapes)
        }
    }
    fn rule(&self) -> String {
        "header sections from a grammar (request/response/interim/trailers shape + 0–2 mutations: drop/duplicate/move/unknown/wrong-direction pseudo-header, uppercase, connection-specific, TE, empty :path, :protocol, CONNECT forms, content-length vs DATA incl. HEAD/204/304) sent by the reference peer, CONTINUATION splits and read chunking generated; verdict from the RFC 9113 §8 predicate (refmodel::http): malformed ⇒ never delivered as valid / never a clean end, valid ⇒ delivered completely; non-trivial = the message was delivered to the endpoint; distinct (shape, mutation set) pairs are listed in the class histogram".into()
    }
    fn shrink_iters(&self) -> u32 {
        400
    }
    fn run(&self, case: &RawCase) -> Outcome {
        let rr = run_raw(case);
        let an = analyse_raw(case, &rr);
        let mut out = Outcome::default();
        common_raw_oracles(case, &rr, &an, &mut out);
        check_c09(case, &rr, &an, &mut out);
        out.note = format!("{} wire frames, {} API events, end={:?}, script_done={}", an.tap.frames.len(), rr.run.events.len(), rr.run.end, rr.obs.script_done);
        out
    }
}

// ------------------------------------------------------------ C09, client under test: server-side violations (push, responses, stream states)

pub const N_ITEMS_CLIENT: usize = 30;

fn push_fields(path: &str, method: &str) -> Vec<(String, String)> {
    vec![(":method".into(), method.into()), (":scheme".into(), "https".into()), (":authority".into(), "example.com".into()), (":path".into(), path.into())]
}

/// h2 client with one request in a chosen state (+ a later probe request); the scripted server injects one item.
pub fn gen_catalogue_client(tapes: &[Vec<u32>]) -> RawCase {
    let mut t = Tape::new(&tapes[0]);
    let mut cfg = plain_cfg();
    let k = t.below(N_ITEMS_CLIENT);
    if k == 3 {
        cfg.enable_push = Some(false);
    }
    if t.chance(1, 4) {
        cfg.header_table = Some(*t.pick(&[0u32, 100, 4096]));
    }
    cfg.reset_dur_zero = t.chance(1, 3);
    // state of the client's request (stream 1) when the item arrives
    let state = *t.pick(&["half-closed-local", "open", "answered-open", "closed", "promised", "pushed-open"]);
    let mut r1 = default_req(1);
    if state == "open" {
        r1.method = "POST".into();
        r1.req.eos_on_head = false;
        r1.req.chunks = vec![Chunk { len: 10, reserve: false, cuts: vec![], delay: 400, hold: 0 }];
    }
    let mut r2 = default_req(2);
    r2.delay = 120;
    let reqs = vec![r1, r2];
    let mut script: Vec<PStep> = vec![PStep::Barrier, PStep::WaitStreams(1)];
    let ok200 = |es: bool| PStep::Respond { nth: 0, fields: vec![(":status".into(), "200".into())], end_stream: es, splits: vec![] };
    match state {
        "answered-open" => script.push(ok200(false)),
        "closed" => {
            script.push(ok200(false));
            script.push(PStep::RespondData { nth: 0, len: 5, pad: None, end_stream: true });
            script.push(PStep::WaitEnd(1));
        }
        "promised" => script.push(PStep::PushPromise { stream: 1, promised: 2, fields: push_fields("/p/2", "GET"), splits: vec![], pad: None }),
        "pushed-open" => {
            script.push(PStep::PushPromise { stream: 1, promised: 2, fields: push_fields("/p/2", "GET"), splits: vec![], pad: None });
            script.push(PStep::Headers { stream: 2, fields: vec![(":status".into(), "200".into())], end_stream: false, splits: vec![], pad: None, prio: None, enc: 0 });
        }
        _ => {}
    }
    script.push(PStep::Barrier);
    script.push(PStep::Mark("inject".into()));
    let has_push = matches!(state, "promised" | "pushed-open");
    let next_even: u32 = if has_push { 4 } else { 2 };
    let hdr_status = vec![0x88u8]; // :status 200
    let pp = |stream: u32, promised: u32, fields: Vec<(String, String)>| PStep::PushPromise { stream, promised, fields, splits: vec![], pad: None };
    let mk = |item: &str, class: Class, stream: u32, basis: &str, never: Vec<u32>| Inject { item: item.into(), state: state.into(), class, stream, basis: basis.into(), never_surface: never, must_deliver: vec![], must_deliver_streams: vec![], no_head: vec![], no_clean_end: vec![], prop: "C09".into(), wire_optional: false };
    let parent_open = state != "closed";
    let mut item: Option<(Vec<PStep>, Inject)> = None;
    for round in 0..40 {
        let k = if round == 0 { k } else { t.below(N_ITEMS_CLIENT) };
        let it: Option<(Vec<PStep>, Inject)> = match k {
            // ---- PUSH_PROMISE misuse (§6.6, §8.4)
            0 if has_push => Some((vec![pp(2, 4, push_fields("/p/4", "GET"))], mk("push-promise-on-pushed-stream", Class::Conn, 0, "§6.6 PUSH_PROMISE MUST only be sent on a peer-initiated stream (here: a stream the client opened)", vec![4]))),
            1 if parent_open => Some((vec![pp(1, next_even + 3, push_fields("/p/odd", "GET"))], mk("push-promise-odd-promised-id", Class::Conn, 0, "§5.1.1 streams initiated by a server MUST use even identifiers", vec![next_even + 3]))),
            2 if parent_open => Some((vec![pp(1, next_even + 4, push_fields("/p/a", "GET")), pp(1, next_even, push_fields("/p/b", "GET"))], mk("push-promise-id-not-increasing", Class::Conn, 0, "§5.1.1 identifiers MUST be numerically greater than all streams the endpoint has opened or reserved", vec![next_even]))),
            3 if cfg.enable_push == Some(false) && parent_open && !has_push => Some((vec![pp(1, 2, push_fields("/p/2", "GET"))], mk("push-promise-although-disabled", Class::Conn, 0, "§6.6 / §8.4 PUSH_PROMISE MUST NOT be sent if SETTINGS_ENABLE_PUSH of the peer is 0: connection error PROTOCOL_ERROR", vec![2]))),
            4 => Some((vec![pp(101, next_even, push_fields("/p/idle", "GET"))], mk("push-promise-on-idle-stream", Class::Conn, 0, "§6.6 the parent stream must be open or half-closed (remote) from the sender's view; idle is a connection error", vec![next_even]))),
            5 if !has_push => Some((vec![PStep::Headers { stream: 2, fields: vec![(":status".into(), "200".into())], end_stream: false, splits: vec![], pad: None, prio: None, enc: 0 }], mk("headers-on-unpromised-server-stream", Class::Conn, 0, "§8.4 / §5.1 a server cannot open a stream with HEADERS: only promised streams exist", vec![2]))),
            6 if state == "promised" => Some((vec![fr(Frame::Data { stream: 2, end_stream: false, pad: None, data: vec![1, 2, 3] })], mk("data-on-reserved-stream", Class::Conn, 0, "§5.1 reserved (remote): any frame other than HEADERS, RST_STREAM or PRIORITY is a connection error", vec![]))),
            7 if state == "promised" => Some((vec![fr(Frame::WinUp { stream: 2, inc: 10, inc_r: false })], mk("window-update-on-reserved-remote-stream", Class::Conn, 0, "§5.1 reserved (remote)", vec![]))),
            8 if state == "promised" => Some((vec![fr(Frame::Rst { stream: 2, code: 8 })], mk("rst-on-promised-stream", Class::Legal, 2, "§5.1 reserved (remote): the server may cancel its promise with RST_STREAM", vec![]))),
            9 if parent_open && !has_push => Some((vec![pp(1, 2, push_fields("/p/unsafe", "POST"))], mk("pushed-request-unsafe-method", Class::Stream, 2, "§8.4.1 promised requests MUST be safe and cacheable: stream error on the promised stream", vec![2]))),
            10 if parent_open => Some((vec![PStep::PushPromise { stream: 1, promised: next_even, fields: push_fields("/p/padded", "GET"), splits: vec![3, 9], pad: Some(t.below(200) as u8) }], mk("padded-fragmented-push-promise", Class::Legal, 0, "§6.6 padding and CONTINUATION are allowed on PUSH_PROMISE", vec![]))),
            11 if parent_open => Some((vec![rawf(wire::T_PUSH, 0x0, 1, [&next_even.to_be_bytes()[..], &[0x82u8][..]].concat()), rawf(wire::T_CONT, 0x4, 3, vec![0x84])], mk("continuation-of-push-promise-on-other-stream", Class::Conn, 0, "§6.10 CONTINUATION must follow on the same stream", vec![next_even]))),
            12 if parent_open => Some((vec![rawf(wire::T_PUSH, 0x4, 1, vec![0, 0, 0])], mk("push-promise-too-short", Class::Conn, 0, "§4.2 / §6.6 frame too small for the promised stream id", vec![]))),
            // ---- responses (§8.1, §5.1)
            13 if state == "half-closed-local" || state == "open" => Some((vec![PStep::RespondData { nth: 0, len: 3, pad: None, end_stream: false }], mk("data-before-response-headers", Class::Stream, 1, "§8.1 a response starts with HEADERS; DATA first is malformed (at least a stream error)", vec![]))),
            14 => Some((vec![PStep::Headers { stream: 101, fields: vec![(":status".into(), "200".into())], end_stream: true, splits: vec![], pad: None, prio: None, enc: 0 }], mk("response-on-idle-stream", Class::Conn, 0, "§5.1 idle: HEADERS on a stream the client never opened (odd id, higher than any it used)", vec![]))),
            15 if state == "answered-open" => Some((vec![ok200(false)], mk("second-response-head-without-end-stream", Class::Stream, 1, "§8.1 a HEADERS frame after the response head is a trailer section and MUST carry END_STREAM", vec![]))),
            16 if state == "closed" => Some((vec![PStep::RespondData { nth: 0, len: 2, pad: None, end_stream: false }], mk("data-on-closed-stream", Class::Stream, 1, "§5.1 closed: stream error STREAM_CLOSED (or connection error)", vec![]))),
            17 if state == "closed" => Some((vec![fr(Frame::WinUp { stream: 1, inc: 5, inc_r: false }), fr(Frame::Rst { stream: 1, code: 0 })], mk("window-update-and-rst-on-closed-stream", Class::Legal, 1, "§5.1 closed: WINDOW_UPDATE and RST_STREAM may arrive for a short period", vec![]))),
            // ---- role-independent framing rows (as for the server)
            18 => Some((vec![rawf(wire::T_DATA, 0, 0, vec![1])], mk("data-on-stream-0", Class::Conn, 0, "§6.1", vec![]))),
            19 => Some((vec![rawf(wire::T_PING, 0, 0, vec![0; 7])], mk("ping-len-7", Class::Conn, 0, "§6.7", vec![]))),
            20 => Some((vec![rawf(wire::T_SETTINGS, 0, 0, vec![0, 2, 0, 0, 0, 1])], mk("settings-enable-push-1-from-server", Class::Conn, 0, "§6.5.2 a client MUST treat ENABLE_PUSH other than 0 from a server as a connection error", vec![]))),
            21 => Some((vec![rawf(wire::T_GOAWAY, 0, 1, vec![0; 8])], mk("goaway-on-stream-1", Class::Conn, 0, "§6.8", vec![]))),
            22 => Some((vec![rawf(wire::T_WINUP, 0, 0, vec![0, 0, 0, 0])], mk("window-update-0-connection", Class::Conn, 0, "§6.9", vec![]))),
            23 => Some((vec![rawf(wire::T_HEADERS, 0x5, 1, vec![0x80])], mk("response-hpack-index-0", Class::Conn, 0, "§4.3 COMPRESSION_ERROR", vec![]))),
            24 => Some((vec![rawf(wire::T_CONT, 0x4, 1, hdr_status.clone())], mk("continuation-without-block", Class::Conn, 0, "§6.10", vec![]))),
            25 => Some((vec![fr(Frame::Settings { ack: true, params: vec![] })], mk("stray-settings-ack", Class::Conn, 0, "property C14", vec![]))),
            26 => Some((vec![rawf(0x0b + t.below(200) as u8, t.below(256) as u8, 0, t.bytes(9)), rawf(0x0b + t.below(200) as u8, 0, 1, t.bytes(4))], mk("unknown-frame-types", Class::Legal, 0, "§4.1 unknown frame types MUST be ignored", vec![]))),
            27 => Some((vec![fr(Frame::Priority { stream: 1, prio: Prio { exclusive: false, dep: 0, weight: 9 } }), fr(Frame::Priority { stream: 102, prio: Prio { exclusive: true, dep: 1, weight: 1 } })], mk("priority-frames", Class::Legal, 0, "§6.3 PRIORITY in any state", vec![]))),
            28 => Some((vec![fr(Frame::Settings { ack: false, params: vec![(0x0a0a, 7), (4, 70000), (3, 0), (3, 100)] })], mk("settings-unknown-and-repeated", Class::Legal, 0, "§6.5", vec![]))),
            29 if state == "half-closed-local" => Some((vec![rawf(wire::T_HEADERS, 0x8 | 0x4, 1, vec![200, 0x88])], mk("response-headers-pad-ge-length", Class::Conn, 0, "§6.2 padding exceeding the payload", vec![]))),
            _ => None,
        };
        if let Some(x) = it {
            item = Some(x);
            break;
        }
    }
    let (steps, inj) = item.unwrap_or_else(|| (vec![rawf(wire::T_DATA, 0, 0, vec![1])], mk("data-on-stream-0", Class::Conn, 0, "§6.1", vec![])));
    script.extend(steps);
    script.push(PStep::Mark("after".into()));
    let expect_alive = inj.class != Class::Conn;
    if expect_alive {
        script.push(PStep::Barrier);
        script.push(PStep::WaitStreams(2));
        script.push(PStep::Respond { nth: 1, fields: vec![(":status".into(), "200".into())], end_stream: true, splits: vec![] });
        script.push(PStep::Barrier);
    } else {
        script.push(PStep::Yield(30));
    }
    let spec = RawSpec { peer_settings: vec![], script, grant: Grant::Eager, close_at_end: true };
    let base = base_case(&mut t, tapes, cfg, reqs);
    RawCase { h2_side: Side::Client, base, spec, inject: Some(inj), probe_stream: 2, e_out_cap: None }
}

pub struct CatalogueClientEngine;

impl Engine for CatalogueClientEngine {
    type Case = RawCase;
    fn name(&self) -> &'static str {
        "raw-catalogue-client"
    }
    fn tape_lens(&self) -> Vec<usize> {
        vec![120, 301, 242]
    }
    fn gen(&self, tapes: &[Vec<u32>]) -> RawCase {
        gen_catalogue_client(tapes)
    }
    fn rule(&self) -> String {
        format!("h2 client with one request driven into a state (awaiting the response with or without its own body finished, answered and open, closed, with a promised stream reserved or a pushed response open) receives one of {} catalogue rows from a scripted server: PUSH_PROMISE misuse (on a pushed stream, odd / non-increasing promised id, although disabled, on an idle stream, too short, continued on another stream, unsafe method), frames on reserved streams, responses out of place (DATA first, on idle streams, second head, on closed streams), role-independent framing / SETTINGS / HPACK rows and legal-but-unusual traffic; generated chunking and schedule; oracle = required class of reaction per row, forbidden streams never surface as pushes, and a later request of the client is still answered when the connection must survive; non-trivial = the injection was delivered", N_ITEMS_CLIENT)
    }
    fn shrink_iters(&self) -> u32 {
        300
    }
    fn run(&self, case: &RawCase) -> Outcome {
        let rr = run_raw(case);
        let an = analyse_raw(case, &rr);
        let mut out = Outcome::default();
        common_raw_oracles(case, &rr, &an, &mut out);
        check_c09(case, &rr, &an, &mut out);
        out.note = format!("{} wire frames, {} API events, end={:?}, script_done={}", an.tap.frames.len(), rr.run.events.len(), rr.run.end, rr.obs.script_done);
        out
    }
}
