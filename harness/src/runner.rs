//! Parallel proptest driver, evidence writer, known-findings handling.

use proptest::strategy::{Strategy, ValueTree};
use proptest::test_runner::{Config, RngAlgorithm, TestCaseError, TestError, TestRng, TestRunner};
use serde::de::DeserializeOwned;
use serde::Serialize;
use serde_json::{json, Value};
use std::cell::RefCell;
use std::collections::{BTreeMap, HashSet};
use std::path::{Path, PathBuf};
use std::sync::atomic::{AtomicBool, AtomicU64, Ordering};
use std::sync::Mutex;
use std::time::Instant;

#[derive(Clone, Copy, Debug, PartialEq, Eq)]
pub enum Tier {
    Quick,
    Thorough,
}

impl Tier {
    pub fn name(self) -> &'static str {
        match self {
            Tier::Quick => "quick",
            Tier::Thorough => "thorough",
        }
    }
}

#[derive(Clone, Debug, Serialize, serde::Deserialize)]
pub struct Violation {
    pub property: String,
    /// which oracle fired
    pub oracle: String,
    /// discriminating facts of the failure; known findings are keyed by this
    pub signature: String,
    pub detail: String,
}

impl Violation {
    pub fn new(property: &str, oracle: &str, signature: impl Into<String>, detail: impl Into<String>) -> Violation {
        Violation { property: property.into(), oracle: oracle.into(), signature: signature.into(), detail: detail.into() }
    }
}

#[derive(Default, Debug)]
pub struct Outcome {
    pub violations: Vec<Violation>,
    /// class labels of this case (for the distribution report)
    pub labels: Vec<String>,
    /// non-trivial by the property's stated rule
    pub nontrivial: bool,
    /// short human-readable summary of what the oracle compared
    pub note: String,
}

impl Outcome {
    pub fn label(&mut self, l: impl Into<String>) {
        let l = l.into();
        if !self.labels.contains(&l) {
            self.labels.push(l);
        }
    }
    pub fn fail(&mut self, property: &str, oracle: &str, signature: impl Into<String>, detail: impl Into<String>) {
        self.violations.push(Violation::new(property, oracle, signature, detail));
    }
}

/// the property being checked or replayed (for verdicts raised outside an engine's own oracles)
pub static CURRENT_PROPERTY: std::sync::Mutex<String> = std::sync::Mutex::new(String::new());

pub trait Engine: Sync {
    type Case: Serialize + DeserializeOwned + std::fmt::Debug;
    fn name(&self) -> &'static str;
    /// maximum length of each tape
    fn tape_lens(&self) -> Vec<usize>;
    fn gen(&self, tapes: &[Vec<u32>]) -> Self::Case;
    /// run the case; must be a pure function of the case and the code under test
    fn run(&self, case: &Self::Case) -> Outcome;
    /// non-trivial rule text for the evidence file
    fn rule(&self) -> String;
    /// shrink iterations allowed (slow engines use fewer)
    fn shrink_iters(&self) -> u32 {
        3000
    }
    /// `run`, with a panic raised inside the code under test (a source file of the h2 checkout) turned into a verdict:
    /// the component engines call h2 directly, without the simulator's containment. Panics of the harness itself
    /// are passed on (infrastructure failure).
    fn run_contained(&self, case: &Self::Case, property: &str) -> Outcome {
        let fallback = CURRENT_PROPERTY.lock().map(|p| p.clone()).unwrap_or_default();
        let property: &str = if property.is_empty() { &fallback } else { property };
        match std::panic::catch_unwind(std::panic::AssertUnwindSafe(|| self.run(case))) {
            Ok(out) => out,
            Err(payload) => {
                let msg = crate::util::take_panic().unwrap_or_default();
                let loc = msg.rsplit(" @ ").next().unwrap_or("").to_string();
                let in_h2 = loc.starts_with('/') && loc.contains("/src/") && !loc.contains(".cargo/registry") && !loc.contains("/rustc/") && !loc.contains("/verif/") && !loc.contains("/harness/");
                if !in_h2 {
                    crate::util::put_panic(msg);
                    std::panic::resume_unwind(payload);
                }
                let mut out = Outcome::default();
                out.nontrivial = true;
                let sig = crate::oracles::panic_signature(&msg);
                out.fail("C08", "panic", format!("C08/panic/{}", sig), format!("engine {}: the code under test panicked: {}", self.name(), msg));
                if property != "C08" && !property.is_empty() {
                    out.fail(property, "panic", format!("{}/panic/{}", property, sig), format!("engine {}: the code under test panicked: {}", self.name(), msg));
                }
                out
            }
        }
    }
}

#[derive(Clone, Debug, serde::Deserialize)]
pub struct KnownEntry {
    pub property: String,
    pub signature: String,
    pub status: String,
    #[serde(default)]
    pub commit: String,
    pub what: String,
}

#[derive(Clone, Debug, Default)]
pub struct Known {
    pub entries: Vec<KnownEntry>,
}

impl Known {
    pub fn load(verif_root: &Path) -> Known {
        let p = verif_root.join("known_findings.json");
        match std::fs::read(&p) {
            Ok(b) => {
                let v: Value = serde_json::from_slice(&b).expect("known_findings.json parses");
                let entries: Vec<KnownEntry> = serde_json::from_value(v["findings"].clone()).expect("known_findings.json findings");
                Known { entries }
            }
            Err(_) => Known::default(),
        }
    }
    /// entry that suppresses this violation (status "known" only; "fixed"
    /// entries suppress nothing)
    pub fn matches(&self, v: &Violation) -> Option<&KnownEntry> {
        self.entries.iter().find(|e| e.status == "known" && e.property == v.property && sig_match(&e.signature, &v.signature))
    }
    /// a violation with a signature known under *another* property (same root
    /// cause seen through a different oracle)
    pub fn matches_any_property(&self, v: &Violation) -> Option<&KnownEntry> {
        self.entries.iter().find(|e| e.status == "known" && sig_match(&e.signature, &v.signature))
    }
}

/// exact match, or a pattern with `*` wildcards (each matches any run of characters)
fn sig_match(pattern: &str, sig: &str) -> bool {
    if !pattern.contains('*') {
        return pattern == sig;
    }
    let parts: Vec<&str> = pattern.split('*').collect();
    let mut pos = 0usize;
    for (i, p) in parts.iter().enumerate() {
        if p.is_empty() {
            continue;
        }
        match sig[pos..].find(p) {
            Some(k) => {
                if i == 0 && k != 0 {
                    return false;
                }
                pos += k + p.len();
            }
            None => return false,
        }
    }
    parts.last().map(|l| l.is_empty() || sig.ends_with(l)).unwrap_or(true)
}

pub struct Ctx {
    pub property: String,
    pub tier: Tier,
    pub seed: u64,
    pub workers: usize,
    pub verif_root: PathBuf,
    pub known: Known,
    pub start: Instant,
}

impl Ctx {
    pub fn new(property: &str, tier: Tier) -> Ctx {
        let seed = std::env::var("VERIF_SEED").ok().and_then(|s| s.trim().parse::<u64>().ok()).unwrap_or(1);
        let verif_root = PathBuf::from(std::env::var("VERIF_ROOT").unwrap_or_else(|_| "/verif".into()));
        let workers = std::env::var("VERIF_WORKERS").ok().and_then(|s| s.parse().ok()).unwrap_or(16);
        let known = Known::load(&verif_root);
        Ctx { property: property.into(), tier, seed, workers, verif_root, known, start: Instant::now() }
    }
}

#[derive(Default, Debug)]
pub struct RunStats {
    pub engine: String,
    pub rule: String,
    pub evaluations: u64,
    pub nontrivial: HashSet<u64>,
    pub labels: BTreeMap<String, u64>,
    pub samples: Vec<Value>,
    pub known_hits: BTreeMap<String, (u64, String)>,
    pub cross: BTreeMap<String, u64>,
    pub shadowed: u64,
    pub failure: Option<(Violation, String)>,
    pub exhaustive: bool,
}

impl RunStats {
    pub fn new(engine: &str, rule: &str) -> RunStats {
        RunStats { engine: engine.into(), rule: rule.into(), ..Default::default() }
    }
    pub fn absorb(&mut self, property: &str, known: &Known, hash: u64, out: &Outcome, sample: impl FnOnce() -> Value) -> Option<Violation> {
        self.evaluations += 1;
        for l in &out.labels {
            *self.labels.entry(l.clone()).or_insert(0) += 1;
        }
        if out.nontrivial && self.nontrivial.insert(hash) && self.samples.len() < 4 {
            // spread samples: take the 1st, then those whose hash falls in a sparse class
            if self.samples.is_empty() || hash % 7 == 0 {
                self.samples.push(sample());
            }
        }
        let mut mine: Vec<&Violation> = Vec::new();
        let mut any_known = false;
        for v in &out.violations {
            if let Some(e) = known.matches(v) {
                any_known = true;
                if v.property == property {
                    let ent = self.known_hits.entry(e.signature.clone()).or_insert((0, e.what.clone()));
                    ent.0 += 1;
                } else {
                    *self.cross.entry(format!("{}:{} (known)", v.property, v.signature)).or_insert(0) += 1;
                }
            } else if known.matches_any_property(v).is_some() {
                any_known = true;
                *self.cross.entry(format!("{}:{} (known under another property)", v.property, v.signature)).or_insert(0) += 1;
            } else if v.property == property {
                mine.push(v);
            } else {
                *self.cross.entry(format!("{}:{}", v.property, v.oracle)).or_insert(0) += 1;
            }
        }
        if any_known && !mine.is_empty() {
            // a known defect manifested in this case; its consequences are not
            // reported as new violations
            self.shadowed += mine.len() as u64;
            return None;
        }
        mine.first().map(|v| (*v).clone())
    }
}

thread_local! {
    static WORKER_STATS: RefCell<Option<RunStats>> = RefCell::new(None);
}

static WATCHDOG_NOW: AtomicU64 = AtomicU64::new(0);
/// set by the watchdog when the process has grown beyond its memory budget: no further cases are started (what was
/// explored so far is reported; the evidence says that the run was cut short)
pub static MEM_STOP: AtomicBool = AtomicBool::new(false);
/// what each worker is running right now: (start, engine, case JSON); lets the watchdog save the case that hangs
static CURRENT: Mutex<Vec<Option<(std::time::Instant, &'static str, Vec<u8>)>>> = Mutex::new(Vec::new());

fn set_current(w: usize, v: Option<(std::time::Instant, &'static str, Vec<u8>)>) {
    let mut c = CURRENT.lock().unwrap_or_else(|e| e.into_inner());
    if c.len() <= w {
        c.resize(w + 1, None);
    }
    c[w] = v;
}

/// Run `cases` generated cases of `eng` over `ctx.workers` threads.
pub fn drive<E: Engine>(eng: &E, ctx: &Ctx, cases: u64) -> RunStats {
    let stop = AtomicBool::new(false);
    let results: Mutex<Vec<(usize, RunStats)>> = Mutex::new(Vec::new());
    let workers = ctx.workers.max(1).min(cases.max(1) as usize);
    let per = (cases + workers as u64 - 1) / workers as u64;
    std::thread::scope(|sc| {
        for w in 0..workers {
            let stop = &stop;
            let results = &results;
            std::thread::Builder::new()
                .stack_size(64 << 20)
                .spawn_scoped(sc, move || {
                    let st = drive_worker(eng, ctx, w, per, stop);
                    results.lock().unwrap().push((w, st));
                })
                .unwrap();
        }
    });
    let mut rs = results.into_inner().unwrap();
    rs.sort_by_key(|r| r.0);
    let mut total = RunStats::new(eng.name(), &eng.rule());
    for (_, r) in rs {
        merge(&mut total, r);
    }
    total
}

pub fn merge(total: &mut RunStats, r: RunStats) {
    total.evaluations += r.evaluations;
    total.nontrivial.extend(r.nontrivial);
    for (k, v) in r.labels {
        *total.labels.entry(k).or_insert(0) += v;
    }
    for s in r.samples {
        if total.samples.len() < 5 {
            total.samples.push(s);
        }
    }
    for (k, v) in r.known_hits {
        let e = total.known_hits.entry(k).or_insert((0, v.1.clone()));
        e.0 += v.0;
    }
    for (k, v) in r.cross {
        *total.cross.entry(k).or_insert(0) += v;
    }
    total.shadowed += r.shadowed;
    if total.failure.is_none() {
        total.failure = r.failure;
    }
}

fn drive_worker<E: Engine>(eng: &E, ctx: &Ctx, w: usize, cases: u64, stop: &AtomicBool) -> RunStats {
    let mut seed = [0u8; 32];
    seed[..8].copy_from_slice(&ctx.seed.to_le_bytes());
    seed[8..16].copy_from_slice(&(w as u64).to_le_bytes());
    seed[16..24].copy_from_slice(&crate::tape::fnv(eng.name().as_bytes()).to_le_bytes());
    let rng = TestRng::from_seed(RngAlgorithm::ChaCha, &seed);
    let config = Config {
        cases: cases as u32,
        failure_persistence: None,
        max_shrink_iters: std::env::var("VERIF_SHRINK").ok().and_then(|s| s.parse().ok()).unwrap_or(eng.shrink_iters()),
        max_global_rejects: 0,
        ..Config::default()
    };
    let mut runner = TestRunner::new_with_rng(config, rng);
    let lens = eng.tape_lens();
    let strat: Vec<_> = lens.iter().map(|&n| proptest::collection::vec(proptest::num::u32::ANY, n / 4..=n)).collect();
    WORKER_STATS.with(|s| *s.borrow_mut() = Some(RunStats::new(eng.name(), &eng.rule())));
    // signature of the first failure: shrinking must keep *this* one failing
    let first_fail: RefCell<Option<String>> = RefCell::new(None);
    let first_fail_v: RefCell<Option<Violation>> = RefCell::new(None);
    let property = ctx.property.clone();
    let res = runner.run(&strat, |tapes| {
        if first_fail.borrow().is_none() && (stop.load(Ordering::Relaxed) || MEM_STOP.load(Ordering::Relaxed)) {
            return Ok(());
        }
        WATCHDOG_NOW.fetch_add(1, Ordering::Relaxed);
        // a panic here is a defect of the harness itself (engines contain panics of the code
        // under test): infrastructure failure, never a verdict
        let r = std::panic::catch_unwind(std::panic::AssertUnwindSafe(|| {
            let case = eng.gen(&tapes);
            set_current(w, Some((std::time::Instant::now(), eng.name(), serde_json::to_vec(&case).unwrap_or_default())));
            let out = eng.run_contained(&case, &property);
            set_current(w, None);
            (case, out)
        }));
        let (case, out) = match r {
            Ok(x) => x,
            Err(_) => {
                eprintln!("harness panic in engine {}: {:?} — infrastructure failure (exit 2)", eng.name(), crate::util::take_panic());
                std::process::exit(2);
            }
        };
        if let Some(sig) = first_fail.borrow().as_ref() {
            // shrinking
            let same = out.violations.iter().any(|v| v.property == property && &v.signature == sig && ctx.known.matches(v).is_none());
            return if same { Err(TestCaseError::fail(sig.clone())) } else { Ok(()) };
        }
        let bytes = serde_json::to_vec(&case).unwrap_or_default();
        let hash = crate::tape::fnv(&bytes);
        // debugging aid: VERIF_SAVE_LABEL=<substring> saves the first cases carrying such a label
        if let Ok(l) = std::env::var("VERIF_SAVE_LABEL") {
            static SAVED: std::sync::atomic::AtomicUsize = std::sync::atomic::AtomicUsize::new(0);
            if out.labels.iter().any(|x| x.contains(&l)) && SAVED.fetch_add(1, Ordering::Relaxed) < 3 {
                let body = json!({"engine": eng.name(), "property": property, "case": case});
                let _ = std::fs::write(format!("/tmp/saved-{:016x}.json", hash), serde_json::to_vec_pretty(&body).unwrap());
            }
        }
        let v = WORKER_STATS.with(|s| {
            let mut s = s.borrow_mut();
            let s = s.as_mut().unwrap();
            s.absorb(&property, &ctx.known, hash, &out, || {
                json!({"engine": eng.name(), "labels": out.labels, "note": out.note, "case": truncate_json(serde_json::to_value(&case).unwrap_or(Value::Null))})
            })
        });
        if let Some(v) = v {
            *first_fail.borrow_mut() = Some(v.signature.clone());
            *first_fail_v.borrow_mut() = Some(v.clone());
            stop.store(true, Ordering::Relaxed);
            return Err(TestCaseError::fail(v.signature));
        }
        Ok(())
    });
    let mut st = WORKER_STATS.with(|s| s.borrow_mut().take().unwrap());
    match res {
        Ok(()) => {}
        Err(TestError::Fail(_, tapes)) => {
            let case = eng.gen(&tapes);
            let out = eng.run_contained(&case, &property);
            let sig = first_fail.borrow().clone().unwrap_or_default();
            let v = out
                .violations
                .iter()
                .find(|v| v.property == property && v.signature == sig)
                .or_else(|| out.violations.iter().find(|v| v.property == property))
                .cloned()
                .unwrap_or_else(|| match (eng.shrink_iters(), first_fail_v.borrow().clone()) {
                    // an engine that does not shrink runs real threads: the schedule that failed cannot be replayed,
                    // what was observed is reported as observed
                    (0, Some(mut v)) => {
                        v.detail = format!("{} (observed once; real-thread schedule, not reproducible at will)", v.detail);
                        v
                    }
                    _ => Violation::new(&property, "unstable", sig.clone(), "failure did not reproduce on the shrunk case (nondeterminism in harness?)"),
                });
            let path = write_replay(ctx, eng.name(), &case, &v);
            st.failure = Some((v, path));
        }
        Err(TestError::Abort(r)) => {
            eprintln!("proptest aborted: {}", r);
            std::process::exit(2);
        }
    }
    st
}

/// Keep evidence samples readable: long arrays/strings are cut.
pub fn truncate_json(v: Value) -> Value {
    match v {
        Value::Array(a) => {
            let n = a.len();
            let mut out: Vec<Value> = a.into_iter().take(24).map(truncate_json).collect();
            if n > 24 {
                out.push(Value::String(format!("… {} more", n - 24)));
            }
            Value::Array(out)
        }
        Value::Object(o) => Value::Object(o.into_iter().map(|(k, v)| (k, truncate_json(v))).collect()),
        Value::String(s) if s.len() > 200 => Value::String(format!("{}… ({} chars)", &s[..s.char_indices().nth(120).map(|x| x.0).unwrap_or(0)], s.len())),
        v => v,
    }
}

pub fn write_replay<C: Serialize>(ctx: &Ctx, engine: &str, case: &C, v: &Violation) -> String {
    let dir = ctx.verif_root.join("replays").join(&ctx.property);
    let _ = std::fs::create_dir_all(&dir);
    let body = json!({"engine": engine, "property": ctx.property, "violation": v, "case": case});
    let bytes = serde_json::to_vec_pretty(&body).unwrap();
    let name = format!("{}-{:016x}.json", sanitize(&v.signature), crate::tape::fnv(&bytes));
    let path = dir.join(name);
    std::fs::write(&path, bytes).expect("write replay");
    path.to_string_lossy().into_owned()
}

fn sanitize(s: &str) -> String {
    let t: String = s.chars().map(|c| if c.is_ascii_alphanumeric() || c == '-' || c == '_' { c } else { '_' }).collect();
    t.chars().take(60).collect()
}

/// Replay one saved case through an engine.
pub fn replay_case<E: Engine>(eng: &E, case: &Value) -> Outcome {
    let c: E::Case = serde_json::from_value(case.clone()).expect("replay file: case does not match engine");
    // debugging aid: VERIF_REPLAY_REPEAT=n runs the case n times and prints the resident set (memory growth per case)
    if let Some(n) = std::env::var("VERIF_REPLAY_REPEAT").ok().and_then(|s| s.parse::<u32>().ok()) {
        for k in 0..n {
            let _ = eng.run_contained(&c, "");
            if k % 5 == 0 {
                let rss: u64 = std::fs::read_to_string("/proc/self/statm").ok().and_then(|s| s.split_whitespace().nth(1).and_then(|x| x.parse().ok())).unwrap_or(0);
                eprintln!("repeat {}: rss {} MiB", k, rss * 4096 >> 20);
            }
        }
    }
    eng.run_contained(&c, "")
}

/// Run every committed replay of this property (regression tier). Files whose
/// engine does not match are skipped.
pub fn run_committed_replays<E: Engine>(eng: &E, ctx: &Ctx, stats: &mut RunStats) {
    let dir = ctx.verif_root.join("regress").join(&ctx.property);
    let mut files: Vec<PathBuf> = match std::fs::read_dir(&dir) {
        Ok(rd) => rd.filter_map(|e| e.ok()).map(|e| e.path()).filter(|p| p.extension().map(|x| x == "json").unwrap_or(false)).collect(),
        Err(_) => return,
    };
    files.sort();
    for f in files {
        let v: Value = match std::fs::read(&f).ok().and_then(|b| serde_json::from_slice(&b).ok()) {
            Some(v) => v,
            None => continue,
        };
        if v["engine"].as_str() != Some(eng.name()) {
            continue;
        }
        let out = replay_case(eng, &v["case"]);
        let hash = crate::tape::fnv(f.to_string_lossy().as_bytes());
        if let Some(viol) = stats.absorb(&ctx.property, &ctx.known, hash, &out, || json!({"replay": f.to_string_lossy()})) {
            if stats.failure.is_none() {
                stats.failure = Some((viol, f.to_string_lossy().into_owned()));
            }
        }
        *stats.labels.entry("regress-replay".into()).or_insert(0) += 1;
    }
}

pub struct Report {
    pub level: &'static str,
    pub parts: Vec<RunStats>,
    pub assumptions: Vec<String>,
    pub extra: BTreeMap<String, Value>,
}

/// Write evidence, print verdict lines, return the exit code.
pub fn finish(ctx: &Ctx, rep: Report) -> i32 {
    let mut evaluations = 0u64;
    let mut nontrivial = 0u64;
    let mut samples = Vec::new();
    let mut engines = Vec::new();
    let mut known_lines = BTreeMap::new();
    let mut failure: Option<(Violation, String)> = None;
    let mut rules = Vec::new();
    let mut all_exhaustive = !rep.parts.is_empty();
    for p in &rep.parts {
        evaluations += p.evaluations;
        nontrivial += p.nontrivial.len() as u64;
        all_exhaustive &= p.exhaustive;
        for s in &p.samples {
            if samples.len() < 8 {
                samples.push(s.clone());
            }
        }
        rules.push(format!("[{}] {}", p.engine, p.rule));
        engines.push(json!({
            "engine": p.engine,
            "evaluations": p.evaluations,
            "distinct_nontrivial": p.nontrivial.len(),
            "exhaustive": p.exhaustive,
            "class_histogram": p.labels,
            "known_finding_hits": p.known_hits.iter().map(|(k, v)| (k.clone(), json!(v.0))).collect::<BTreeMap<_, _>>(),
            "cases_with_consequences_of_known_findings_not_reported": p.shadowed,
            "cross_oracle_events": p.cross,
        }));
        for (k, v) in &p.known_hits {
            known_lines.insert(k.clone(), v.1.clone());
        }
        if failure.is_none() {
            failure = p.failure.clone();
        }
    }
    let wall = ctx.start.elapsed().as_secs_f64();
    let mut coverage = json!({
        "evaluations": evaluations,
        "distinct_nontrivial": nontrivial,
        "rule": rules.join(" | "),
        "samples": samples,
        "engines": engines,
        "exhaustive": all_exhaustive,
    });
    for (k, v) in rep.extra {
        coverage[k] = v;
    }
    let ev = json!({
        "property_id": ctx.property,
        "tier": ctx.tier.name(),
        "seed": ctx.seed,
        "level": rep.level,
        "coverage": coverage,
        "assumptions": rep.assumptions,
        "wall_s": wall,
        "violations": if failure.is_some() { 1 } else { 0 },
    });
    // (tools/sweep_seeds.sh runs the checks against seeded changes: those runs must not overwrite the evidence)
    let dir = std::env::var("VERIF_EVIDENCE_DIR").map(PathBuf::from).unwrap_or_else(|_| ctx.verif_root.join("evidence"));
    let _ = std::fs::create_dir_all(&dir);
    std::fs::write(dir.join(format!("{}.json", ctx.property)), serde_json::to_vec_pretty(&ev).unwrap()).expect("write evidence");
    for (sig, what) in &known_lines {
        println!("KNOWN-FINDING: property={} {} — {}", ctx.property, sig, what);
    }
    println!(
        "{} {}: evaluations={} distinct_nontrivial={} wall={:.1}s",
        ctx.property,
        ctx.tier.name(),
        evaluations,
        nontrivial,
        wall
    );
    if let Some((v, path)) = failure {
        println!("violation detail: oracle={} signature={} :: {}", v.oracle, v.signature, v.detail);
        println!("VIOLATION property={} replay={}", ctx.property, path);
        1
    } else {
        0
    }
}

/// Watchdog: if no case completes for `secs` seconds the run is inconclusive
/// (exit 2), never a violation.
pub fn start_watchdog(secs: u64) {
    let per_case = std::env::var("VERIF_CASE_TIMEOUT").ok().and_then(|s| s.parse().ok()).unwrap_or(240u64);
    std::thread::spawn(move || {
        let mut last = WATCHDOG_NOW.load(Ordering::Relaxed);
        let mut idle = 0u64;
        loop {
            std::thread::sleep(std::time::Duration::from_secs(2));
            let now = WATCHDOG_NOW.load(Ordering::Relaxed);
            // memory budget (cases that end in a contained panic of the code under test leak what they held, see sim.rs)
            if !MEM_STOP.load(Ordering::Relaxed) {
                let limit_gb: u64 = std::env::var("VERIF_MEM_LIMIT_GB").ok().and_then(|s| s.parse().ok()).unwrap_or(24);
                let rss_pages: u64 = std::fs::read_to_string("/proc/self/statm").ok().and_then(|s| s.split_whitespace().nth(1).and_then(|x| x.parse().ok())).unwrap_or(0);
                if rss_pages * 4096 > limit_gb << 30 {
                    eprintln!("memory guard: resident set above {} GiB — no further cases are started", limit_gb);
                    MEM_STOP.store(true, Ordering::Relaxed);
                }
            }
            // a single case running far beyond any sensible budget: save it and give up (inconclusive)
            let stuck = {
                let c = CURRENT.lock().unwrap_or_else(|e| e.into_inner());
                c.iter().flatten().find(|x| x.0.elapsed().as_secs() >= per_case).map(|x| (x.1, x.2.clone()))
            };
            if let Some((eng, bytes)) = stuck {
                let dir = PathBuf::from(std::env::var("VERIF_ROOT").unwrap_or_else(|_| "/verif".into())).join("replays").join("hang");
                let _ = std::fs::create_dir_all(&dir);
                let path = dir.join(format!("{}-{:016x}.json", eng, crate::tape::fnv(&bytes)));
                let case: serde_json::Value = serde_json::from_slice(&bytes).unwrap_or(serde_json::Value::Null);
                let _ = std::fs::write(&path, serde_json::to_vec_pretty(&serde_json::json!({"engine": eng, "property": "hang", "signature": "hang", "case": case})).unwrap_or_default());
                eprintln!("watchdog: one case of engine {} has been running for more than {}s (saved as {}) — inconclusive (exit 2)", eng, per_case, path.display());
                unsafe { libc_exit(2) }
            }
            if now == last {
                idle += 2;
                if idle >= secs {
                    eprintln!("watchdog: no case finished for {}s — inconclusive (exit 2)", secs);
                    unsafe { libc_exit(2) }
                }
            } else {
                idle = 0;
                last = now;
            }
        }
    });
}

extern "C" {
    fn _exit(code: i32) -> !;
}
/// immediate exit without running destructors or atexit handlers (worker threads may be spinning)
unsafe fn libc_exit(code: i32) -> ! {
    _exit(code)
}

pub fn watchdog_tick() {
    WATCHDOG_NOW.fetch_add(1, Ordering::Relaxed);
}

// proptest API touch so unused imports do not warn if the driver changes
#[allow(dead_code)]
fn _touch() {
    let mut r = TestRunner::deterministic();
    let _ = proptest::num::u32::ANY.new_tree(&mut r).map(|t| t.current());
}


/// Runs another engine and reports its violations of property `from` as violations of `to` (the same defect
/// class seen from a second property), with the original signature kept as suffix.
pub struct Reattributed<E: Engine> {
    pub inner: E,
    pub from: &'static str,
    pub to: &'static str,
    pub label: &'static str,
    /// only violations whose signature contains one of these (separated by '|'; "" = all)
    pub only: &'static str,
}

impl<E: Engine> Engine for Reattributed<E> {
    type Case = E::Case;
    fn name(&self) -> &'static str {
        self.inner.name()
    }
    fn tape_lens(&self) -> Vec<usize> {
        self.inner.tape_lens()
    }
    fn gen(&self, tapes: &[Vec<u32>]) -> Self::Case {
        self.inner.gen(tapes)
    }
    fn rule(&self) -> String {
        format!("{} — violations of {} found here are reported under {} ({})", self.inner.rule(), self.from, self.to, self.label)
    }
    fn shrink_iters(&self) -> u32 {
        self.inner.shrink_iters()
    }
    fn run(&self, case: &Self::Case) -> Outcome {
        let mut out = self.inner.run(case);
        let extra: Vec<Violation> = out.violations.iter().filter(|v| v.property == self.from && (self.only.is_empty() || self.only.split('|').any(|x| v.signature.contains(x)))).map(|v| Violation::new(self.to, &v.oracle, format!("{}/{}/{}", self.to, self.label, v.signature), v.detail.clone())).collect();
        out.violations.extend(extra);
        out
    }
}
