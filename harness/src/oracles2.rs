//! More oracles over one simulator run: C17 (resets), C19 (forgetting / idle
//! close), C05 (concurrency limits), C07 (every handle resolves).

use crate::oracles::strip_digits;
use crate::refmodel::wire::Frame;
use crate::runner::Outcome;
use crate::sim::*;
use crate::tapx::Tap;
use std::collections::{BTreeMap, HashMap, HashSet};

pub const NO_ERROR: u32 = 0;
pub const PROTOCOL_ERROR: u32 = 1;
pub const FLOW_CONTROL_ERROR: u32 = 3;
pub const STREAM_CLOSED: u32 = 5;
pub const REFUSED_STREAM: u32 = 7;
pub const CANCEL: u32 = 8;

/// What one side's application did to one stream, from the API log.
#[derive(Default, Debug, Clone)]
pub struct AppStream {
    pub key: u32,
    /// codes passed to send_reset, with step
    pub resets: Vec<(u64, u32)>,
    /// earliest step at which a handle was dropped before the stream finished
    pub early_drop: Option<u64>,
    /// step at which the app submitted END_STREAM on its sending half
    pub end_submitted: Option<u64>,
    pub accepted_at: Option<u64>,
    pub errors: Vec<(&'static str, ErrInfo)>,
}

pub fn app_streams(events: &[ApiEvent]) -> HashMap<(Side, u32), AppStream> {
    // (side, key) -> stream id
    let mut sid: HashMap<(Side, u32), u32> = HashMap::new();
    for e in events {
        match &e.api {
            Api::SentHead { stream, .. } | Api::RecvHead { stream, .. } => {
                if *stream != 0 {
                    sid.entry((e.side, e.key)).or_insert(*stream);
                }
            }
            _ => {}
        }
    }
    let mut m: HashMap<(Side, u32), AppStream> = HashMap::new();
    for e in events {
        if e.key == 0 {
            continue;
        }
        let s = match sid.get(&(e.side, e.key)) {
            Some(s) => *s,
            None => continue,
        };
        let a = m.entry((e.side, s)).or_insert_with(|| AppStream { key: e.key, ..Default::default() });
        match &e.api {
            Api::SentReset { code } => a.resets.push((e.step, *code)),
            Api::DroppedSend | Api::DroppedRecv | Api::DroppedResponseFuture => {
                if a.early_drop.is_none() {
                    a.early_drop = Some(e.step);
                }
            }
            Api::SentHead { eos: true, .. } | Api::SentData { eos: true, .. } | Api::SentTrailers { .. } => {
                if a.end_submitted.is_none() {
                    a.end_submitted = Some(e.step);
                }
            }
            Api::RecvErr { op, err } => a.errors.push((op, err.clone())),
            Api::SendErr { op, err } => a.errors.push((op, err.clone())),
            Api::CapacityErr { err } => a.errors.push(("poll_capacity", err.clone())),
            Api::RecvHead { kind: "request", .. } => a.accepted_at = Some(e.step),
            _ => {}
        }
    }
    m
}

/// Wire view of one stream.
#[derive(Default, Debug, Clone)]
pub struct WStream {
    pub opened_by: Option<Side>,
    pub open_t: u64,
    /// per side: (t_w of END_STREAM, t_d), RSTs (t_w0, t_d, code)
    pub end: [Option<(u64, Option<u64>)>; 2],
    pub rst: [Vec<(u64, Option<u64>, u32)>; 2],
    pub headers_t_w: [Option<u64>; 2],
    /// frames per side with delivery times
    pub frames_d: [Vec<u64>; 2],
    /// byte offsets in the sender's direction (order among frames of one direction, also within one step):
    /// of the opening frame, of END_STREAM per side, of every RST_STREAM per side
    pub open_off: usize,
    pub end_off: [Option<usize>; 2],
    pub rst_off: [Vec<usize>; 2],
}

pub fn wire_streams(tap: &Tap) -> BTreeMap<u32, WStream> {
    let mut m: BTreeMap<u32, WStream> = BTreeMap::new();
    for f in &tap.frames {
        let fr = match &f.frame {
            Ok(x) => x,
            Err(_) => continue,
        };
        let i = crate::tapx::side_idx(f.from);
        match fr {
            Frame::Headers { stream, end_stream, .. } => {
                let w = m.entry(*stream).or_default();
                if w.opened_by.is_none() {
                    w.opened_by = Some(f.from);
                    w.open_t = f.t_w0;
                    w.open_off = f.off0;
                }
                if w.headers_t_w[i].is_none() {
                    w.headers_t_w[i] = Some(f.t_w0);
                }
                if *end_stream && w.end[i].is_none() {
                    w.end[i] = Some((f.t_w, f.t_d));
                    w.end_off[i] = Some(f.off0);
                }
            }
            Frame::Push { promised, .. } => {
                let w = m.entry(*promised).or_default();
                w.opened_by = Some(f.from);
                w.open_t = f.t_w0;
                // a PUSH_PROMISE concerns the promised stream too (it may be answered by RST_STREAM on it)
                if let Some(td) = f.t_d {
                    w.frames_d[i].push(td);
                }
                // the promised stream is half-closed for the client from the start
                w.end[1 - i] = Some((f.t_w, f.t_d));
            }
            Frame::Data { stream, end_stream, .. } => {
                let w = m.entry(*stream).or_default();
                if *end_stream && w.end[i].is_none() {
                    w.end[i] = Some((f.t_w, f.t_d));
                    w.end_off[i] = Some(f.off0);
                }
            }
            Frame::Rst { stream, code } => {
                m.entry(*stream).or_default().rst_off[i].push(f.off0);
                m.entry(*stream).or_default().rst[i].push((f.t_w0, f.t_d, *code));
            }
            _ => {}
        }
        if f.raw.stream != 0 {
            if let Some(td) = f.t_d {
                m.entry(f.raw.stream).or_default().frames_d[i].push(td);
            }
        }
    }
    m
}

// ------------------------------------------------------------ C17

pub struct C17Ctx<'a> {
    pub tap: &'a Tap,
    pub events: &'a [ApiEvent],
    pub h2_sides: &'a [Side],
    /// all application tasks finished and the connection was not cut: stream ends are final
    pub settled: bool,
    /// an injected read failure: (the side whose reads fail, the error text the transport reports)
    pub read_fault: Option<(Side, &'static str)>,
    /// the run ended with nothing runnable and nothing in flight
    pub quiescent: bool,
    /// tasks still pending at that moment (before the diagnostic re-poll of every task)
    pub unfinished: &'a [(String, Group)],
}

/// I/O error texts the simulated transport can hand to an endpoint; anything else surfaced as an I/O error was
/// made up by the library.
const TRANSPORT_IO_TEXTS: &[&str] = &["sim: connection reset", "sim: peer closed without close_notify", "sim: peer closed", "sim: write failed"];

pub fn check_c17(cx: &C17Ctx, out: &mut Outcome) {
    // ---- send_reset discards what is still unsent: DATA that needed a window grant the endpoint only processed after
    // the reset call can never be written (frames already handed to the codec need no grant)
    {
        let ws = wire_streams(cx.tap);
        let _ = &ws;
        let mut key_stream: HashMap<(Side, u32), u32> = HashMap::new();
        for ev in cx.events {
            if let Api::SentHead { stream, .. } = &ev.api {
                if *stream != 0 {
                    key_stream.entry((ev.side, ev.key)).or_insert(*stream);
                }
            }
        }
        for ev in cx.events {
            if let Api::SentReset { .. } = &ev.api {
                let e = ev.side;
                if !cx.h2_sides.contains(&e) {
                    continue;
                }
                let sid = match key_stream.get(&(e, ev.key)) {
                    Some(s) => *s,
                    None => continue,
                };
                let t = ev.step;
                let p_side_settings: Vec<(u64, Vec<(u16, u32)>)> = cx.tap.frames.iter().filter(|f| f.from != e).filter_map(|f| if let (Ok(Frame::Settings { ack: false, params }), Some(td)) = (&f.frame, f.t_d0) { Some((td, params.clone())) } else { None }).collect();
                let e_acks: Vec<u64> = cx.tap.frames.iter().filter(|f| f.from == e).filter_map(|f| if let Ok(Frame::Settings { ack: true, .. }) = &f.frame { Some(f.t_w0) } else { None }).collect();
                // values of one SETTINGS parameter E may have had in force at step t: the last one whose acknowledgement
                // E had written by then, and every one delivered by then but not yet acknowledged
                let in_force = |id: u16, default: Option<u32>| -> Vec<Option<u32>> {
                    let mut base = default;
                    let mut cands: Vec<Option<u32>> = Vec::new();
                    for (k, (td, params)) in p_side_settings.iter().enumerate() {
                        if let Some(v) = params.iter().rev().find(|p| p.0 == id).map(|p| p.1) {
                            let acked = e_acks.get(k).map(|a| *a <= t).unwrap_or(false);
                            if acked {
                                base = Some(v);
                                cands.clear();
                            } else if *td <= t {
                                cands.push(Some(v));
                            }
                        }
                    }
                    cands.push(base);
                    cands
                };
                let own_rst = cx.tap.frames.iter().filter(|f| f.from == e).filter_map(|f| if let Ok(Frame::Rst { stream, .. }) = &f.frame { if *stream == sid { Some(f.t_w0) } else { None } } else { None }).min();
                let data_after: Vec<&crate::tapx::TFrame> = cx.tap.frames.iter().filter(|f| f.from == e && f.raw.stream == sid && f.t_w0 > t && matches!(&f.frame, Ok(Frame::Data { data, .. }) if !data.is_empty()) && own_rst.map(|r| r > f.t_w0).unwrap_or(true)).collect();
                if data_after.is_empty() {
                    continue;
                }
                // (a) flow control: what is written after the call fits into the credit E can have held at the call
                // (frames already handed to the codec were cut from that credit; anything beyond it needed a grant that
                // arrived later, so it was still queued when send_reset ran)
                let flow = |f: &crate::tapx::TFrame| f.frame.as_ref().map(|x| x.flow_len() as i64).unwrap_or(0);
                let iw = in_force(4, Some(65535)).into_iter().flatten().max().unwrap_or(65535) as i64;
                let wu = |st: u32| -> i64 { cx.tap.frames.iter().filter(|f| f.from != e).filter_map(|f| if let (Ok(Frame::WinUp { stream, inc, .. }), Some(td)) = (&f.frame, f.t_d0) { if *stream == st && td <= t { Some(*inc as i64) } else { None } } else { None }).sum() };
                let sent_stream: i64 = cx.tap.frames.iter().filter(|f| f.from == e && f.raw.stream == sid && f.t_w0 <= t && matches!(&f.frame, Ok(Frame::Data { .. }))).map(|f| flow(f)).sum();
                let sent_conn: i64 = cx.tap.frames.iter().filter(|f| f.from == e && f.t_w0 <= t && matches!(&f.frame, Ok(Frame::Data { .. }))).map(|f| flow(f)).sum();
                let a_stream = iw + wu(sid) - sent_stream;
                let a_conn = 65535 + wu(0) - sent_conn;
                let credit = a_stream.min(a_conn).max(0);
                let b: i64 = data_after.iter().map(|f| flow(f)).sum();
                if b > credit {
                    out.fail(
                        "C17",
                        "reset/discard",
                        "C17/unsent-data-written-after-send_reset",
                        format!("{} stream {}: send_reset was called at step {}; {} bytes of DATA on that stream were first written after the call although the windows the peer had granted by then left room for {} at most (stream {}, connection {}) — data that still waited for a window grant when send_reset ran must be discarded", e.name(), sid, t, b, credit, a_stream, a_conn),
                    );
                    break;
                }
                // (b) concurrency: the stream's opening HEADERS were written after the call, and at the call as many
                // earlier own streams as the limit allows were open with nothing yet under way that could close them:
                // the request was still queued behind the limit, so none of its body was handed to the codec
                if e == Side::Client {
                    let open_t = cx.tap.frames.iter().filter(|f| f.from == e && f.raw.stream == sid && matches!(&f.frame, Ok(Frame::Headers { .. }))).map(|f| f.t_w0).min();
                    let limits = in_force(3, None);
                    if let (Some(open_t), false) = (open_t, limits.iter().any(|l| l.is_none())) {
                        let limit = limits.iter().flatten().max().copied().unwrap_or(u32::MAX) as usize;
                        if open_t > t {
                            let stream_key: HashMap<u32, u32> = key_stream.iter().filter(|((sd, _), _)| *sd == e).map(|((_, k), st)| (*st, *k)).collect();
                            let mut held = 0usize;
                            let mut ids: Vec<u32> = cx.tap.frames.iter().filter(|f| f.from == e && f.raw.stream % 2 == 1 && f.raw.stream < sid && f.t_w0 <= t && matches!(&f.frame, Ok(Frame::Headers { .. }))).map(|f| f.raw.stream).collect();
                            ids.sort();
                            ids.dedup();
                            for s2 in ids {
                                let peer_closing = cx.tap.frames.iter().any(|f| {
                                    f.from != e && f.raw.stream == s2 && f.t_d0.map(|d| d <= t).unwrap_or(false) && (matches!(&f.frame, Ok(Frame::Rst { .. }) | Ok(Frame::GoAway { .. })) || matches!(&f.frame, Ok(Frame::Headers { end_stream: true, .. }) | Ok(Frame::Data { end_stream: true, .. })))
                                });
                                let own_giving_up = stream_key.get(&s2).map(|k| cx.events.iter().any(|x| x.side == e && x.key == *k && x.step <= t && matches!(&x.api, Api::SentReset { .. } | Api::DroppedSend | Api::DroppedRecv | Api::DroppedResponseFuture))).unwrap_or(true);
                                if !peer_closing && !own_giving_up {
                                    held += 1;
                                }
                            }
                            let goaway = cx.tap.frames.iter().any(|f| matches!(&f.frame, Ok(Frame::GoAway { .. })));
                            if held >= limit && !goaway {
                                out.fail(
                                    "C17",
                                    "reset/discard",
                                    "C17/unsent-data-written-after-send_reset",
                                    format!("{} stream {}: send_reset was called at step {} while the request was still queued behind the concurrency limit ({} earlier streams open, limit {}); its HEADERS were written at step {} and {} bytes of DATA followed — the queued body must be discarded", e.name(), sid, t, held, limit, open_t, b),
                                );
                                break;
                            }
                        }
                    }
                }
            }
        }
    }
    // ---- a poll_reset watcher sees the peer's RST_STREAM: the stream was still open for the peer (its END_STREAM had
    // not been delivered) when the reset arrived, so the watcher resolves with the peer's code
    {
        let ws = wire_streams(cx.tap);
        let mut key_stream: HashMap<(Side, u32), u32> = HashMap::new();
        for ev in cx.events {
            if let Api::SentHead { stream, .. } = &ev.api {
                if *stream != 0 {
                    key_stream.entry((ev.side, ev.key)).or_insert(*stream);
                }
            }
        }
        for ev in cx.events {
            let e = ev.side;
            if !cx.h2_sides.contains(&e) || !matches!(&ev.api, Api::ConnOp { op } if op == "watch poll_reset") {
                continue;
            }
            let sid = match key_stream.get(&(e, ev.key)) {
                Some(s) => *s,
                None => continue,
            };
            let w = match ws.get(&sid) {
                Some(w) => w,
                None => continue,
            };
            let i = crate::tapx::side_idx(e);
            let p = 1 - i;
            let rst = match w.rst[p].iter().filter_map(|r| r.1.map(|d| (d, r.2))).min() {
                Some(r) => r,
                None => continue,
            };
            let peer_ended_before = w.end[p].map(|x| x.1.map(|d| d <= rst.0).unwrap_or(false)).unwrap_or(false) || (sid % 2 == 0 && e == Side::Server);
            let own_rst_before = w.rst[i].iter().any(|r| r.0 <= rst.0 + 2);
            let conn_ended = cx.events.iter().any(|x| x.side == e && x.step <= rst.0 + 2 && matches!(&x.api, Api::ConnDone { .. }));
            if peer_ended_before || own_rst_before || conn_ended || !cx.quiescent {
                continue;
            }
            // (resolved by itself: not merely by the simulator's diagnostic re-poll at quiescence)
            let task = format!("{}-resetwatch-{}", if e == Side::Client { "c" } else { "s" }, ev.key);
            let resolved = cx.events.iter().any(|x| x.side == e && x.key == ev.key && matches!(&x.api, Api::PollReset { .. })) && !cx.unfinished.iter().any(|(n, _)| *n == task);
            out.label("poll_reset-watcher-with-peer-reset");
            if !resolved {
                out.fail(
                    "C17",
                    "error/peer-reset-lost",
                    "C17/peer-reset-never-reaches-poll_reset",
                    format!("{}: the peer's RST_STREAM({}, code {:#x}) was delivered at step {} while a task was waiting in poll_reset on that stream (since step {}), but the wait never resolved", e.name(), sid, rst.1, rst.0, ev.step),
                );
            }
        }
    }
    // ---- an I/O failure surfaces on the handles with the transport's own error
    if let Some((x, text)) = cx.read_fault {
        let mut seen_exact = false;
        for ev in cx.events.iter().filter(|ev| ev.side == x) {
            let err = match &ev.api {
                Api::RecvErr { err, .. } | Api::SendErr { err, .. } | Api::CapacityErr { err } => Some(err),
                Api::Ready { result: Err(err) } => Some(err),
                _ => None,
            };
            if let Some(err) = err {
                if err.is_io {
                    if err.text == text {
                        seen_exact = true;
                    } else if !TRANSPORT_IO_TEXTS.contains(&err.text.as_str()) {
                        out.fail(
                            "C17",
                            "io-error/intact",
                            format!("C17/io-failure-not-surfaced-intact/{}", strip_digits(&err.text).replace(' ', "-")),
                            format!("{}'s transport failed with \"{}\" while streams were open, but a handle of stream key {} reports the I/O error \"{}\", which the transport never produced", x.name(), text, ev.key, err.text),
                        );
                        break;
                    }
                }
            }
        }
        if seen_exact {
            out.label("io-error-surfaced-intact");
        }
    }
    let apps = app_streams(cx.events);
    let ws = wire_streams(cx.tap);
    let goaways: [Vec<u32>; 2] = {
        let mut g: [Vec<u32>; 2] = [vec![], vec![]];
        for f in &cx.tap.frames {
            if let Ok(Frame::GoAway { code, .. }) = &f.frame {
                g[crate::tapx::side_idx(f.from)].push(*code);
            }
        }
        g
    };
    for (&sid, w) in &ws {
        for &e in cx.h2_sides {
            let i = crate::tapx::side_idx(e);
            let p = 1 - i;
            let app = apps.get(&(e, sid));
            let rsts = &w.rst[i];
            // ---- count
            if let Some(first) = rsts.first() {
                let app_t = app.and_then(|a| a.resets.first().map(|r| r.0).into_iter().chain(a.early_drop).min());
                for (n, r) in rsts.iter().enumerate().skip(1) {
                    // the (n+1)-th RST needs n late peer frames; when the first RST was not caused by the
                    // application it was itself an answer to a peer frame
                    let (from_t, need) = match app_t {
                        Some(t) if t <= first.0 => (t, n),
                        _ => (0, n + 1),
                    };
                    let mut late = w.frames_d[p].iter().filter(|&&t| t >= from_t && t <= r.0).count();
                    // a frame that was read into the endpoint's buffer before the reset may still have been *processed* after
                    // it (the endpoint stops processing while it cannot write, e.g. an acknowledgement it owes): only DATA the
                    // application had already been handed before the reset was provably processed before it
                    if late < need && from_t > 0 {
                        let key = app.map(|a| a.key);
                        let seen_bytes: usize = key.map(|k| cx.events.iter().filter(|x| x.side == e && x.key == k && x.step <= from_t).filter_map(|x| if let Api::RecvData { len, .. } = &x.api { Some(*len) } else { None }).sum()).unwrap_or(0);
                        let seen_head = key.map(|k| cx.events.iter().any(|x| x.side == e && x.key == k && x.step <= from_t && matches!(&x.api, Api::RecvHead { kind, .. } if *kind != "push-request"))).unwrap_or(false);
                        let early: Vec<&crate::tapx::TFrame> = cx.tap.frames.iter().filter(|f| f.from != e && f.raw.stream == sid && f.t_d.map(|d| d < from_t).unwrap_or(false)).collect();
                        // the last of those frames that was provably processed before the reset; everything behind it may be late
                        let mut proven: Option<usize> = None;
                        let mut acc = 0usize;
                        for (ix, f) in early.iter().enumerate() {
                            match &f.frame {
                                Ok(Frame::Data { data, .. }) => {
                                    acc += data.len();
                                    if !data.is_empty() && acc <= seen_bytes {
                                        proven = Some(ix);
                                    }
                                }
                                Ok(Frame::Headers { .. }) if seen_head && proven.is_none() => proven = Some(ix),
                                _ => {}
                            }
                        }
                        late += early.len() - proven.map(|x| x + 1).unwrap_or(0);
                    }
                    if late < need {
                        out.fail(
                            "C17",
                            "reset/count",
                            "C17/more-than-one-rst-stream",
                            format!("{} sent RST_STREAM #{} on stream {} (codes {:?}) but only {} peer frames on it were delivered since the reset (need {})", e.name(), n + 1, sid, rsts.iter().map(|r| r.2).collect::<Vec<_>>(), late, need),
                        );
                        break;
                    }
                }
                // ---- RST after HEADERS for locally initiated streams
                if w.opened_by == Some(e) {
                    if let Some(h) = w.headers_t_w[i] {
                        if first.0 < h {
                            out.fail("C17", "reset/order", "C17/rst-before-headers", format!("{} wrote RST_STREAM on its own stream {} before that stream's HEADERS", e.name(), sid));
                        }
                    }
                }
                // ---- code of the first RST
                let code = first.2;
                let app_resets: Vec<u32> = app.map(|a| a.resets.iter().map(|r| r.1).collect()).unwrap_or_default();
                let peer_closed_it_first = w.rst[p].iter().any(|r| r.1.map(|t| t <= first.0).unwrap_or(false));
                if !app_resets.is_empty() {
                    // an explicit send_reset(code): the wire carries the caller's code — unless the library had
                    // a reason of its own first (flow-control/protocol error caused by the peer)
                    if !app_resets.contains(&code) && !matches!(code, STREAM_CLOSED | REFUSED_STREAM | PROTOCOL_ERROR | FLOW_CONTROL_ERROR) {
                        out.fail("C17", "reset/code", "C17/rst-code-differs-from-send_reset", format!("{} stream {}: send_reset({:?}) but RST_STREAM carries {}", e.name(), sid, app_resets, code));
                    }
                    if matches!(code, STREAM_CLOSED | REFUSED_STREAM | PROTOCOL_ERROR | FLOW_CONTROL_ERROR) && !app_resets.contains(&code) {
                        out.label("library-rst-on-app-reset-stream");
                    }
                } else {
                    // implicit: drop ⇒ CANCEL; a server that completed its response ⇒ NO_ERROR; library reasons
                    let server_done = e == Side::Server && w.end[i].map(|x| x.0 <= first.0).unwrap_or(false);
                    let ok = match code {
                        CANCEL => !server_done || true,
                        NO_ERROR => server_done,
                        STREAM_CLOSED | REFUSED_STREAM | PROTOCOL_ERROR | FLOW_CONTROL_ERROR => true,
                        _ => false,
                    };
                    if !ok {
                        out.fail(
                            "C17",
                            "reset/implicit-code",
                            format!("C17/implicit-rst-code/{}", code),
                            format!("{} stream {}: no send_reset by the application, yet RST_STREAM({}) — a dropped unfinished stream must carry CANCEL (NO_ERROR only from a server whose response was complete)", e.name(), sid, code),
                        );
                    }
                    if code == CANCEL && server_done && app.map(|a| a.early_drop.is_some()).unwrap_or(false) && !peer_closed_it_first {
                        // server finished its response and then dropped the request body: NO_ERROR is what the
                        // property names
                        out.fail("C17", "reset/implicit-code", "C17/implicit-rst-code/cancel-after-complete-response", format!("server stream {}: response was complete, the remaining request body was dropped, RST_STREAM should carry NO_ERROR, got CANCEL", sid));
                    }
                }
            }
            // ---- settled runs: an unfinished stream the application cancelled has exactly one RST from someone
            if cx.settled {
                if let Some(a) = app {
                    let cancelled = !a.resets.is_empty() || a.early_drop.is_some();
                    let both_ended = w.end[0].is_some() && w.end[1].is_some();
                    let header_on_wire = w.headers_t_w[0].is_some() || w.headers_t_w[1].is_some() || w.opened_by.is_some();
                    let explicit = !a.resets.is_empty();
                    let live = !cx.events.iter().any(|ev| ev.side == e && matches!(&ev.api, Api::ConnDone { .. }));
                    if live && cancelled && explicit && header_on_wire && rsts.is_empty() && w.rst[p].is_empty() && !both_ended {
                        out.fail("C17", "reset/missing", "C17/no-rst-after-send_reset", format!("{} stream {}: the application called send_reset({:?}) on an unfinished stream whose HEADERS are on the wire, but no RST_STREAM was ever written", e.name(), sid, a.resets));
                    }
                }
            }
            // ---- peer-originated errors surface intact
            if let Some(a) = app {
                for (op, err) in &a.errors {
                    if err.is_reset && err.is_remote {
                        let peer_codes: Vec<u32> = w.rst[p].iter().filter(|r| r.1.is_some()).map(|r| r.2).collect();
                        match err.reason {
                            Some(c) if peer_codes.contains(&c) => {}
                            _ => out.fail(
                                "C17",
                                "error/remote-reset-code",
                                "C17/remote-reset-code-not-intact",
                                format!("{} stream {} {}: error says remote reset with reason {:?}, but the peer's RST_STREAM frames delivered on that stream carry {:?}", e.name(), sid, op, err.reason, peer_codes),
                            ),
                        }
                    }
                    if err.is_reset && !err.is_remote && !err.is_library {
                        // user-initiated on this side
                        let mine: Vec<u32> = a.resets.iter().map(|r| r.1).collect();
                        let ok = match err.reason {
                            Some(c) => mine.contains(&c) || (c == CANCEL && a.early_drop.is_some()) || c == CANCEL,
                            None => false,
                        };
                        if !ok {
                            out.fail("C17", "error/user-reset-code", "C17/user-reset-code-not-intact", format!("{} stream {} {}: error says locally (user) reset with reason {:?}, application reset codes were {:?}", e.name(), sid, op, err.reason, mine));
                        }
                    }
                    if err.is_go_away && err.is_remote {
                        match err.reason {
                            Some(c) if goaways[p].contains(&c) => {}
                            _ => out.fail("C17", "error/goaway-code", "C17/goaway-code-not-intact", format!("{} stream {} {}: error says remote GOAWAY reason {:?}, peer's GOAWAY frames carry {:?}", e.name(), sid, op, err.reason, goaways[p])),
                        }
                    }
                    // a reset the peer's application requested must not surface as something else
                    if !w.rst[p].is_empty() && !err.is_reset && !err.is_go_away && !err.is_io && a.resets.is_empty() {
                        out.label("non-reset-error-on-peer-reset-stream");
                    }
                }
            }
        }
    }
}

// ------------------------------------------------------------ C19

pub struct C19Ctx<'a> {
    pub tap: &'a Tap,
    pub events: &'a [ApiEvent],
    pub stats: &'a [(Side, Option<h2::verif::VerifStats>, bool)],
    /// all application tasks finished, no fault, connection not errored
    pub settled: bool,
    pub client_handles_gone: bool,
    pub c2s_shutdown: bool,
    pub reset_max: [usize; 2],
    pub orphans: &'a [(Side, Vec<(u32, usize)>)],
    pub orphan_flags: &'a [(Side, Vec<(u32, u8)>)],
}

pub fn check_c19(cx: &C19Ctx, out: &mut Outcome) {
    if !cx.settled {
        return;
    }
    for (side, st, _) in cx.stats {
        let st = match st {
            Some(s) => s,
            None => continue,
        };
        // bookkeeping of a *live* connection: once the connection future has completed nothing
        // maintains the records any more (and they are about to be dropped)
        if cx.events.iter().any(|e| e.side == *side && matches!(&e.api, Api::ConnDone { .. } | Api::ConnOp { .. } if matches!(&e.api, Api::ConnDone { .. }))) {
            continue;
        }
        out.label("idle-state-checked");
        let i = crate::tapx::side_idx(*side);
        // known root cause with its own signature: pushed streams whose PUSH_PROMISE never reached the wire
        // (parent reset while the frame was queued) stay parked for ever with their queued frames
        let pushes_submitted = cx.events.iter().filter(|e| e.side == *side && matches!(&e.api, Api::SentHead { kind: "push-request", .. })).count();
        let pushes_on_wire = cx.tap.frames.iter().filter(|f| f.from == *side && matches!(&f.frame, Ok(Frame::Push { .. }))).count();
        if pushes_submitted > pushes_on_wire && (st.store_slab_len > st.num_local_reset_streams || st.send_buffer_len > 0 || (st.send_window >= 0 && st.send_available != st.send_window)) {
            out.fail(
                "C19",
                "idle/orphaned-pushes",
                "C19/pushed-streams-orphaned-when-push-promise-never-written",
                format!("{}: {} push_request() calls succeeded but only {} PUSH_PROMISE frames reached the wire (parent reset first); {} stream records, {} queued frames and {} bytes of connection capacity stay parked", side.name(), pushes_submitted, pushes_on_wire, st.store_slab_len, st.send_buffer_len, st.send_window - st.send_available),
            );
            continue;
        }
        // second known root cause with its own signature: promised streams the client application never
        // took (its PushPromises handle went away with the parent) are released without returning what
        // they had buffered
        let pushes_delivered = cx.tap.frames.iter().filter(|f| f.from != *side && f.t_d.is_some() && matches!(&f.frame, Ok(Frame::Push { .. }))).count();
        let pushes_taken = cx.events.iter().filter(|e| e.side == *side && matches!(&e.api, Api::RecvHead { kind: "push-request", .. })).count();
        if pushes_delivered > pushes_taken && (st.recv_in_flight != 0 || (st.recv_buffer_len != 0 && st.store_slab_len <= st.num_local_reset_streams)) {
            out.fail(
                "C19",
                "idle/unclaimed-pushes",
                "C19/unclaimed-pushed-streams-leak-buffered-events-and-window",
                format!("{}: {} PUSH_PROMISE frames were delivered but the application only took {}; {} buffered events and {} bytes of connection receive window stay allocated with no stream left to release them", side.name(), pushes_delivered, pushes_taken, st.recv_buffer_len, st.recv_in_flight),
            );
            continue;
        }
        // (a record that is only kept as a remembered local reset need not be reachable by id: e.g. a finished stream
        // whose handle was used for a late send_reset; unreachable records are a leak once there are more records
        // than remembered resets)
        if st.store_slab_len != st.store_ids_len && st.store_slab_len > st.num_local_reset_streams {
            // which history: the ids of the unreachable records are read through the probe and classified from the trace
            let ids: Vec<u32> = cx.orphans.iter().filter(|o| o.0 == *side).flat_map(|o| o.1.iter().filter(|x| x.1 == 0).map(|x| x.0)).collect();
            let ws = wire_streams(cx.tap);
            let p = 1 - i;
            let mut classes: Vec<&'static str> = ids
                .iter()
                .map(|sid| {
                    // bytes this side's application submitted on the stream vs. bytes that reached the wire
                    let key = cx.events.iter().find(|e| e.side == *side && matches!(&e.api, Api::SentHead { stream, .. } | Api::RecvHead { stream, .. } if stream == sid)).map(|e| e.key);
                    let submitted: usize = cx.events.iter().filter(|e| e.side == *side && Some(e.key) == key).filter_map(|e| if let Api::SentData { len, .. } = &e.api { Some(*len) } else { None }).sum();
                    let on_wire: usize = cx.tap.frames.iter().filter(|f| f.from == *side && f.raw.stream == *sid).filter_map(|f| if let Ok(Frame::Data { data, .. }) = &f.frame { Some(data.len()) } else { None }).sum();
                    let w = ws.get(sid);
                    let reset = w.map(|w| !w.rst[i].is_empty() || !w.rst[p].is_empty()).unwrap_or(false);
                    let clean = w.map(|w| w.end[i].is_some() && w.end[p].is_some() && w.rst[i].is_empty() && w.rst[p].is_empty()).unwrap_or(false);
                    // (the application used the reservation API on the stream: it held or awaited assigned capacity — the
                    // stream can then sit in the prioritizer's capacity queue when it is reset)
                    let waited_for_capacity = cx.events.iter().any(|e| e.side == *side && Some(e.key) == key && matches!(&e.api, Api::CapacityErr { .. } | Api::CapacityEnd | Api::Capacity { .. }));
                    // (the queue flags read through the probe: a record still parked in the capacity queue is the recorded
                    // finding whatever the trace shows; once that queue has dropped it no flag is left, so the history decides)
                    let flags = cx.orphan_flags.iter().filter(|o| o.0 == *side).flat_map(|o| o.1.iter()).find(|x| x.0 == *sid).map(|x| x.1);
                    if flags.map(|f| f & 2 != 0).unwrap_or(false) {
                        return "reset-while-waiting-for-send-capacity";
                    }
                    // a message head the application submitted on the stream that never reached the wire: the stream was still
                    // queued (for a concurrency slot or for capacity) when it was reset
                    let heads_submitted = cx.events.iter().filter(|e| e.side == *side && Some(e.key) == key && matches!(&e.api, Api::SentHead { kind, stream, .. } if stream == sid && *kind != "push-request")).count();
                    let heads_on_wire = cx.tap.frames.iter().filter(|f| f.from == *side && f.raw.stream == *sid && matches!(&f.frame, Ok(Frame::Headers { .. }))).count();
                    let waited_for_capacity = waited_for_capacity || heads_submitted > heads_on_wire;
                    if reset && (submitted > on_wire || waited_for_capacity) {
                        "reset-while-waiting-for-send-capacity"
                    } else if clean {
                        "finished-cleanly"
                    } else if reset {
                        "reset"
                    } else {
                        "other"
                    }
                })
                .collect();
            classes.sort();
            classes.dedup();
            let class = if classes.is_empty() { "unidentified".to_string() } else { classes.join("+") };
            out.fail("C19", "idle/orphan-records", format!("C19/stream-records-without-id/{}", class), format!("{}: {} stream records but {} ids at quiescence with every handle dropped (unreachable records: streams {:?}, history: {})", side.name(), st.store_slab_len, st.store_ids_len, ids, class));
        }
        if st.store_slab_len > st.num_local_reset_streams {
            out.fail(
                "C19",
                "idle/retained-streams",
                "C19/finished-streams-retained",
                format!("{}: {} stream records retained at quiescence although every stream finished and every handle was dropped (only {} are remembered local resets)", side.name(), st.store_slab_len, st.num_local_reset_streams),
            );
        }
        // every reset the endpoint still counts as remembered is a record it still holds (a counter that is not
        // decremented when the record expires fills the quota with nothing)
        if st.num_local_reset_streams > st.store_slab_len {
            out.fail("C19", "idle/reset-memory", "C19/reset-memory-counts-streams-it-no-longer-holds", format!("{}: {} reset streams counted as remembered but only {} stream records exist", side.name(), st.num_local_reset_streams, st.store_slab_len));
        }
        if st.num_local_reset_streams > cx.reset_max[i] {
            out.fail("C19", "idle/reset-memory", "C19/reset-memory-over-quota", format!("{}: {} remembered reset streams, quota {}", side.name(), st.num_local_reset_streams, cx.reset_max[i]));
        }
        // (events already buffered on a remembered locally-reset stream stay with that record until it
        // expires — part of the bounded reset memory, not demanded to be empty)
        let recv_buf_unexplained = st.recv_buffer_len != 0 && st.num_local_reset_streams == 0;
        if recv_buf_unexplained || st.send_buffer_len != 0 {
            out.fail("C19", "idle/buffers", "C19/buffers-not-empty", format!("{}: recv buffer {} / send buffer {} entries at quiescence with nothing left to do", side.name(), st.recv_buffer_len, st.send_buffer_len));
        }
        if st.num_send_streams != 0 || st.num_recv_streams != 0 {
            out.fail("C19", "idle/counters", "C19/concurrency-counters-not-zero", format!("{}: num_send_streams={} num_recv_streams={} with no stream left", side.name(), st.num_send_streams, st.num_recv_streams));
        }
        if st.recv_in_flight != 0 {
            out.fail("C19", "idle/in-flight", "C19/recv-in-flight-not-zero", format!("{}: {} received bytes still counted in flight although every receive handle is gone", side.name(), st.recv_in_flight));
        }
        if st.send_window >= 0 && st.send_available != st.send_window {
            out.fail("C19", "idle/send-capacity", "C19/connection-send-capacity-still-assigned", format!("{}: connection send window {} but only {} unassigned, with no stream left", side.name(), st.send_window, st.send_available));
        }
    }
    if cx.client_handles_gone {
        let client_goaway = cx.tap.frames.iter().any(|f| f.from == Side::Client && matches!(&f.frame, Ok(Frame::GoAway { code: 0, .. })));
        let done_ok = cx.events.iter().any(|e| e.side == Side::Client && matches!(&e.api, Api::ConnDone { result: Ok(()) }));
        if !client_goaway {
            out.fail("C19", "idle-close/goaway", "C19/idle-client-no-goaway", "last SendRequest and last stream are gone but the client never sent GOAWAY(NO_ERROR)".to_string());
        } else if !cx.c2s_shutdown {
            out.fail("C19", "idle-close/shutdown", "C19/idle-client-no-transport-shutdown", "client sent GOAWAY(NO_ERROR) but never shut the transport down".to_string());
        } else if !done_ok {
            out.fail("C19", "idle-close/result", "C19/idle-client-connection-not-ok", "idle client connection did not complete with Ok(())".to_string());
        }
    }
}

// ------------------------------------------------------------ C05

pub struct C05Ctx<'a> {
    pub tap: &'a Tap,
    pub av: &'a crate::oracles::AckedView,
    pub events: &'a [ApiEvent],
    pub h2_sides: &'a [Side],
    /// advertised limits [client, server] (None = unlimited)
    pub advertised: [Option<u32>; 2],
    pub check_recycling: bool,
}

pub fn check_c05(cx: &C05Ctx, out: &mut Outcome) {
    let ws = wire_streams(cx.tap);
    let apps = app_streams(cx.events);
    for &e in cx.h2_sides {
        let i = crate::tapx::side_idx(e);
        let p = 1 - i;
        // ---- send side, server: pushed streams count against the client's limit from their response HEADERS (reserved
        // streams do not count, RFC 9113 §5.1.2) until the server ends or either side resets them
        if e == Side::Server {
            let mut started: Vec<u32> = Vec::new();
            let mut ended: std::collections::HashSet<u32> = std::collections::HashSet::new();
            for (pos, f) in cx.tap.frames.iter().enumerate() {
                if f.from != e {
                    continue;
                }
                match &f.frame {
                    Ok(Frame::Headers { stream, end_stream, .. }) if stream % 2 == 0 && *stream != 0 => {
                        if !started.contains(stream) {
                            if let Some(limit) = cx.av.at[pos].2 {
                                let open: Vec<u32> = started
                                    .iter()
                                    .copied()
                                    .filter(|s2| !ended.contains(s2))
                                    .filter(|s2| !ws.get(s2).map(|w2| w2.rst[p].iter().any(|r| r.1.map(|t| t <= f.t_w0).unwrap_or(false))).unwrap_or(false))
                                    .collect();
                                if open.len() >= limit as usize {
                                    out.fail(
                                        "C05",
                                        "concurrency/send",
                                        "C05/opens-pushed-stream-over-peer-limit",
                                        format!("server starts the pushed response on stream {} while {} earlier pushed streams {:?} are still open on the wire; the client's acknowledged SETTINGS_MAX_CONCURRENT_STREAMS is {}", stream, open.len(), &open[..open.len().min(8)], limit),
                                    );
                                }
                            }
                            started.push(*stream);
                        }
                        if *end_stream {
                            ended.insert(*stream);
                        }
                    }
                    Ok(Frame::Data { stream, end_stream: true, .. }) => {
                        ended.insert(*stream);
                    }
                    Ok(Frame::Rst { stream, .. }) => {
                        ended.insert(*stream);
                    }
                    _ => {}
                }
            }
        }
        // ---- send side: E's own streams open on the wire vs the limit E has acknowledged
        if e == Side::Client {
            for (pos, f) in cx.tap.frames.iter().enumerate() {
                if f.from != e {
                    continue;
                }
                if let Ok(Frame::Headers { stream, .. }) = &f.frame {
                    let w = &ws[stream];
                    // (the opening frame itself, identified by its position in the byte stream: trailers written in the
                    // same step are HEADERS too)
                    if w.opened_by != Some(e) || w.open_off != f.off0 {
                        continue;
                    }
                    let limit = match cx.av.at[pos].2 {
                        Some(l) => l as usize,
                        None => continue,
                    };
                    // earlier own streams not certainly closed (as far as E can know) when this HEADERS is written
                    let mut open = Vec::new();
                    for (s2, w2) in ws.iter() {
                        if *s2 >= *stream || w2.opened_by != Some(e) {
                            continue;
                        }
                        let e_closed = w2.end[i].map(|x| x.0 <= f.t_w0).unwrap_or(false) || w2.rst[i].iter().any(|r| r.0 <= f.t_w0);
                        let p_end_known = w2.end[p].map(|x| x.1.map(|t| t <= f.t_w0).unwrap_or(false)).unwrap_or(false);
                        let p_rst_known = w2.rst[p].iter().any(|r| r.1.map(|t| t <= f.t_w0).unwrap_or(false));
                        let e_rst = w2.rst[i].iter().any(|r| r.0 <= f.t_w0);
                        let closed = e_rst || p_rst_known || (e_closed && p_end_known);
                        if !closed {
                            open.push(*s2);
                        }
                    }
                    if open.len() >= limit.max(0) && limit > 0 || (limit == 0) {
                        if open.len() >= limit {
                            out.fail(
                                "C05",
                                "concurrency/send",
                                "C05/opens-stream-over-peer-limit",
                                format!("{} opens stream {} while {} earlier streams {:?} are still open on the wire; the peer's acknowledged SETTINGS_MAX_CONCURRENT_STREAMS is {}", e.name(), stream, open.len(), &open[..open.len().min(8)], limit),
                            );
                        }
                    }
                    if open.len() + 1 == limit {
                        out.label("limit-reached");
                    }
                }
            }
        }
        // ---- receive side (server): streams surfaced to the application concurrently
        if e == Side::Server {
            if let Some(limit) = cx.advertised[i] {
                // in log order (several streams can be accepted within one executor step)
                let accepted: Vec<(u64, u32)> = cx.events.iter().filter(|ev| ev.side == e).filter_map(|ev| if let Api::Accepted { stream } = &ev.api { Some((ev.step, *stream)) } else { None }).collect();
                for (k, (t, s)) in accepted.iter().enumerate() {
                    let active = accepted[..k]
                        .iter()
                        .filter(|(_, s2)| s2 != s)
                        .filter(|(_, s2)| {
                            let a = apps.get(&(e, *s2));
                            let app_ended = a.map(|a| a.end_submitted.map(|x| x <= *t).unwrap_or(false) || a.resets.iter().any(|r| r.0 <= *t) || a.early_drop.map(|x| x <= *t).unwrap_or(false)).unwrap_or(false);
                            let peer_rst = ws.get(s2).map(|w| w.rst[p].iter().any(|r| r.1.map(|x| x <= *t).unwrap_or(false))).unwrap_or(false);
                            // the endpoint's own RST_STREAM already on the wire (implicit reset after the application let go
                            // of the stream, e.g. when send_response refused its header)
                            let own_rst = ws.get(s2).map(|w| w.rst[i].iter().any(|r| r.0 <= *t)).unwrap_or(false);
                            !app_ended && !peer_rst && !own_rst
                        })
                        .count();
                    if active >= limit as usize {
                        out.fail("C05", "concurrency/recv", "C05/surfaces-more-streams-than-advertised", format!("server hands stream {} to the application while {} accepted streams are still active; advertised limit {}", s, active, limit));
                    }
                }
                // a refused stream never reaches the application
                let acc: HashSet<u32> = accepted.iter().map(|x| x.1).collect();
                for (s, w) in &ws {
                    // a refusal by the library: RST_STREAM(REFUSED_STREAM) with nothing sent on the stream before
                    // and no send_reset by the application
                    let app_reset = apps.get(&(e, *s)).map(|a| !a.resets.is_empty()).unwrap_or(false);
                    if w.opened_by == Some(e.other()) && w.headers_t_w[i].is_none() && !app_reset && w.rst[i].first().map(|r| r.2 == REFUSED_STREAM).unwrap_or(false) {
                        out.label("stream-refused");
                        if acc.contains(s) {
                            out.fail("C05", "concurrency/refused-surfaced", "C05/refused-stream-reached-application", format!("stream {} was answered with REFUSED_STREAM and also returned by accept()", s));
                        }
                    }
                }
                // recycling: a refusal needs `limit` earlier streams that may still be open
                if cx.check_recycling {
                    for (s, w) in &ws {
                        if w.opened_by != Some(e.other()) {
                            continue;
                        }
                        let app_reset = apps.get(&(e, *s)).map(|a| !a.resets.is_empty()).unwrap_or(false);
                        let refused = w.headers_t_w[i].is_none() && !app_reset && w.rst[i].first().map(|r| r.2 == REFUSED_STREAM).unwrap_or(false);
                        if !refused {
                            continue;
                        }
                        let h_t_w = w.open_t;
                        let maybe_open = ws
                            .iter()
                            .filter(|(s2, w2)| **s2 < *s && w2.opened_by == Some(e.other()))
                            .filter(|(_, w2)| {
                                // certainly closed: P closed it (END_STREAM/RST written before HEADERS(s) in P's order)
                                // and E's closing frame was written before HEADERS(s) was delivered, or either RST
                                // (P's frames are ordered by their position in P's byte stream: the same step may carry many)
                                let p_rst_before = w2.rst_off[p].iter().any(|o| *o < w.open_off);
                                let p_closed = w2.end_off[p].map(|o| o < w.open_off).unwrap_or(false) || p_rst_before;
                                let hd = w.frames_d[p].first().copied().unwrap_or(u64::MAX);
                                let e_closed = w2.end[i].map(|x| x.0 < hd).unwrap_or(false) || w2.rst[i].iter().any(|r| r.0 < hd);
                                let rst_any = p_rst_before || w2.rst[i].iter().any(|r| r.0 < hd);
                                !(rst_any || (p_closed && e_closed))
                            })
                            .count();
                        if maybe_open < limit as usize {
                            // which history: a stream that had certainly closed before the refused HEADERS arrived (ended
                            // by END_STREAM both ways, or reset by the peer) and for which the endpoint nevertheless wrote
                            // an RST_STREAM of its own afterwards (it owed one because the application had let go of the
                            // stream early) held the slot
                            let hd = w.frames_d[p].first().copied().unwrap_or(u64::MAX);
                            let owed: Vec<u32> = ws
                                .iter()
                                .filter(|(s2, w2)| **s2 < *s && w2.opened_by == Some(e.other()))
                                .filter(|(_, w2)| {
                                    let ended_both = w2.end_off[p].map(|o| o < w.open_off).unwrap_or(false) && w2.end[i].map(|x| x.0 < hd).unwrap_or(false);
                                    let peer_reset = w2.rst_off[p].iter().any(|o| *o < w.open_off);
                                    let wrote_later = (ended_both || peer_reset) && !w2.rst[i].iter().any(|r| r.0 < hd) && w2.rst[i].iter().any(|r| r.0 >= hd);
                                    wrote_later
                                })
                                .map(|(s2, w2)| (s2, w2))
                                .chain(ws.iter().filter(|(s2, w2)| **s2 < *s && w2.opened_by == Some(e.other())).filter(|(s2, w2)| {
                                    // … or the application had already reset / let go of the stream (so that the endpoint owed the
                                    // peer an RST_STREAM) and that frame had not been written yet when the refused HEADERS arrived
                                    let asked = apps.get(&(e, **s2)).map(|a| a.resets.first().map(|r| r.0).into_iter().chain(a.early_drop).min().map(|t| t < hd).unwrap_or(false)).unwrap_or(false);
                                    asked && !w2.rst[i].iter().any(|r| r.0 < hd)
                                }))
                                .map(|(s2, _)| *s2)
                                .collect();
                            let sig = if owed.is_empty() { "C05/refuses-although-slots-are-free".to_string() } else { "C05/refuses-although-slots-are-free/slot-held-by-closed-stream-still-owed-a-reset".to_string() };
                            out.fail(
                                "C05",
                                "concurrency/recycling",
                                sig,
                                format!("server refused stream {} although at most {} earlier streams could still be open; advertised limit {}{}", s, maybe_open, limit, if owed.is_empty() { String::new() } else { format!(" (streams {:?} had ended — END_STREAM both ways or reset by the peer — but were still owed an RST_STREAM by the endpoint)", owed) }),
                            );
                        }
                    }
                }
            }
        }
    }
}

// ------------------------------------------------------------ C07

pub struct C07Ctx<'a> {
    pub events: &'a [ApiEvent],
    pub unfinished: &'a [(String, Group)],
    pub end: &'a RunEnd,
    pub completed_when_repolled: Option<bool>,
    /// which connection objects were dropped by the program (their ConnDone is not expected)
    pub dropped_conn: [bool; 2],
    pub ending: String,
    /// the program has two tasks waiting on the same stream's send side (SendRequest::ready() behind a
    /// queued request + poll_capacity/poll_reset on that request's SendStream)
    pub two_send_waiters: bool,
}

pub fn check_c07(cx: &C07Ctx, out: &mut Outcome) {
    if *cx.end != RunEnd::Quiescent {
        return;
    }
    let pending: Vec<&(String, Group)> = cx.unfinished.iter().filter(|(_, g)| !matches!(g, Group::Control)).collect();
    if !pending.is_empty() {
        let mut kinds: Vec<String> = pending.iter().map(|(n, _)| strip_digits(n)).collect();
        kinds.sort();
        kinds.dedup();
        let how = match cx.completed_when_repolled {
            Some(true) => "they complete once re-polled: lost wake-up",
            _ => "they stay pending even when re-polled",
        };
        let only_send_waiters = kinds.iter().any(|k| matches!(k.as_str(), "c-body" | "c-second" | "c-resetwatch")); // (others pending are downstream of it)
        // (whether the rest then completes under generous polling does not matter: a program of this shape that also
        // watches poll_reset runs into the second recorded finding once the first wake-up has been made up for)
        let sig = if cx.two_send_waiters && only_send_waiters {
            "C07/two-waiters-share-the-stream-send-task-slot".to_string()
        } else {
            format!("C07/hang-after-{}/{}", cx.ending, kinds.join("+"))
        };
        out.fail(
            "C07",
            "ending/hang",
            sig,
            format!("after the connection ended ({}) tasks {:?} are still pending at quiescence; {}", cx.ending, pending.iter().map(|p| &p.0).collect::<Vec<_>>(), how),
        );
    }
    for (i, side) in [Side::Client, Side::Server].iter().enumerate() {
        if cx.dropped_conn[i] {
            continue;
        }
        let done = cx.events.iter().any(|e| e.side == *side && matches!(&e.api, Api::ConnDone { .. }));
        let started = cx.events.iter().any(|e| e.side == *side);
        if !done && started && pending.is_empty() {
            out.fail("C07", "ending/connection-future", format!("C07/connection-future-pending-after-{}", cx.ending), format!("{} connection future never completed after {}", side.name(), cx.ending));
        }
    }
}

// ------------------------------------------------------------ C03 receive-window conservation

pub struct C03Ctx<'a> {
    pub tap: &'a Tap,
    pub events: &'a [ApiEvent],
    pub samples: &'a [(u64, Side, h2::verif::VerifStats)],
    pub final_stats: &'a [(Side, Option<h2::verif::VerifStats>, bool)],
    pub h2_sides: &'a [Side],
    /// configured connection-level target at start [client, server]
    pub conn_target: [u32; 2],
    /// configured initial stream window [client, server]
    pub initial_window: [u32; 2],
}

pub fn check_c03(cx: &C03Ctx, out: &mut Outcome) {
    for &e in cx.h2_sides {
        let i = crate::tapx::side_idx(e);
        let p = e.other();
        // ---- target over time (set_target_window_size calls from the API log)
        let mut targets: Vec<(u64, i64)> = vec![(0, cx.conn_target[i] as i64)];
        for ev in cx.events.iter().filter(|ev| ev.side == e) {
            if let Api::ConnOp { op } = &ev.api {
                if let Some(rest) = op.strip_prefix("set_target_window_size(") {
                    if let Ok(v) = rest.trim_end_matches(')').parse::<i64>() {
                        targets.push((ev.step, v));
                    }
                }
            }
        }
        let target_at = |t: u64| targets.iter().rev().find(|x| x.0 <= t).map(|x| x.1).unwrap_or(cx.conn_target[i] as i64);
        let target_changes: Vec<u64> = targets.iter().skip(1).map(|x| x.0).collect();
        // (a connection object the program dropped is as gone as one that completed: frames it had composed but not
        // yet written are lost with it)
        let conn_done_at = cx.events.iter().find(|ev| ev.side == e && (matches!(&ev.api, Api::ConnDone { .. }) || matches!(&ev.api, Api::ConnOp { op } if op.starts_with("drop(Connection)")))).map(|ev| ev.step);
        // ---- (1) conservation: available + in-flight == target at every sample of the live connection
        // (not within a few steps of a target change: the call and the sample are not atomic)
        let mut checked = 0;
        for (t, side, st) in cx.samples.iter().filter(|s| s.1 == e) {
            let _ = side;
            if conn_done_at.map(|d| *t >= d).unwrap_or(false) {
                break;
            }
            if target_changes.iter().any(|c| *t + 1 >= *c && *t <= *c + 16) {
                continue;
            }
            let sum = st.recv_available as i64 + st.recv_in_flight as i64;
            let target = target_at(*t);
            checked += 1;
            if sum != target {
                out.fail(
                    "C03",
                    "conservation/connection",
                    if sum < target { "C03/connection-window-credit-leaked" } else { "C03/connection-window-over-credited" },
                    format!("{} at step {}: connection receive window available {} + in flight {} = {} but the configured target is {}", e.name(), t, st.recv_available, st.recv_in_flight, sum, target),
                );
                break;
            }
        }
        if checked > 0 {
            out.label("conservation-sampled");
        }
        // ---- (2) bytes counted in flight are really held by someone: at each sample, in-flight ≤ bytes delivered
        // on streams whose receive handle is still alive minus what the application released
        let ws = wire_streams(cx.tap);
        let apps = app_streams(cx.events);
        // per stream: delivered DATA (time, flow len), releases (time, n), time the receive side was dropped/reset
        let mut delivered: HashMap<u32, Vec<(u64, i64)>> = HashMap::new();
        for f in cx.tap.frames.iter().filter(|f| f.from == p) {
            if let (Ok(Frame::Data { stream, .. }), Some(td)) = (&f.frame, f.t_d0) {
                delivered.entry(*stream).or_default().push((td, f.frame.as_ref().unwrap().flow_len() as i64));
            }
        }
        let mut key_stream: HashMap<u32, u32> = HashMap::new();
        for ((side, s), a) in &apps {
            if *side == e {
                key_stream.insert(a.key, *s);
            }
        }
        let mut released: HashMap<u32, Vec<(u64, i64)>> = HashMap::new();
        let mut gone: HashMap<u32, u64> = HashMap::new();
        for ev in cx.events.iter().filter(|ev| ev.side == e) {
            let s = match key_stream.get(&ev.key) {
                Some(s) => *s,
                None => continue,
            };
            match &ev.api {
                Api::Released { n, err: None } => released.entry(s).or_default().push((ev.step, *n as i64)),
                // (the moment the *reader* let go: a reset by the same side's sender leaves buffered data with the
                // still-alive receive handle)
                // (dropping a ResponseFuture is not dropping a RecvStream: h2 keeps buffering the response until the
                // last handle of the stream goes away, then credits it back — allowed)
                Api::DroppedRecv | Api::RecvErr { op: "data", .. } | Api::RecvErr { op: "trailers", .. } | Api::RecvTrailers { .. } => {
                    gone.entry(s).or_insert(ev.step);
                }
                _ => {}
            }
        }
        // cumulative sums for binary search
        let cum = |v: &Vec<(u64, i64)>| -> Vec<(u64, i64)> {
            let mut v2 = v.clone();
            v2.sort();
            let mut acc = 0;
            for x in v2.iter_mut() {
                acc += x.1;
                x.1 = acc;
            }
            v2
        };
        let at = |v: &Vec<(u64, i64)>, t: u64| -> i64 {
            let i = v.partition_point(|x| x.0 <= t);
            if i == 0 {
                0
            } else {
                v[i - 1].1
            }
        };
        let delivered_c: HashMap<u32, Vec<(u64, i64)>> = delivered.iter().map(|(k, v)| (*k, cum(v))).collect();
        let released_c: HashMap<u32, Vec<(u64, i64)>> = released.iter().map(|(k, v)| (*k, cum(v))).collect();
        let surfaced: HashSet<u32> = key_stream.values().copied().collect();
        let fut_dropped: HashSet<u32> = cx.events.iter().filter(|ev| ev.side == e && matches!(&ev.api, Api::DroppedResponseFuture)).filter_map(|ev| key_stream.get(&ev.key).copied()).collect();
        let e_reset: HashSet<u32> = ws.iter().filter(|(_, w)| !w.rst[i].is_empty()).map(|(s, _)| *s).collect();
        let mine: Vec<&(u64, Side, h2::verif::VerifStats)> = cx.samples.iter().filter(|s| s.1 == e).collect();
        let stride = (mine.len() / 400).max(1);
        for (t, _, st) in mine.iter().step_by(stride).map(|x| (&x.0, &x.1, &x.2)) {
            if conn_done_at.map(|d| *t >= d).unwrap_or(false) {
                break;
            }
            if st.recv_in_flight == 0 {
                continue;
            }
            let mut held: i64 = 0;
            let mut unknown = false;
            for (s, d) in &delivered_c {
                if let Some(g) = gone.get(s) {
                    // a stream the application no longer reads holds nothing — a grace period of a few steps for
                    // the release to be processed
                    if *g + 24 < *t {
                        continue;
                    }
                }
                if fut_dropped.contains(s) {
                    unknown = true;
                    break;
                }
                if !surfaced.contains(s) {
                    // never surfaced to the application (refused/unknown stream, or not yet accepted): the
                    // library may legitimately buffer it until accept
                    if !e_reset.contains(s) {
                        unknown = true;
                        break;
                    }
                    continue;
                }
                let del = at(d, *t);
                let rel = released_c.get(s).map(|v| at(v, *t)).unwrap_or(0);
                held += (del - rel).max(0);
            }
            if unknown {
                continue;
            }
            if st.recv_in_flight as i64 > held {
                // which history: DATA of pushed streams the application never claimed (promise or response never taken)
                let pushed_unclaimed: i64 = delivered_c.iter().filter(|(s, _)| **s % 2 == 0 && !surfaced.contains(*s)).map(|(_, d)| at(d, *t)).sum();
                let sig = if e == Side::Client && pushed_unclaimed > 0 && st.recv_in_flight as i64 - held <= pushed_unclaimed { "C03/data-of-unclaimed-pushed-stream-never-credited-back" } else { "C03/discarded-data-not-credited-back" };
                out.fail(
                    "C03",
                    "conservation/in-flight-held-by-nobody",
                    sig,
                    format!("{} at step {}: {} bytes are counted as in flight, but the application holds at most {} unreleased bytes on streams it still reads (data discarded for dropped/reset/finished streams must be credited back when discarded)", e.name(), t, st.recv_in_flight, held),
                );
                break;
            }
        }
        // ---- (3) wire: never over-credit. Streams: advertised(s,t) ≤ initial window in force; connection: after
        // every WINDOW_UPDATE(0) the advertised window ≤ the target configured then; both ≤ 2^31-1
        let mut iw_sent: i64 = 65535;
        let mut adv_conn: i64 = 65535;
        let mut adv: HashMap<u32, i64> = HashMap::new();
        // merge E's WINDOW_UPDATE/SETTINGS (by t_w0) and P's DATA (by t_d0)
        let mut evs: Vec<(u64, u8, usize)> = Vec::new();
        for (pos, f) in cx.tap.frames.iter().enumerate() {
            match (&f.frame, f.from == e) {
                (Ok(Frame::WinUp { .. }), true) | (Ok(Frame::Settings { ack: false, .. }), true) => evs.push((f.t_w0, 1, pos)),
                (Ok(Frame::Data { .. }), false) => {
                    if let Some(td) = f.t_d0 {
                        evs.push((td, 0, pos));
                    }
                }
                _ => {}
            }
        }
        evs.sort();
        for (t, _, pos) in evs {
            let f = &cx.tap.frames[pos];
            match &f.frame {
                Ok(Frame::Data { stream, .. }) => {
                    let n = f.frame.as_ref().unwrap().flow_len() as i64;
                    adv_conn -= n;
                    *adv.entry(*stream).or_insert(iw_sent) -= n;
                }
                Ok(Frame::Settings { params, .. }) => {
                    for (k, v) in params {
                        if *k == crate::refmodel::wire::S_INITIAL_WINDOW {
                            let d = *v as i64 - iw_sent;
                            iw_sent = *v as i64;
                            for a in adv.values_mut() {
                                *a += d;
                            }
                        }
                    }
                }
                Ok(Frame::WinUp { stream: 0, inc, .. }) => {
                    adv_conn += *inc as i64;
                    // the frame may have been composed (and buffered) some steps before it reached the transport:
                    // the largest target in force during the last 48 steps is what it is held against
                    let lo = t.saturating_sub(48);
                    let target = targets.iter().filter(|x| x.0 >= lo && x.0 <= t).map(|x| x.1).max().unwrap_or(0).max(target_at(lo)).max(target_at(t));
                    if adv_conn > target.max(65535) || adv_conn > 0x7fff_ffff {
                        out.fail("C03", "over-credit/connection", "C03/connection-window-advertised-above-target", format!("{} WINDOW_UPDATE(0, {}) at step {} raises the advertised connection window to {}, configured target {}", e.name(), inc, t, adv_conn, target));
                        break;
                    }
                }
                Ok(Frame::WinUp { stream, inc, .. }) => {
                    let a = adv.entry(*stream).or_insert(iw_sent);
                    *a += *inc as i64;
                    if *a > iw_sent.max(cx.initial_window[i] as i64) || *a > 0x7fff_ffff {
                        out.fail("C03", "over-credit/stream", "C03/stream-window-advertised-above-initial-window", format!("{} WINDOW_UPDATE({}, {}) at step {} raises the advertised stream window to {}, initial window in force {}", e.name(), stream, inc, t, *a, iw_sent));
                        break;
                    }
                }
                _ => {}
            }
        }
        // ---- (4) wire vs bookkeeping at the end: the window the peer can compute equals the one E believes it advertised
        if let Some((_, Some(st), _)) = cx.final_stats.iter().find(|s| s.0 == e) {
            if conn_done_at.is_none() {
                let delivered_all: i64 = cx.tap.frames.iter().filter(|f| f.from == p && f.t_d.is_some()).map(|f| f.frame.as_ref().map(|x| x.flow_len() as i64).unwrap_or(0)).sum();
                let undelivered = cx.tap.frames.iter().any(|f| f.from == p && f.t_d.is_none() && matches!(&f.frame, Ok(Frame::Data { .. })));
                let wu: i64 = cx.tap.frames.iter().filter(|f| f.from == e).filter_map(|f| if let Ok(Frame::WinUp { stream: 0, inc, .. }) = &f.frame { Some(*inc as i64) } else { None }).sum();
                let peer_view = 65535 + wu - delivered_all;
                if !undelivered && peer_view != st.recv_window as i64 {
                    out.fail("C03", "conservation/wire-vs-books", "C03/advertised-window-differs-from-bookkeeping", format!("{}: from the wire the connection window is {} (65535 + {} granted − {} received) but the endpoint believes it advertised {}", e.name(), peer_view, wu, delivered_all, st.recv_window));
                }
            }
        }
    }
}


// ------------------------------------------------------------ C05 / C06: a queued request goes out once a slot is free

/// At quiescence of a live connection every request the client application submitted (send_request returned Ok) and
/// did not cancel has its HEADERS on the wire, unless as many earlier streams as the acknowledged limit allows are
/// still open: "requests beyond the limit wait and are sent as soon as earlier streams close".
pub fn check_queued_requests_sent(tap: &Tap, av: &crate::oracles::AckedView, events: &[ApiEvent], live_quiescent: bool, out: &mut Outcome) {
    if !live_quiescent {
        return;
    }
    let e = Side::Client;
    let i = crate::tapx::side_idx(e);
    let p = 1 - i;
    if events.iter().any(|ev| matches!(&ev.api, Api::ConnDone { .. }) || matches!(&ev.api, Api::ConnOp { op } if op.starts_with("drop(Connection)") || op.starts_with("graceful") || op.starts_with("abrupt"))) {
        return;
    }
    if tap.frames.iter().any(|f| matches!(&f.frame, Ok(Frame::GoAway { .. }))) {
        return;
    }
    let ws = wire_streams(tap);
    let apps = app_streams(events);
    // the limit the client has acknowledged at the end
    let limit = tap.frames.iter().enumerate().filter(|(_, f)| f.from == e).last().and_then(|(pos, _)| av.at[pos].2);
    let limit = match limit {
        Some(l) => l as usize,
        None => usize::MAX,
    };
    let open_now = ws
        .iter()
        .filter(|(_, w)| w.opened_by == Some(e))
        .filter(|(_, w)| {
            let e_closed = w.end[i].is_some() || !w.rst[i].is_empty();
            let p_closed = w.end[p].map(|x| x.1.is_some()).unwrap_or(false) || w.rst[p].iter().any(|r| r.1.is_some());
            let any_rst = !w.rst[i].is_empty() || w.rst[p].iter().any(|r| r.1.is_some());
            !(any_rst || (e_closed && p_closed))
        })
        .count();
    for ev in events.iter().filter(|ev| ev.side == e) {
        if let Api::SentHead { kind: "request", stream, .. } = &ev.api {
            if *stream == 0 {
                continue;
            }
            let on_wire = ws.get(stream).map(|w| w.headers_t_w[i].is_some()).unwrap_or(false);
            if on_wire {
                continue;
            }
            let cancelled = apps.get(&(e, *stream)).map(|a| !a.resets.is_empty() || a.early_drop.is_some()).unwrap_or(false) || events.iter().any(|x| x.side == e && x.key == ev.key && matches!(&x.api, Api::DroppedResponseFuture | Api::DroppedSend | Api::SentReset { .. }));
            if cancelled {
                continue;
            }
            if open_now < limit {
                out.fail(
                    "C05",
                    "concurrency/queued-request",
                    "C05/queued-request-never-sent-although-a-slot-is-free",
                    format!("client: send_request for stream {} (key {}) succeeded and the application still waits for it, the connection is idle, {} of its streams are open on the wire and the acknowledged limit is {} — yet the request's HEADERS were never written", stream, ev.key, open_now, if limit == usize::MAX { "none".to_string() } else { limit.to_string() }),
                );
                return;
            }
        }
    }
}
