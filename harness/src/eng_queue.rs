//! RAW client engine for the concurrency limit seen from the sending side (C05 send side, C06): the reference peer
//! advertises a small SETTINGS_MAX_CONCURRENT_STREAMS, the client application submits more requests than that, and
//! the slots of the open streams are released in every way a slot can be released — the peer's END_STREAM, the
//! client's own END_STREAM after an early complete response, an explicit send_reset, the loss of every handle
//! (implicit CANCEL), the peer's RST_STREAM — while the peer changes the limit mid-connection and stops reading for
//! a while (write back-pressure on the client).
//!
//! Oracles: the client never opens a stream beyond the limit it has acknowledged (tap), every submitted request
//! that was not cancelled reaches the wire as soon as the limit permits (tap at quiescence), and when the peer has
//! answered every stream the whole program completes.

use crate::eng_raw::*;
use crate::oracles::*;
use crate::oracles2::*;
use crate::refmodel::wire::Frame;
use crate::runner::{Engine, Outcome};
use crate::sim::*;
use crate::sim_pair::*;
use crate::sim_raw::*;
use crate::tape::Tape;

/// how the slot of request i is released
const K_PEER_ENDS: u8 = 0;
const K_OWN_END_AFTER_RESPONSE: u8 = 1;
const K_EXPLICIT_RESET: u8 = 2;
const K_DROP_HANDLES: u8 = 3;
const K_PEER_RESET: u8 = 4;

fn kind_name(k: u8) -> &'static str {
    match k {
        K_PEER_ENDS => "peer-ends",
        K_OWN_END_AFTER_RESPONSE => "own-end-after-early-response",
        K_EXPLICIT_RESET => "explicit-reset",
        K_DROP_HANDLES => "handles-dropped",
        _ => "peer-reset",
    }
}

pub fn gen_queue_client(tapes: &[Vec<u32>]) -> RawCase {
    let mut t = Tape::new(&tapes[0]);
    let mut cfg = plain_cfg();
    let k = 1 + t.below(3); // the peer's initial limit
    let q = 1 + t.below(3); // requests beyond it
    let n = k + q;
    let back_pressure = t.chance(1, 2);
    // variant: the client's stream identifiers run out during the run (Builder::initial_stream_id close to 2^31-1);
    // late requests are issued after that, and after a late frame for a stream the client has already forgotten
    let exhaust = t.chance(1, 5);
    let ids_left = if exhaust { 1 + t.below(n) } else { 0 };
    if exhaust {
        cfg.initial_stream_id = Some(0x7fff_ffff - 2 * (ids_left as u32 - 1));
    }
    let mut reqs: Vec<Req> = Vec::new();
    let mut kinds: Vec<u8> = Vec::new();
    for i in 0..n {
        let mut r = default_req(i as u32 + 1);
        // issued in order, after the peer's SETTINGS have (most probably) arrived
        r.delay = 10 + 3 * i + t.below(3);
        r.clone_handle = true;
        // only the first k requests (which find a free slot) may be given up by the client itself: a queued request
        // cancelled before it was opened never appears on the wire, and the script counts streams
        let kind = if i < k { *t.pick(&[K_PEER_ENDS, K_OWN_END_AFTER_RESPONSE, K_EXPLICIT_RESET, K_EXPLICIT_RESET, K_DROP_HANDLES, K_DROP_HANDLES, K_PEER_RESET]) } else { *t.pick(&[K_PEER_ENDS, K_OWN_END_AFTER_RESPONSE, K_PEER_RESET]) };
        let d = 25 + t.below(80);
        match kind {
            K_OWN_END_AFTER_RESPONSE => {
                r.method = "POST".into();
                r.req.eos_on_head = false;
                let len = if back_pressure { *t.pick(&[3000usize, 10000, 30000]) } else { *t.pick(&[10usize, 3000, 30000]) };
                r.req.chunks = vec![Chunk { len, reserve: false, cuts: vec![], delay: d, hold: 0 }];
            }
            K_EXPLICIT_RESET => {
                r.method = "PUT".into();
                r.req.eos_on_head = false;
                r.req.chunks = vec![Chunk { len: *t.pick(&[0usize, 10]), reserve: false, cuts: vec![], delay: d, hold: 0 }];
                r.req.end = EndKind::Reset { after: 1, code: 8 };
            }
            K_DROP_HANDLES => {
                r.method = "PUT".into();
                r.req.eos_on_head = false;
                r.drop_response_future = true;
                r.req.chunks = vec![Chunk { len: *t.pick(&[0usize, 10]), reserve: false, cuts: vec![], delay: d, hold: 0 }];
                r.req.end = EndKind::Drop { after: 1 };
            }
            _ => {}
        }
        kinds.push(kind);
        reqs.push(r);
    }
    let nlate = if exhaust { 1 + t.below(2) } else { 0 };
    for i in 0..nlate {
        let mut r = default_req((n + i) as u32 + 1);
        r.delay = 260 + 40 * i + t.below(60);
        r.clone_handle = true;
        reqs.push(r);
        kinds.push(K_PEER_ENDS);
    }
    let n = n + nlate;
    // the last request's task may send a follow-up on the same handle (parks in poll_ready behind its own queued stream)
    let follow_up = t.chance(1, 4);
    if follow_up {
        reqs[n - 1].then_second = true;
    }
    let total = n + follow_up as usize;
    let ok = vec![(":status".to_string(), "200".to_string())];
    let mut script: Vec<PStep> = vec![PStep::Barrier];
    // one disturbance somewhere among the answers: a new limit, with or without a pause in the peer's reading
    let disturb_at = if t.chance(3, 4) { Some(t.below(total)) } else { None };
    // (0 = no new streams at all; the peer raises it again a little later)
    let new_limit = t.below(5) as u32;
    let raise_to = 1 + t.below(3) as u32;
    let raise_after = 20 + t.below(80);
    let mut disturbance = String::from("none");
    let for_key = |key: u32, step: PStep| PStep::ForKey { key, step: Box::new(step) };
    for nth in 0..total {
        // (requests need not be opened in the order of their keys: every answer is addressed by the x-id the
        // request carried)
        script.push(PStep::WaitStreams(nth + 1));
        if t.chance(1, 3) {
            script.push(PStep::Yield(t.below(12)));
        }
        let key = if nth < n { nth as u32 + 1 } else { n as u32 + 500 };
        let kind = if nth < n { kinds[nth] } else { K_PEER_ENDS };
        match kind {
            K_PEER_ENDS => {
                script.push(for_key(key, PStep::Respond { nth: 0, fields: ok.clone(), end_stream: false, splits: vec![] }));
                script.push(for_key(key, PStep::RespondData { nth: 0, len: 10, pad: None, end_stream: true }));
            }
            K_OWN_END_AFTER_RESPONSE => {
                // early, complete response: the stream closes when the client's own END_STREAM is written
                script.push(for_key(key, PStep::Respond { nth: 0, fields: ok.clone(), end_stream: true, splits: vec![] }));
            }
            K_PEER_RESET => {
                script.push(for_key(key, PStep::RespondFrame { nth: 0, f: Frame::Rst { stream: 0, code: *t.pick(&[7u32, 8, 2]) } }));
            }
            _ => {
                // the client gives these up by itself; sometimes a response head arrives first
                if t.bool() {
                    script.push(for_key(key, PStep::Respond { nth: 0, fields: ok.clone(), end_stream: false, splits: vec![] }));
                }
            }
        }
        if disturb_at == Some(nth) {
            let set = fr_settings(new_limit);
            if back_pressure {
                disturbance = format!("limit->{}:while-client-writes-blocked", new_limit);
                script.push(PStep::Reading(false));
                script.push(PStep::Yield(20 + t.below(120)));
                script.push(set);
                script.push(PStep::Yield(5 + t.below(40)));
                script.push(PStep::Reading(true));
            } else {
                disturbance = format!("limit->{}", new_limit);
                script.push(set);
            }
            if new_limit == 0 {
                disturbance.push_str(&format!("->{}", raise_to));
                script.push(PStep::Yield(raise_after));
                script.push(fr_settings(raise_to));
            }
        }
    }
    script.push(PStep::Yield(40));
    script.push(PStep::Barrier);
    if exhaust {
        // (the script above stops at the first stream that is never opened; the late frames must not depend on it)
        let stop = script.len();
        let mut tail: Vec<PStep> = Vec::new();
        for (i, kd) in kinds.iter().enumerate().take(ids_left) {
            if *kd == K_PEER_ENDS || *kd == K_PEER_RESET {
                let key = i as u32 + 1;
                let f = match t.below(3) {
                    0 => Frame::Data { stream: 0, end_stream: t.bool(), pad: None, data: b"late".to_vec() },
                    1 => Frame::WinUp { stream: 0, inc: 10, inc_r: false },
                    _ => Frame::Rst { stream: 0, code: 8 },
                };
                tail.push(for_key(key, PStep::RespondFrame { nth: 0, f }));
            }
        }
        // placed before the first wait that can never be satisfied: after the answer to the last stream that can open
        let mut at = stop;
        for (i, st) in script.iter().enumerate() {
            if matches!(st, PStep::WaitStreams(w) if *w > ids_left) {
                at = i;
                break;
            }
        }
        tail.insert(0, PStep::Yield(30 + t.below(40)));
        tail.push(PStep::Barrier);
        for (j, st) in tail.into_iter().enumerate() {
            script.insert(at + j, st);
        }
    }
    let spec = RawSpec { peer_settings: vec![(3, k as u32)], script, grant: Grant::Eager, close_at_end: false };
    let mut t2 = Tape::new(&tapes[1]);
    let ns = t2.below(300);
    let sched = (0..ns).map(|_| t2.u32()).collect();
    let mut t3 = Tape::new(&tapes[2]);
    let n1 = t3.below(120);
    let chunk_c2s = (0..n1).map(|_| t3.u32()).collect();
    let n2 = t3.below(120);
    let chunk_s2c = (0..n2).map(|_| t3.u32()).collect();
    let base = PairCase {
        cap: None,
        accept_limit: None,
        ccfg: cfg.clone(),
        scfg: cfg,
        client_init_max_send: None,
        vectored_c: t3.bool(),
        vectored_s: false,
        sched,
        chunk_c2s,
        chunk_s2c,
        reqs,
        ops: vec![],
        fault: None,
        drop_send_request_at_end: t3.bool(),
        nest: vec![],
    };
    let inj = Inject {
        item: format!("limit={}:queued={}:{}{}", k, q, disturbance, if exhaust { ":stream-ids-run-out" } else { "" }),
        state: kinds.iter().take(k).map(|k| kind_name(*k)).collect::<Vec<_>>().join("+"),
        class: Class::Either,
        stream: 0,
        basis: "RFC 9113 §5.1.2, §6.5.2 SETTINGS_MAX_CONCURRENT_STREAMS; client::SendRequest documentation (requests beyond the limit are queued)".into(),
        never_surface: vec![],
        must_deliver: vec![],
        must_deliver_streams: vec![],
        no_head: vec![],
        no_clean_end: vec![],
        prop: "C05".into(),
        wire_optional: true,
    };
    RawCase { h2_side: Side::Client, base, spec, inject: Some(inj), probe_stream: 0, e_out_cap: if back_pressure { Some(*t.pick(&[300usize, 2000, 9000])) } else { None } }
}

fn fr_settings(limit: u32) -> PStep {
    PStep::Frame { f: Frame::Settings { ack: false, params: vec![(3, limit)] }, extra_flags: 0, r_bit: false }
}

pub struct QueueEngine;

impl Engine for QueueEngine {
    type Case = RawCase;
    fn name(&self) -> &'static str {
        "raw-queue-client"
    }
    fn tape_lens(&self) -> Vec<usize> {
        vec![120, 301, 242]
    }
    fn gen(&self, tapes: &[Vec<u32>]) -> RawCase {
        gen_queue_client(tapes)
    }
    fn rule(&self) -> String {
        "h2 client against the reference peer advertising MAX_CONCURRENT_STREAMS 1–3: 1–3 more requests than the limit (each on its own SendRequest clone, optionally a follow-up parked in poll_ready), the slots of the open streams released by the peer's END_STREAM / the client's own END_STREAM after an early complete response (bodies up to 30000 B) / explicit send_reset / loss of every handle / the peer's RST_STREAM after generated delays, the peer changing the limit to 0–4 at a generated point (0 is raised again a little later), optionally while it has stopped reading (client output pipe 300–9000 B); non-trivial = at least one request had to wait for a slot (its HEADERS follow the closing of an earlier stream, or it is still queued at the end)".into()
    }
    fn shrink_iters(&self) -> u32 {
        400
    }
    fn run(&self, case: &RawCase) -> Outcome {
        let rr = run_raw(case);
        let an = analyse_raw(case, &rr);
        let mut out = Outcome::default();
        common_raw_oracles(case, &rr, &an, &mut out);
        let e = Side::Client;
        check_c05(&C05Ctx { tap: &an.tap, av: &an.av, events: &rr.run.events, h2_sides: &[e], advertised: [None, None], check_recycling: false }, &mut out);
        let live = rr.run.end == RunEnd::Quiescent && rr.run.panic.is_none();
        check_queued_requests_sent(&an.tap, &an.av, &rr.run.events, live, &mut out);
        crate::eng_raw2::check_peer_resets_surface(e, &rr.run.events, &an.tap, &mut out);
        if rr.obs.script_done && rr.run.panic.is_none() {
            // every stream the client opened was answered completely (or given up by the client itself): nothing
            // is left for the application to wait for
            check_c06(&StallInfo { two_send_waiters: false, unfinished: &rr.run.unfinished, completed_when_repolled: rr.run.completed_when_repolled, end: &rr.run.end }, false, &mut out);
        }
        if let Some(inj) = &case.inject {
            out.label(format!("item:{}", inj.item));
            out.label(format!("openers:{}", inj.state));
        }
        // a request waited: its opening HEADERS were written after an earlier own stream had been closed on the wire
        let opened: Vec<u32> = rr.obs.e_streams.clone();
        let submitted = rr.run.events.iter().filter(|ev| ev.side == e && matches!(&ev.api, Api::SentHead { kind: "request", .. })).count();
        let limit0 = case.spec.peer_settings.iter().find(|p| p.0 == 3).map(|p| p.1 as usize).unwrap_or(usize::MAX);
        let waited = submitted > limit0;
        if waited {
            out.label("request-waited-for-slot");
        }
        if opened.len() < submitted {
            out.label("requests-left-queued-or-cancelled");
        }
        out.nontrivial = waited;
        out.note = format!("{} wire frames, end={:?}, script_done={}, opened {:?} of {} submitted", an.tap.frames.len(), rr.run.end, rr.obs.script_done, opened, submitted);
        out
    }
}
