//! h2v — property checks for hyperium/h2 (see /verif/DESIGN.md).
//!   h2v check <Cxx> [--tier quick|thorough]
//!   h2v replay <file>
//!   h2v selftest

use h2v::{checks, heapmeter, runner};

#[global_allocator]
static ALLOC: heapmeter::Meter = heapmeter::Meter;

fn main() {
    let args: Vec<String> = std::env::args().collect();
    let code = match args.get(1).map(|s| s.as_str()) {
        Some("check") => {
            let id = args.get(2).expect("property id");
            let mut tier = match std::env::var("VERIF_TIER").ok().as_deref() {
                Some("thorough") => runner::Tier::Thorough,
                _ => runner::Tier::Quick,
            };
            let mut i = 3;
            while i < args.len() {
                if args[i] == "--tier" {
                    tier = if args.get(i + 1).map(|s| s.as_str()) == Some("thorough") { runner::Tier::Thorough } else { runner::Tier::Quick };
                    i += 1;
                } else if args[i] == "quick" {
                    tier = runner::Tier::Quick;
                } else if args[i] == "thorough" {
                    tier = runner::Tier::Thorough;
                }
                i += 1;
            }
            checks::run_check(id, tier)
        }
        Some("replay") => checks::replay(args.get(2).expect("replay file")),
        Some("selftest") => checks::selftest(),
        Some("fuzz-seeds") => checks::fuzz_seeds(),
        _ => {
            eprintln!("usage: h2v check <Cxx> [--tier quick|thorough] | replay <file> | selftest");
            2
        }
    };
    std::process::exit(code);
}
