//! C20, real parallelism: an h2 client and an h2 server over an in-memory
//! duplex, each connection driven by its own OS thread, while further OS
//! threads use request, send-stream, receive-stream / flow-control and ping
//! handles at full speed. The program (number of producers, chunk sizes,
//! windows, resets, pings, handle clones) is generated; the interleaving is
//! whatever the machine produces. Oracle: every thread finishes (a thread
//! parked for good with every other thread asleep is a deadlock or a lost
//! wake-up), payload bytes arrive intact and in order, nothing panics and no
//! lock is poisoned. Slowness is never a verdict: a stall is only reported
//! when no involved thread consumed CPU time between two looks.

use crate::eng_codec::{mix, mix_bytes};
use crate::runner::{Engine, Outcome};
use crate::tape::Tape;
use bytes::Bytes;
use serde::{Deserialize, Serialize};
use std::future::Future;
use std::pin::pin;
use std::sync::atomic::{AtomicBool, AtomicU64, Ordering};
use std::sync::{Arc, Mutex};
use std::task::{Context, Poll, Wake, Waker};
use std::time::{Duration, Instant};

#[derive(Clone, Debug, Serialize, Deserialize)]
pub struct ThreadCase {
    pub producers: usize,
    pub chunks: usize,
    pub chunk_lens: Vec<usize>,
    pub window: Option<u32>,
    pub conn_window: Option<u32>,
    pub max_frame: Option<u32>,
    pub pipe: usize,
    /// producer i resets its stream after this many chunks (0 = never)
    pub reset_after: Vec<usize>,
    pub pings: usize,
    pub clones: usize,
    /// readers release capacity in lumps of this many bytes (0 = at once)
    pub release_lump: usize,
    pub reserve: bool,
    /// each producer ends with a follow-up request whose http::Request extensions own the last reference to the
    /// send handle of its first stream (dropped somewhere inside send_request)
    #[serde(default)]
    pub ext_handles: bool,
}

struct Parker {
    thread: std::thread::Thread,
    woken: AtomicBool,
}
impl Wake for Parker {
    fn wake(self: Arc<Self>) {
        self.wake_by_ref()
    }
    fn wake_by_ref(self: &Arc<Self>) {
        self.woken.store(true, Ordering::SeqCst);
        self.thread.unpark();
    }
}

/// Runs a future on the calling thread; parks without timeout (a lost wake-up parks for good).
fn block_on<F: Future>(f: F) -> F::Output {
    let p = Arc::new(Parker { thread: std::thread::current(), woken: AtomicBool::new(false) });
    let waker = Waker::from(p.clone());
    let mut cx = Context::from_waker(&waker);
    let mut f = pin!(f);
    loop {
        if let Poll::Ready(v) = f.as_mut().poll(&mut cx) {
            return v;
        }
        while !p.woken.swap(false, Ordering::SeqCst) {
            std::thread::park();
        }
    }
}

#[derive(Default)]
struct Shared {
    progress: AtomicU64,
    tids: Mutex<Vec<(String, u32)>>,
    finished: AtomicU64,
    errors: Mutex<Vec<String>>,
    corrupt: Mutex<Vec<String>>,
}

fn register(sh: &Shared, name: &str) {
    // /proc/thread-self -> "<pid>/task/<tid>"
    if let Ok(l) = std::fs::read_link("/proc/thread-self") {
        if let Some(t) = l.to_string_lossy().rsplit('/').next().and_then(|x| x.parse::<u32>().ok()) {
            sh.tids.lock().unwrap().push((name.to_string(), t));
        }
    }
}

/// (state, utime + stime) of one thread of this process
fn thread_stat(tid: u32) -> Option<(char, u64)> {
    let s = std::fs::read_to_string(format!("/proc/self/task/{}/stat", tid)).ok()?;
    let rest = &s[s.rfind(')')? + 2..];
    let f: Vec<&str> = rest.split(' ').collect();
    Some((f.first()?.chars().next()?, f.get(11)?.parse::<u64>().ok()? + f.get(12)?.parse::<u64>().ok()?))
}

struct Done(Arc<Shared>);
impl Drop for Done {
    fn drop(&mut self) {
        self.0.finished.fetch_add(1, Ordering::SeqCst);
    }
}

fn spawn(sh: &Arc<Shared>, name: String, count: &mut u64, f: impl FnOnce() + Send + 'static) {
    *count += 1;
    let sh = sh.clone();
    std::thread::Builder::new()
        .name(name.clone())
        .spawn(move || {
            register(&sh, &name);
            let _d = Done(sh.clone());
            let r = std::panic::catch_unwind(std::panic::AssertUnwindSafe(f));
            if r.is_err() {
                sh.errors.lock().unwrap().push(format!("thread {} panicked: {}", name, crate::util::take_panic().unwrap_or_default()));
            }
        })
        .expect("spawn");
}

pub struct ThreadEngine;

impl Engine for ThreadEngine {
    type Case = ThreadCase;
    fn name(&self) -> &'static str {
        "threads"
    }
    fn tape_lens(&self) -> Vec<usize> {
        vec![60]
    }
    fn gen(&self, tapes: &[Vec<u32>]) -> ThreadCase {
        let mut t = Tape::new(&tapes[0]);
        let producers = 1 + t.below(4);
        let mut c = ThreadCase {
            producers,
            chunks: *t.pick(&[50usize, 400, 2000]),
            chunk_lens: (0..4).map(|_| *t.pick(&[256usize, 300, 1000, 16384, 40000])).collect(),
            window: if t.bool() { Some(*t.pick(&[1000u32, 65535, 1 << 20])) } else { None },
            conn_window: if t.bool() { Some(*t.pick(&[70000u32, 1 << 20, 1 << 24])) } else { None },
            max_frame: if t.chance(1, 3) { Some(*t.pick(&[16384u32, 100_000])) } else { None },
            pipe: *t.pick(&[256usize, 4096, 65536, 1 << 20]),
            reset_after: (0..producers).map(|_| if t.chance(1, 4) { 1 + t.below(40) } else { 0 }).collect(),
            pings: *t.pick(&[0usize, 20, 200]),
            clones: *t.pick(&[0usize, 100, 2000]),
            release_lump: *t.pick(&[0usize, 0, 5000, 40000]),
            reserve: t.bool(),
            ext_handles: false,
        };
        c.ext_handles = t.chance(1, 3);
        // a reader that sits on more than the windows can carry would stall the exchange by itself
        let w = c.window.unwrap_or(65535) as usize;
        let cw = c.conn_window.unwrap_or(65535) as usize;
        c.release_lump = c.release_lump.min(w / 2).min(cw / (2 * producers));
        c
    }
    fn rule(&self) -> String {
        "real OS threads: one drives the client connection, one the server connection (accepting and answering), one reader per accepted stream (data + release_capacity through a FlowControl handle), 1–4 producers (own SendRequest clone, send_request, reserve_capacity / poll_capacity / send_data of generated chunk sizes, optional send_reset), a user-ping thread and a thread cloning and dropping SendRequest handles, over tokio::io::duplex of generated capacity with generated windows and frame sizes; oracle: all threads finish, bodies arrive byte-exact, no panic, no poisoned lock; a stall counts only if no involved thread used CPU time between two looks 2 s apart after 20 s without progress (deadlock / lost wake-up), anything slower than that is reported as inconclusive; non-trivial = at least 2 threads other than the connection drivers performed handle operations".into()
    }
    fn shrink_iters(&self) -> u32 {
        0
    }
    fn run(&self, c: &ThreadCase) -> Outcome {
        let mut out = Outcome::default();
        let sh = Arc::new(Shared::default());
        let mut nthreads = 0u64;
        let (cio, sio) = tokio::io::duplex(c.pipe.max(64));
        // ---- server
        {
            let sh2 = sh.clone();
            let c2 = c.clone();
            spawn(&sh, "srv-conn".into(), &mut nthreads, move || {
                let sh = sh2;
                let mut b = h2::server::Builder::new();
                if let Some(w) = c2.window {
                    b.initial_window_size(w);
                }
                if let Some(w) = c2.conn_window {
                    b.initial_connection_window_size(w);
                }
                if let Some(m) = c2.max_frame {
                    b.max_frame_size(m);
                }
                let mut conn = match block_on(b.handshake::<_, Bytes>(sio)) {
                    Ok(c) => c,
                    Err(e) => {
                        // (a client that finished everything it had to do may be gone before the handshake completes)
                        if !e.is_io() {
                            sh.errors.lock().unwrap().push(format!("server handshake: {}", e));
                        }
                        return;
                    }
                };
                let mut readers = Vec::new();
                loop {
                    match block_on(conn.accept()) {
                        None => break,
                        Some(Err(e)) => {
                            if !e.is_io() && !e.is_go_away() {
                                sh.errors.lock().unwrap().push(format!("server accept: {}", e));
                            }
                            break;
                        }
                        Some(Ok((req, mut respond))) => {
                            let sid = respond.stream_id().as_u32();
                            let resp = http::Response::builder().status(200).body(()).unwrap();
                            let _ = respond.send_response(resp, true);
                            let mut body = req.into_body();
                            let sh3 = sh.clone();
                            let lump = c2.release_lump;
                            let h = std::thread::Builder::new()
                                .name(format!("srv-read-{}", sid))
                                .spawn(move || {
                                    register(&sh3, &format!("srv-read-{}", sid));
                                    let mut fc = body.flow_control().clone();
                                    let mut off = 0u64;
                                    let mut held = 0usize;
                                    loop {
                                        match block_on(body.data()) {
                                            None => break,
                                            Some(Err(_)) => break,
                                            Some(Ok(b)) => {
                                                for (i, x) in b.iter().enumerate() {
                                                    if *x != mix(sid as u64, off + i as u64) {
                                                        sh3.corrupt.lock().unwrap().push(format!("stream {} byte {} differs", sid, off + i as u64));
                                                        break;
                                                    }
                                                }
                                                off += b.len() as u64;
                                                held += b.len();
                                                if held >= lump {
                                                    let _ = fc.release_capacity(held);
                                                    held = 0;
                                                }
                                                sh3.progress.fetch_add(1, Ordering::Relaxed);
                                            }
                                        }
                                    }
                                    if held > 0 {
                                        let _ = fc.release_capacity(held);
                                    }
                                })
                                .expect("spawn reader");
                            readers.push(h);
                        }
                    }
                }
                drop(conn);
                for h in readers {
                    let _ = h.join();
                }
            });
        }
        // ---- client
        let mut b = h2::client::Builder::new();
        if let Some(m) = c.max_frame {
            b.max_frame_size(m);
        }
        let hs = {
            // the handshake needs the server thread to make progress: run it here, on the harness thread
            block_on(b.handshake::<_, Bytes>(cio))
        };
        let (sr, mut conn) = match hs {
            Ok(x) => x,
            Err(e) => {
                out.note = format!("client handshake failed: {}", e);
                return out;
            }
        };
        let pp = conn.ping_pong();
        let probe = conn.verif_probe();
        // (cloning a handle takes the library's lock: all clones are made before any other thread runs)
        let mut clones: Vec<h2::client::SendRequest<Bytes>> = (0..c.producers + 1).map(|_| sr.clone()).collect();
        {
            let sh2 = sh.clone();
            spawn(&sh, "cli-conn".into(), &mut nthreads, move || {
                let r = block_on(conn);
                if let Err(e) = r {
                    if !e.is_io() {
                        sh2.errors.lock().unwrap().push(format!("client connection: {}", e));
                    }
                }
            });
        }
        for p in 0..c.producers {
            let sh2 = sh.clone();
            let c2 = c.clone();
            let mut sr2 = clones.pop().unwrap();
            spawn(&sh, format!("producer-{}", p), &mut nthreads, move || {
                let sh = sh2;
                if block_on(std::future::poll_fn(|cx| sr2.poll_ready(cx))).is_err() {
                    return;
                }
                let req = http::Request::builder().method("POST").uri("https://example.com/").body(()).unwrap();
                let (resp, mut st) = match sr2.send_request(req, false) {
                    Ok(x) => x,
                    Err(e) => {
                        sh.errors.lock().unwrap().push(format!("send_request: {}", e));
                        return;
                    }
                };
                let sid = st.stream_id().as_u32();
                let mut off = 0u64;
                let mut ended = false;
                for k in 0..c2.chunks {
                    let n = c2.chunk_lens[k % c2.chunk_lens.len()];
                    if c2.reset_after[p] > 0 && k == c2.reset_after[p] {
                        st.send_reset(h2::Reason::CANCEL);
                        ended = true;
                        break;
                    }
                    if c2.reserve {
                        st.reserve_capacity(n);
                        let mut got = st.capacity();
                        while got == 0 {
                            match block_on(std::future::poll_fn(|cx| st.poll_capacity(cx))) {
                                Some(Ok(g)) => got = g,
                                _ => {
                                    ended = true;
                                    break;
                                }
                            }
                        }
                        if ended {
                            break;
                        }
                    }
                    if st.send_data(Bytes::from(mix_bytes(sid as u64, off, n)), false).is_err() {
                        ended = true;
                        break;
                    }
                    off += n as u64;
                    sh.progress.fetch_add(1, Ordering::Relaxed);
                }
                if !ended {
                    let _ = st.send_data(Bytes::new(), true);
                }
                // the response (head only)
                let _ = block_on(resp);
                if c2.ext_handles {
                    // a follow-up request carrying the first stream's handle in its extensions: the library
                    // drops it (the handle's destructor takes the library's lock)
                    let holder = Arc::new(Mutex::new(Some(st)));
                    let mut req2 = http::Request::builder().method("GET").uri("https://example.com/follow-up").body(()).unwrap();
                    req2.extensions_mut().insert(holder);
                    if block_on(std::future::poll_fn(|cx| sr2.poll_ready(cx))).is_ok() {
                        if let Ok((resp2, _)) = sr2.send_request(req2, true) {
                            sh.progress.fetch_add(1, Ordering::Relaxed);
                            let _ = block_on(resp2);
                        }
                    }
                }
            });
        }
        if let (Some(mut pp), true) = (pp, c.pings > 0) {
            let sh2 = sh.clone();
            let n = c.pings;
            spawn(&sh, "pinger".into(), &mut nthreads, move || {
                for _ in 0..n {
                    if block_on(pp.ping(h2::Ping::opaque())).is_err() {
                        break;
                    }
                    sh2.progress.fetch_add(1, Ordering::Relaxed);
                }
            });
        }
        if c.clones > 0 {
            let sr2 = clones.pop().unwrap();
            let sh2 = sh.clone();
            let n = c.clones;
            spawn(&sh, "cloner".into(), &mut nthreads, move || {
                for i in 0..n {
                    let a = sr2.clone();
                    if i % 3 == 0 {
                        let b = a.clone();
                        drop(a);
                        drop(b);
                    } else {
                        drop(a);
                    }
                    if i % 64 == 0 {
                        sh2.progress.fetch_add(1, Ordering::Relaxed);
                        std::thread::yield_now();
                    }
                }
            });
        }
        // (dropping a handle takes the library's lock: never on the watching thread)
        spawn(&sh, "dropper".into(), &mut nthreads, move || {
            drop(sr);
            drop(clones);
        });
        // ---- watch
        let start = Instant::now();
        let mut last = (sh.progress.load(Ordering::Relaxed), sh.finished.load(Ordering::SeqCst), Instant::now());
        let mut verdict: Option<String> = None;
        loop {
            if sh.finished.load(Ordering::SeqCst) >= nthreads {
                break;
            }
            std::thread::sleep(Duration::from_millis(5));
            crate::runner::watchdog_tick();
            let now = (sh.progress.load(Ordering::Relaxed), sh.finished.load(Ordering::SeqCst));
            if (now.0, now.1) != (last.0, last.1) {
                last = (now.0, now.1, Instant::now());
                continue;
            }
            if last.2.elapsed() > Duration::from_secs(20) {
                // nothing moved for 20 s: are the threads asleep for good, or merely slow?
                let tids = sh.tids.lock().unwrap().clone();
                let a: Vec<_> = tids.iter().map(|(n, t)| (n.clone(), thread_stat(*t))).collect();
                std::thread::sleep(Duration::from_secs(2));
                let b: Vec<_> = tids.iter().map(|(n, t)| (n.clone(), thread_stat(*t))).collect();
                let still = sh.progress.load(Ordering::Relaxed) == now.0 && sh.finished.load(Ordering::SeqCst) == now.1;
                if std::env::var("VERIF_DUMP").is_ok() {
                    eprintln!("stall check: still={} a={:?} b={:?}", still, a, b);
                }
                let asleep = a.iter().zip(b.iter()).all(|(x, y)| match (&x.1, &y.1) {
                    (Some((s1, t1)), Some((s2, t2))) => *s1 == 'S' && *s2 == 'S' && t1 == t2,
                    (None, None) => true, // thread already gone
                    _ => false,
                });
                if still && asleep {
                    let alive: Vec<String> = b.iter().filter(|x| x.1.is_some()).map(|x| x.0.clone()).collect();
                    verdict = Some(format!("no progress for {} s and every involved thread is asleep without consuming CPU time: {:?}", last.2.elapsed().as_secs(), alive));
                    break;
                }
                if start.elapsed() > Duration::from_secs(180) {
                    out.note = "slow run abandoned (threads still consuming CPU): inconclusive".into();
                    out.label("inconclusive-slow");
                    return out;
                }
                last.2 = Instant::now();
            }
        }
        out.label(format!("producers:{}", c.producers));
        if c.pings > 0 {
            out.label("user-pings");
        }
        if c.clones > 0 {
            out.label("handle-clones");
        }
        if c.reset_after.iter().any(|x| *x > 0) {
            out.label("with-reset");
        }
        if c.ext_handles {
            out.label("handle-in-request-extensions");
        }
        out.nontrivial = c.producers + (c.pings > 0) as usize + (c.clones > 0) as usize >= 2;
        if let Some(v) = verdict {
            let kinds: std::collections::BTreeSet<String> = sh.tids.lock().unwrap().iter().filter(|(_, t)| thread_stat(*t).is_some()).map(|(n, _)| crate::oracles::strip_digits(n)).collect();
            out.fail("C20", "threads/stall", format!("C20/threads/all-asleep/{}", kinds.into_iter().collect::<Vec<_>>().join("+")), v);
            return out;
        }
        for e in sh.errors.lock().unwrap().iter() {
            if e.contains("panicked") {
                out.fail("C20", "threads/panic", format!("C20/threads/panic/{}", crate::oracles::panic_signature(e)), e.clone());
            } else {
                out.fail("C20", "threads/error", format!("C20/threads/unexpected-error/{}", crate::oracles::strip_digits(&e[..e.len().min(60)])), e.clone());
            }
        }
        for e in sh.corrupt.lock().unwrap().iter().take(1) {
            out.fail("C20", "threads/payload", "C20/threads/payload-corrupted", e.clone());
        }
        if probe.is_poisoned() {
            out.fail("C20", "threads/poison", "C20/threads/lock-poisoned", "a library lock is poisoned after the run");
        }
        out.note = format!("{} threads, progress {}", nthreads, sh.progress.load(Ordering::Relaxed));
        out
    }
}
