//! RAW modes: the h2 endpoint under test talks to RefPeer, a scripted
//! frame-level HTTP/2 endpoint built on the reference models. The peer has a
//! cooperative core (handshake, ACKs, flow-control aware DATA, window grants by
//! policy) and executes a generated script of legal, unusual or illegal steps.

use crate::refmodel::hpack::{Choice, Field, RefDecoder, RefEncoder, Repr};
use crate::refmodel::wire::{self, Frame, Prio, Splitter};
use crate::sim::PipeRef;
use crate::util::hexser;
use serde::{Deserialize, Serialize};
use std::cell::{Cell, RefCell};
use std::collections::HashMap;
use std::future::poll_fn;
use std::rc::Rc;
use std::task::Poll;

#[derive(Clone, Debug, Serialize, Deserialize)]
pub enum PStep {
    /// a frame exactly as given (no flow-control awareness)
    Frame { f: Frame, extra_flags: u8, r_bit: bool },
    Raw(#[serde(with = "hexser")] Vec<u8>),
    /// HEADERS (+ CONTINUATION at `splits`) carrying `fields`, encoded by the reference encoder
    Headers { stream: u32, fields: Vec<(String, String)>, end_stream: bool, splits: Vec<usize>, pad: Option<u8>, prio: Option<Prio>, enc: u8 },
    PushPromise { stream: u32, promised: u32, fields: Vec<(String, String)>, splits: Vec<usize>, pad: Option<u8> },
    /// DATA that waits for flow-control credit (unless `force`), cut to E's max frame size
    Data { stream: u32, len: usize, pad: Option<u8>, end_stream: bool, force: bool },
    /// PING and wait for its acknowledgement
    Barrier,
    /// wait until E has opened this many streams (RAW-C)
    WaitStreams(usize),
    /// wait until E has sent END_STREAM or RST_STREAM on this stream
    WaitEnd(u32),
    Yield(usize),
    /// stop acknowledging SETTINGS / PING automatically (C14 scripts ack by hand)
    AutoAck(bool),
    /// change the grant policy for E's DATA
    SetGrant(Grant),
    /// answer the k-th stream E opened (RAW-C): HEADERS with these fields on that stream
    Respond { nth: usize, fields: Vec<(String, String)>, end_stream: bool, splits: Vec<usize> },
    RespondData { nth: usize, len: usize, pad: Option<u8>, end_stream: bool },
    RespondFrame { nth: usize, f: Frame },
    /// stop / resume reading what E writes (with a finite pipe E's writes then block)
    Reading(bool),
    /// mark for the oracles: everything after this index is "after the injection"
    Mark(String),
    /// close the peer's sending direction (EOF for E)
    Close,
    /// (RAW-C) a Respond / RespondData / RespondFrame step aimed at the stream whose request carried `x-id: key`,
    /// whichever position it was opened in; waits until that request has appeared
    ForKey { key: u32, step: Box<PStep> },
}

impl PStep {
    fn with_nth(&self, n: usize) -> PStep {
        let mut s = self.clone();
        match &mut s {
            PStep::Respond { nth, .. } | PStep::RespondData { nth, .. } | PStep::RespondFrame { nth, .. } => *nth = n,
            _ => {}
        }
        s
    }
}

#[derive(Clone, Copy, Debug, PartialEq, Serialize, Deserialize)]
pub enum Grant {
    /// WINDOW_UPDATE for every DATA frame received (stream and connection)
    Eager,
    /// when this many bytes have accumulated
    Threshold(u32),
    /// in many small increments of this size
    Drip(u32),
    Never,
}

#[derive(Clone, Debug, Serialize, Deserialize)]
pub struct RawSpec {
    pub peer_settings: Vec<(u16, u32)>,
    pub script: Vec<PStep>,
    pub grant: Grant,
    /// close the sending direction when the script is done
    pub close_at_end: bool,
}

/// What the peer observed / did, for the oracles.
#[derive(Default, Debug)]
pub struct PeerObs {
    /// (script index, simulator step when executed, byte offset in the peer's output before the step)
    pub executed: Vec<(usize, u64, usize)>,
    pub marks: Vec<(String, u64, usize)>,
    pub barriers_done: Vec<u64>,
    pub script_done: bool,
    pub e_closed: bool,
    /// streams E opened, in order
    pub e_streams: Vec<u32>,
    /// x-id of the request that opened a stream -> its position in `e_streams`
    pub e_keys: HashMap<u32, usize>,
    pub gave_up_waiting: Vec<usize>,
}

struct St {
    pc: usize,
    splitter: Splitter,
    enc: RefEncoder,
    dec: RefDecoder,
    e_initial_window: i64,
    e_max_frame: usize,
    credit_conn: i64,
    credit: HashMap<u32, i64>,
    data_off: HashMap<u32, usize>,
    /// bytes of DATA on streams the peer has sent so far (to initialise credit lazily)
    auto_ack: bool,
    grant: Grant,
    pending_grant: HashMap<u32, u32>,
    pending_grant_conn: u32,
    barrier_wait: Option<[u8; 8]>,
    barrier_n: u64,
    yield_left: usize,
    e_ended: HashMap<u32, bool>,
    open_block: Option<(u32, Vec<u8>)>,
    closed: bool,
    data_left: usize,
    spins_waiting: u32,
    reading: bool,
}

fn note_key(obs: &Rc<RefCell<PeerObs>>, stream: u32, r: &Result<(Vec<Field>, crate::refmodel::hpack::BlockInfo), crate::refmodel::hpack::HpackErr>) {
    if let Ok((fields, _)) = r {
        if let Some(k) = fields.iter().find(|f| f.name == b"x-id").and_then(|f| std::str::from_utf8(&f.value).ok()).and_then(|v| v.parse::<u32>().ok()) {
            let mut o = obs.borrow_mut();
            if let Some(pos) = o.e_streams.iter().position(|s| *s == stream) {
                o.e_keys.entry(k).or_insert(pos);
            }
        }
    }
}

fn enc_choice(enc: u8, i: usize) -> Choice {
    match enc {
        0 => Choice::plain(),
        1 => Choice { repr: Repr::Without, name_ref: true, huff_name: false, huff_value: true, pad_int: 0, oldest: false },
        2 => Choice::compact(),
        3 => Choice { repr: if i % 2 == 0 { Repr::Incremental } else { Repr::Never }, name_ref: i % 3 != 0, huff_name: i % 2 == 1, huff_value: i % 2 == 0, pad_int: (i % 3 == 1) as u8, oldest: i % 4 == 0 },
        _ => Choice { repr: Repr::Indexed, name_ref: true, huff_name: true, huff_value: false, pad_int: 0, oldest: true },
    }
}

fn frames_for_block(first: Frame, block: &[u8], splits: &[usize]) -> Vec<Frame> {
    let mut cuts: Vec<usize> = splits.iter().copied().filter(|&c| c <= block.len()).collect();
    cuts.sort();
    cuts.dedup();
    let mut pieces: Vec<&[u8]> = Vec::new();
    let mut last = 0;
    for c in cuts {
        pieces.push(&block[last..c]);
        last = c;
    }
    pieces.push(&block[last..]);
    let n = pieces.len();
    let mut out = Vec::new();
    for (i, p) in pieces.iter().enumerate() {
        if i == 0 {
            out.push(match first.clone() {
                Frame::Headers { stream, end_stream, pad, prio, .. } => Frame::Headers { stream, end_stream, end_headers: n == 1, pad, prio, frag: p.to_vec() },
                Frame::Push { stream, pad, promised, promised_r, .. } => Frame::Push { stream, end_headers: n == 1, pad, promised, promised_r, frag: p.to_vec() },
                other => other,
            });
        } else {
            out.push(Frame::Cont { stream: first.stream(), end_headers: i + 1 == n, frag: p.to_vec() });
        }
    }
    out
}

pub async fn peer_task(spec: Rc<RawSpec>, rx: PipeRef, tx: PipeRef, peer_is_client: bool, obs: Rc<RefCell<PeerObs>>, clock: Rc<Cell<u64>>) {
    let mut st = St {
        pc: 0,
        splitter: Splitter::new(!peer_is_client),
        enc: RefEncoder::new(4096),
        dec: RefDecoder::new(4096),
        e_initial_window: 65535,
        e_max_frame: 16384,
        credit_conn: 65535,
        credit: HashMap::new(),
        data_off: HashMap::new(),
        auto_ack: true,
        grant: spec.grant,
        pending_grant: HashMap::new(),
        pending_grant_conn: 0,
        barrier_wait: None,
        barrier_n: 0,
        yield_left: 0,
        e_ended: HashMap::new(),
        open_block: None,
        closed: false,
        data_left: 0,
        spins_waiting: 0,
        reading: true,
    };
    // handshake: (preface) + SETTINGS
    {
        let mut t = tx.borrow_mut();
        if peer_is_client {
            t.push_bytes(wire::PREFACE);
        }
        t.push_bytes(&Frame::Settings { ack: false, params: spec.peer_settings.clone() }.encode());
    }
    let mut started_data = false;
    poll_fn(|cx| {
        // ---- read everything E wrote
        let bytes = if st.reading { rx.borrow_mut().take_bytes() } else { Vec::new() };
        let e_gone = {
            let r = rx.borrow();
            r.writer_closed && r.in_flight() == 0
        };
        for (_, _, raw) in st.splitter.push(&bytes) {
            let f = match Frame::decode(&raw) {
                Ok(f) => f,
                Err(_) => continue,
            };
            match f {
                Frame::Settings { ack: false, params } => {
                    for (k, v) in &params {
                        match *k {
                            wire::S_INITIAL_WINDOW => {
                                let d = *v as i64 - st.e_initial_window;
                                st.e_initial_window = *v as i64;
                                for c in st.credit.values_mut() {
                                    *c += d;
                                }
                            }
                            wire::S_MAX_FRAME => st.e_max_frame = (*v as usize).clamp(16384, (1 << 24) - 1),
                            wire::S_HEADER_TABLE_SIZE => {
                                // never use more table than E allows: simplest conforming behaviour is to
                                // signal the new size at the next block start
                                let v = (*v as usize).min(4096);
                                st.enc.dec.set_ceiling(v);
                            }
                            _ => {}
                        }
                    }
                    if st.auto_ack && !st.closed {
                        tx.borrow_mut().push_bytes(&Frame::Settings { ack: true, params: vec![] }.encode());
                    }
                }
                Frame::Ping { ack: false, data } => {
                    if st.auto_ack && !st.closed {
                        tx.borrow_mut().push_bytes(&Frame::Ping { ack: true, data }.encode());
                    }
                }
                Frame::Ping { ack: true, data } => {
                    if st.barrier_wait == Some(data) {
                        st.barrier_wait = None;
                        obs.borrow_mut().barriers_done.push(clock.get());
                    }
                }
                Frame::WinUp { stream, inc, .. } => {
                    if stream == 0 {
                        st.credit_conn += inc as i64;
                    } else {
                        let iw = st.e_initial_window;
                        *st.credit.entry(stream).or_insert(iw) += inc as i64;
                    }
                }
                Frame::Headers { stream, end_stream, end_headers, frag, .. } => {
                    if !obs.borrow().e_streams.contains(&stream) {
                        obs.borrow_mut().e_streams.push(stream);
                    }
                    if end_stream {
                        st.e_ended.insert(stream, true);
                    }
                    if end_headers {
                        let r = st.dec.decode_block(&frag);
                        note_key(&obs, stream, &r);
                    } else {
                        st.open_block = Some((stream, frag));
                    }
                }
                Frame::Cont { end_headers, frag, .. } => {
                    if let Some((s, mut acc)) = st.open_block.take() {
                        acc.extend(frag);
                        if end_headers {
                            let r = st.dec.decode_block(&acc);
                            note_key(&obs, s, &r);
                        } else {
                            st.open_block = Some((s, acc));
                        }
                    }
                }
                Frame::Push { end_headers, frag, stream, .. } => {
                    if end_headers {
                        let _ = st.dec.decode_block(&frag);
                    } else {
                        st.open_block = Some((stream, frag));
                    }
                }
                Frame::Data { stream, end_stream, .. } => {
                    let n = f.flow_len();
                    if end_stream {
                        st.e_ended.insert(stream, true);
                    }
                    if st.closed {
                        continue;
                    }
                    match st.grant {
                        Grant::Never => {
                            // remembered: handed out when granting resumes
                            st.pending_grant_conn += n;
                            if !end_stream {
                                *st.pending_grant.entry(stream).or_insert(0) += n;
                            }
                        }
                        Grant::Eager => {
                            if n > 0 {
                                let mut t = tx.borrow_mut();
                                t.push_bytes(&Frame::WinUp { stream: 0, inc: n, inc_r: false }.encode());
                                if !end_stream {
                                    t.push_bytes(&Frame::WinUp { stream, inc: n, inc_r: false }.encode());
                                }
                            }
                        }
                        Grant::Threshold(th) => {
                            st.pending_grant_conn += n;
                            if st.pending_grant_conn >= th {
                                tx.borrow_mut().push_bytes(&Frame::WinUp { stream: 0, inc: st.pending_grant_conn, inc_r: false }.encode());
                                st.pending_grant_conn = 0;
                            }
                            if !end_stream {
                                let p = st.pending_grant.entry(stream).or_insert(0);
                                *p += n;
                                if *p >= th {
                                    tx.borrow_mut().push_bytes(&Frame::WinUp { stream, inc: *p, inc_r: false }.encode());
                                    *p = 0;
                                }
                            }
                        }
                        Grant::Drip(sz) => {
                            let sz = sz.max(1);
                            let mut left = n;
                            let mut t = tx.borrow_mut();
                            while left > 0 {
                                let k = left.min(sz);
                                t.push_bytes(&Frame::WinUp { stream: 0, inc: k, inc_r: false }.encode());
                                if !end_stream {
                                    t.push_bytes(&Frame::WinUp { stream, inc: k, inc_r: false }.encode());
                                }
                                left -= k;
                            }
                        }
                    }
                }
                Frame::Rst { stream, .. } => {
                    st.e_ended.insert(stream, true);
                }
                _ => {}
            }
        }
        if e_gone {
            obs.borrow_mut().e_closed = true;
        }
        // ---- run the script
        loop {
            if st.pc >= spec.script.len() {
                break;
            }
            if st.barrier_wait.is_some() {
                if e_gone {
                    st.barrier_wait = None;
                } else {
                    break;
                }
            }
            if st.yield_left > 0 {
                st.yield_left -= 1;
                cx.waker().wake_by_ref();
                rx.borrow_mut().set_reader_waker(cx.waker());
                return Poll::Pending;
            }
            let idx = st.pc;
            let before = tx.borrow().written.len();
            let mut advance = true;
            let resolved: PStep;
            let step = match &spec.script[idx] {
                PStep::ForKey { key, step } => {
                    let nth = obs.borrow().e_keys.get(key).copied();
                    match nth {
                        Some(nth) => {
                            resolved = step.with_nth(nth);
                            &resolved
                        }
                        None => {
                            // not opened yet: wait (a Yield(0) that does not advance)
                            if !e_gone {
                                advance = false;
                            }
                            resolved = PStep::Mark(String::new());
                            &resolved
                        }
                    }
                }
                s => s,
            };
            match step {
                PStep::Frame { f, extra_flags, r_bit } => {
                    let mut raw = f.to_raw(*extra_flags, 0);
                    raw.r = *r_bit;
                    tx.borrow_mut().push_bytes(&raw.encode());
                    // a WINDOW_UPDATE/RST the script sends by hand does not change the peer's own credit
                }
                PStep::Raw(b) => tx.borrow_mut().push_bytes(b),
                PStep::Headers { stream, fields, end_stream, splits, pad, prio, enc } => {
                    let mut block = Vec::new();
                    if let Some(r) = st.enc.dec.required_update.take() {
                        st.enc.size_update(&mut block, r);
                    }
                    for (i, (n, v)) in fields.iter().enumerate() {
                        st.enc.field(&mut block, &Field::new(n.as_bytes(), v.as_bytes()), enc_choice(*enc, i));
                    }
                    let first = Frame::Headers { stream: *stream, end_stream: *end_stream, end_headers: true, pad: *pad, prio: *prio, frag: vec![] };
                    let mut t = tx.borrow_mut();
                    for f in frames_for_block(first, &block, splits) {
                        t.push_bytes(&f.encode());
                    }
                }
                PStep::PushPromise { stream, promised, fields, splits, pad } => {
                    let mut block = Vec::new();
                    if let Some(r) = st.enc.dec.required_update.take() {
                        st.enc.size_update(&mut block, r);
                    }
                    for (n, v) in fields.iter() {
                        st.enc.field(&mut block, &Field::new(n.as_bytes(), v.as_bytes()), Choice::plain());
                    }
                    let first = Frame::Push { stream: *stream, end_headers: true, pad: *pad, promised: *promised, promised_r: false, frag: vec![] };
                    let mut t = tx.borrow_mut();
                    for f in frames_for_block(first, &block, splits) {
                        t.push_bytes(&f.encode());
                    }
                }
                PStep::Data { stream, len, pad, end_stream, force } => {
                    if !started_data {
                        st.data_left = *len;
                        started_data = true;
                    }
                    let iw = st.e_initial_window;
                    let overhead = pad.map(|p| p as usize + 1).unwrap_or(0);
                    loop {
                        let sc = *st.credit.entry(*stream).or_insert(iw);
                        let avail = if *force { i64::MAX } else { sc.min(st.credit_conn) };
                        if st.data_left == 0 {
                            // final (possibly empty) frame
                            if overhead as i64 > avail && overhead > 0 {
                                break;
                            }
                            let f = Frame::Data { stream: *stream, end_stream: *end_stream, pad: *pad, data: vec![] };
                            if *end_stream || *len == 0 {
                                let n = f.flow_len() as i64;
                                tx.borrow_mut().push_bytes(&f.encode());
                                *st.credit.get_mut(stream).unwrap() -= n;
                                st.credit_conn -= n;
                            }
                            started_data = false;
                            break;
                        }
                        let room = (avail - overhead as i64).min((st.e_max_frame - overhead) as i64);
                        if room <= 0 {
                            break;
                        }
                        let k = (st.data_left as i64).min(room) as usize;
                        // (position-dependent content, cumulative over all DATA steps of the stream)
                        let off = *st.data_off.entry(*stream).or_insert(0);
                        st.data_off.insert(*stream, off + k);
                        let data: Vec<u8> = (0..k).map(|i| crate::eng_codec::mix(*stream as u64 * 2, (off + i) as u64)).collect();
                        let last = k == st.data_left;
                        let f = Frame::Data { stream: *stream, end_stream: *end_stream && last, pad: *pad, data };
                        let n = f.flow_len() as i64;
                        tx.borrow_mut().push_bytes(&f.encode());
                        *st.credit.get_mut(stream).unwrap() -= n;
                        st.credit_conn -= n;
                        st.data_left -= k;
                        if last {
                            started_data = false;
                            break;
                        }
                    }
                    if started_data {
                        // waiting for credit
                        advance = false;
                        if e_gone || st.e_ended.get(stream).copied().unwrap_or(false) && false {
                            started_data = false;
                            advance = true;
                            obs.borrow_mut().gave_up_waiting.push(idx);
                        }
                    }
                }
                PStep::Barrier => {
                    st.barrier_n += 1;
                    let mut d = [0xb5u8; 8];
                    d[..8].copy_from_slice(&st.barrier_n.to_be_bytes());
                    d[0] = 0xb5;
                    tx.borrow_mut().push_bytes(&Frame::Ping { ack: false, data: d }.encode());
                    st.barrier_wait = Some(d);
                }
                PStep::WaitStreams(n) => {
                    if obs.borrow().e_streams.len() < *n && !e_gone {
                        advance = false;
                    }
                }
                PStep::WaitEnd(s) => {
                    if !st.e_ended.get(s).copied().unwrap_or(false) && !e_gone {
                        advance = false;
                    }
                }
                PStep::Yield(n) => {
                    st.yield_left = *n;
                }
                PStep::AutoAck(b) => st.auto_ack = *b,
                PStep::SetGrant(g) => {
                    if st.grant == Grant::Never && *g != Grant::Never {
                        let mut t = tx.borrow_mut();
                        if st.pending_grant_conn > 0 {
                            t.push_bytes(&Frame::WinUp { stream: 0, inc: st.pending_grant_conn, inc_r: false }.encode());
                            st.pending_grant_conn = 0;
                        }
                        let mut ids: Vec<u32> = st.pending_grant.keys().copied().collect();
                        ids.sort();
                        for id in ids {
                            let n = st.pending_grant.remove(&id).unwrap_or(0);
                            if n > 0 && !st.e_ended.get(&id).copied().unwrap_or(false) {
                                t.push_bytes(&Frame::WinUp { stream: id, inc: n, inc_r: false }.encode());
                            }
                        }
                    }
                    st.grant = *g;
                }
                PStep::Respond { nth, fields, end_stream, splits } => {
                    let sid = obs.borrow().e_streams.get(*nth).copied();
                    match sid {
                        Some(sid) => {
                            let mut block = Vec::new();
                            if let Some(r) = st.enc.dec.required_update.take() {
                                st.enc.size_update(&mut block, r);
                            }
                            for (n, v) in fields.iter() {
                                st.enc.field(&mut block, &Field::new(n.as_bytes(), v.as_bytes()), Choice::plain());
                            }
                            let first = Frame::Headers { stream: sid, end_stream: *end_stream, end_headers: true, pad: None, prio: None, frag: vec![] };
                            let mut t = tx.borrow_mut();
                            for f in frames_for_block(first, &block, splits) {
                                t.push_bytes(&f.encode());
                            }
                        }
                        None => {
                            if !e_gone {
                                advance = false;
                            }
                        }
                    }
                }
                PStep::RespondData { nth, len, pad, end_stream } => {
                    let sid = obs.borrow().e_streams.get(*nth).copied();
                    if let Some(sid) = sid {
                        // small bodies only: sent at once within the initial windows by construction
                        let data: Vec<u8> = (0..*len).map(|i| crate::eng_codec::mix(sid as u64 * 2 + 1, i as u64)).collect();
                        let f = Frame::Data { stream: sid, end_stream: *end_stream, pad: *pad, data };
                        let n = f.flow_len() as i64;
                        let iw = st.e_initial_window;
                        *st.credit.entry(sid).or_insert(iw) -= n;
                        st.credit_conn -= n;
                        tx.borrow_mut().push_bytes(&f.encode());
                    } else if !e_gone {
                        advance = false;
                    }
                }
                PStep::RespondFrame { nth, f } => {
                    let sid = obs.borrow().e_streams.get(*nth).copied();
                    if let Some(sid) = sid {
                        let mut raw = f.to_raw(0, 0);
                        raw.stream = sid;
                        tx.borrow_mut().push_bytes(&raw.encode());
                    } else if !e_gone {
                        advance = false;
                    }
                }
                PStep::Reading(on) => {
                    st.reading = *on;
                    if *on {
                        // pick up what accumulated on the next turn
                        cx.waker().wake_by_ref();
                    }
                }
                PStep::Mark(m) => {
                    if !m.is_empty() {
                        obs.borrow_mut().marks.push((m.clone(), clock.get(), before));
                    }
                }
                PStep::Close => {
                    st.closed = true;
                    tx.borrow_mut().close_writer();
                }
                PStep::ForKey { .. } => {}
            }
            if advance {
                obs.borrow_mut().executed.push((idx, clock.get(), before));
                st.pc += 1;
                st.spins_waiting = 0;
            } else {
                break;
            }
        }
        let done = st.pc >= spec.script.len() && st.barrier_wait.is_none();
        if done {
            obs.borrow_mut().script_done = true;
            if spec.close_at_end && !st.closed {
                st.closed = true;
                tx.borrow_mut().close_writer();
            }
            if e_gone {
                return Poll::Ready(());
            }
            // keep serving ACKs / grants until E closes
        } else if e_gone {
            // E is gone: nothing more can happen; give up on waits
            obs.borrow_mut().script_done = false;
            return Poll::Ready(());
        }
        rx.borrow_mut().set_reader_waker(cx.waker());
        Poll::Pending
    })
    .await;
}
