//! Deterministic connection simulator core: single-threaded executor that
//! polls a task only when its waker fired, scripted duplex transport with a
//! byte-level tap, and the API event log. No wall clock, no RNG: every
//! decision comes from the case's choice tapes.

use std::cell::{Cell, RefCell};
use std::collections::VecDeque;
use std::future::Future;
use std::io;
use std::pin::Pin;
use std::rc::Rc;
use std::sync::atomic::{AtomicBool, AtomicU64, Ordering};
use std::sync::Arc;
use std::task::{Context, Poll, Wake, Waker};
use tokio::io::{AsyncRead, AsyncWrite, ReadBuf};

// ------------------------------------------------------------ tape (owned)

#[derive(Debug, Clone, Default)]
pub struct OwnedTape {
    pub data: Vec<u32>,
    pub pos: usize,
}

impl OwnedTape {
    pub fn new(data: Vec<u32>) -> OwnedTape {
        OwnedTape { data, pos: 0 }
    }
    pub fn next(&mut self) -> Option<u32> {
        let v = self.data.get(self.pos).copied();
        if v.is_some() {
            self.pos += 1;
        }
        v
    }
}

// ------------------------------------------------------------ executor

pub struct TaskFlag {
    woken: AtomicBool,
    wakes: AtomicU64,
}

impl Wake for TaskFlag {
    fn wake(self: Arc<Self>) {
        self.wake_by_ref();
    }
    fn wake_by_ref(self: &Arc<Self>) {
        self.woken.store(true, Ordering::SeqCst);
        self.wakes.fetch_add(1, Ordering::SeqCst);
    }
}

#[derive(Clone, Copy, Debug, PartialEq, Eq)]
pub enum Group {
    ClientConn,
    ServerConn,
    ClientApp,
    ServerApp,
    Peer,
    Control,
}

type TaskFut = Pin<Box<dyn Future<Output = ()>>>;

/// Shared pieces so that a task can also be polled from inside another task's poll (C20: at a transport
/// callback of a connection, as another thread would run there).
#[derive(Clone)]
pub struct Task {
    pub name: String,
    pub group: Group,
    fut: Rc<RefCell<Option<TaskFut>>>,
    flag: Arc<TaskFlag>,
    done: Rc<Cell<bool>>,
    panicked: Rc<RefCell<Option<String>>>,
    polls: Rc<Cell<u64>>,
    /// what the task said it is waiting for (set by app code, for reports)
    pub waiting: Rc<RefCell<String>>,
}

type NewTask = (String, Group, Pin<Box<dyn Future<Output = ()>>>, Rc<RefCell<String>>);

#[derive(Clone)]
pub struct Spawner {
    q: Rc<RefCell<Vec<NewTask>>>,
}

impl Spawner {
    pub fn spawn(&self, name: impl Into<String>, group: Group, f: impl Future<Output = ()> + 'static) -> Rc<RefCell<String>> {
        let _u = crate::heapmeter::Untracked::new();
        let w = Rc::new(RefCell::new(String::new()));
        self.q.borrow_mut().push((name.into(), group, Box::pin(f), w.clone()));
        w
    }
}

#[derive(Clone, Debug, PartialEq, Eq)]
pub enum RunEnd {
    Quiescent,
    /// step budget exhausted
    Budget,
    /// one task kept waking itself with no progress anywhere
    BusyLoop(String),
    /// a task panicked: the run stops at once (locks may be poisoned)
    Panicked,
}

impl Task {
    pub fn is_done(&self) -> bool {
        self.done.get()
    }
    fn runnable(&self) -> bool {
        !self.done.get() && self.flag.woken.load(Ordering::SeqCst)
    }
    /// Poll once. Does nothing if the task is finished or is being polled right now (nested call).
    fn poll_once(&self, clock: &Rc<Cell<u64>>) {
        let fut = self.fut.borrow_mut().take();
        let mut fut = match fut {
            Some(f) => f,
            None => return,
        };
        clock.set(clock.get() + 1);
        self.flag.woken.store(false, Ordering::SeqCst);
        self.polls.set(self.polls.get() + 1);
        let waker = Waker::from(self.flag.clone());
        let mut cx = Context::from_waker(&waker);
        let r = std::panic::catch_unwind(std::panic::AssertUnwindSafe(|| fut.as_mut().poll(&mut cx)));
        match r {
            Ok(Poll::Ready(())) => {
                self.done.set(true);
                drop(fut);
            }
            Ok(Poll::Pending) => {
                *self.fut.borrow_mut() = Some(fut);
            }
            Err(_) => {
                self.done.set(true);
                *self.panicked.borrow_mut() = Some(crate::util::take_panic().unwrap_or_else(|| "panic".into()));
                // the future owns half-broken objects (poisoned locks): leak it
                std::mem::forget(fut);
            }
        }
    }
}

/// What a transport callback needs to run other tasks in the middle of a connection's poll.
#[derive(Clone)]
pub struct Nest {
    pub registry: Rc<RefCell<Vec<Task>>>,
    pub clock: Rc<Cell<u64>>,
    pub depth: Rc<Cell<u32>>,
    pub count: Rc<Cell<u64>>,
}

impl Nest {
    /// Application tasks that are runnable right now.
    pub fn runnable_apps(&self) -> Vec<usize> {
        self.registry.borrow().iter().enumerate().filter(|(_, t)| t.runnable() && matches!(t.group, Group::ClientApp | Group::ServerApp) && t.fut.borrow().is_some()).map(|(i, _)| i).collect()
    }
    pub fn poll_nested(&self, i: usize) {
        let t = self.registry.borrow().get(i).cloned();
        if let Some(t) = t {
            self.depth.set(self.depth.get() + 1);
            self.count.set(self.count.get() + 1);
            t.poll_once(&self.clock);
            self.depth.set(self.depth.get() - 1);
        }
    }
}

pub struct Exec {
    pub tasks: Vec<Task>,
    registry: Rc<RefCell<Vec<Task>>>,
    nest_depth: Rc<Cell<u32>>,
    nest_count: Rc<Cell<u64>>,
    spawn_q: Rc<RefCell<Vec<NewTask>>>,
    pub clock: Rc<Cell<u64>>,
    pub progress: Rc<Cell<u64>>,
    pub sched: OwnedTape,
    rr: usize,
    pub busy_limit: u64,
    pub current: Rc<Cell<usize>>,
}

impl Exec {
    pub fn new(sched: Vec<u32>) -> Exec {
        Exec {
            tasks: Vec::new(),
            registry: Rc::new(RefCell::new(Vec::new())),
            nest_depth: Rc::new(Cell::new(0)),
            nest_count: Rc::new(Cell::new(0)),
            spawn_q: Rc::new(RefCell::new(Vec::new())),
            clock: Rc::new(Cell::new(0)),
            progress: Rc::new(Cell::new(0)),
            sched: OwnedTape::new(sched),
            rr: 0,
            busy_limit: 4000,
            current: Rc::new(Cell::new(usize::MAX)),
        }
    }
    pub fn spawner(&self) -> Spawner {
        Spawner { q: self.spawn_q.clone() }
    }
    pub fn nest(&self) -> Nest {
        Nest { registry: self.registry.clone(), clock: self.clock.clone(), depth: self.nest_depth.clone(), count: self.nest_count.clone() }
    }
    pub fn nested_polls(&self) -> u64 {
        self.nest_count.get()
    }
    fn absorb_spawns(&mut self) {
        let mut q = self.spawn_q.borrow_mut();
        for (name, group, fut, waiting) in q.drain(..) {
            let t = Task {
                name,
                group,
                fut: Rc::new(RefCell::new(Some(fut))),
                flag: Arc::new(TaskFlag { woken: AtomicBool::new(true), wakes: AtomicU64::new(0) }),
                done: Rc::new(Cell::new(false)),
                panicked: Rc::new(RefCell::new(None)),
                polls: Rc::new(Cell::new(0)),
                waiting,
            };
            self.registry.borrow_mut().push(t.clone());
            self.tasks.push(t);
        }
    }
    pub fn unfinished(&self) -> Vec<&Task> {
        self.tasks.iter().filter(|t| !t.done.get()).collect()
    }
    pub fn any_panic(&self) -> Option<(String, String)> {
        self.tasks.iter().find_map(|t| t.panicked.borrow().clone().map(|p| (t.name.clone(), p)))
    }

    /// Poll runnable tasks until none is runnable (or budget / busy loop).
    pub fn run(&mut self, budget: u64) -> RunEnd {
        self.run_sampled(budget, &mut |_| {})
    }

    /// Same, calling `sample(step)` every 8 steps (statistics probes).
    pub fn run_sampled(&mut self, budget: u64, sample: &mut dyn FnMut(u64)) -> RunEnd {
        let mut streak_task = usize::MAX;
        let mut streak = 0u64;
        let mut streak_progress = self.progress.get();
        let start = self.clock.get();
        loop {
            self.absorb_spawns();
            let runnable: Vec<usize> = self.tasks.iter().enumerate().filter(|(_, t)| t.runnable()).map(|(i, _)| i).collect();
            if runnable.is_empty() {
                return RunEnd::Quiescent;
            }
            if self.clock.get() - start > budget {
                return RunEnd::Budget;
            }
            let pick = match self.sched.next() {
                Some(x) => ((x as u64 * runnable.len() as u64) >> 32) as usize,
                None => {
                    self.rr = self.rr.wrapping_add(1);
                    self.rr % runnable.len()
                }
            };
            let i = runnable[pick];
            // busy-loop detection: the same task again and again, nothing moves
            // (only connection tasks: application/peer tasks of the harness yield on purpose)
            let is_conn = matches!(self.tasks[i].group, Group::ClientConn | Group::ServerConn);
            if is_conn && i == streak_task && self.progress.get() == streak_progress && runnable.len() == 1 {
                streak += 1;
                if streak > self.busy_limit {
                    return RunEnd::BusyLoop(self.tasks[i].name.clone());
                }
            } else {
                streak_task = i;
                streak = 0;
                streak_progress = self.progress.get();
            }
            self.poll_task(i);
            if self.tasks[i].panicked.borrow().is_some() || (self.nest_count.get() > 0 && self.any_panic().is_some()) {
                return RunEnd::Panicked;
            }
            if self.clock.get() % 8 == 0 {
                sample(self.clock.get());
            }
        }
    }

    fn poll_task(&mut self, i: usize) {
        self.current.set(i);
        let t = self.tasks[i].clone();
        t.poll_once(&self.clock);
        self.current.set(usize::MAX);
    }

    /// Generous mode: re-poll every unfinished task once (spurious polls are
    /// allowed by the Future contract). Returns true if anything happened.
    pub fn repoll_all(&mut self) -> bool {
        let before = (self.progress.get(), self.tasks.iter().filter(|t| t.done.get()).count());
        let n = self.tasks.len();
        for i in 0..n {
            if !self.tasks[i].done.get() {
                self.poll_task(i);
            }
        }
        self.absorb_spawns();
        let woken = self.tasks.iter().any(|t| t.runnable());
        let after = (self.progress.get(), self.tasks.iter().filter(|t| t.done.get()).count());
        woken || before != after
    }

    /// Drop all task futures (end of case), containing panics in destructors.
    pub fn teardown(&mut self) {
        if self.any_panic().is_some() {
            // state may be poisoned: destructors of the remaining handles could panic while another
            // panic is being handled (abort). Leak everything instead.
            for t in self.tasks.iter_mut() {
                if let Some(f) = t.fut.borrow_mut().take() {
                    std::mem::forget(f);
                }
            }
            self.registry.borrow_mut().clear();
            let mut q = self.spawn_q.borrow_mut();
            for (_, _, f, _) in q.drain(..) {
                std::mem::forget(f);
            }
            return;
        }
        // connection objects first (their Drop ends every stream), then the tasks holding stream handles:
        // the order a runtime shutdown after the connection task has finished would produce
        let mut order: Vec<usize> = (0..self.tasks.len()).collect();
        order.sort_by_key(|&i| if matches!(self.tasks[i].group, Group::ClientConn | Group::ServerConn) { 0 } else { 1 });
        for i in order {
            let t = &mut self.tasks[i];
            let f = t.fut.borrow_mut().take();
            if let Some(f) = f {
                if std::panic::catch_unwind(std::panic::AssertUnwindSafe(move || drop(f))).is_err() && t.panicked.borrow().is_none() {
                    *t.panicked.borrow_mut() = Some(format!("(in destructor at teardown) {}", crate::util::take_panic().unwrap_or_default()));
                }
            }
        }
        self.registry.borrow_mut().clear();
        let mut q = self.spawn_q.borrow_mut();
        for (_, _, f, _) in q.drain(..) {
            let _ = std::panic::catch_unwind(std::panic::AssertUnwindSafe(move || drop(f)));
        }
    }
}

/// One `Pending` with an immediate self-wake: lets the scheduler run others.
pub struct YieldNow(bool);
impl Future for YieldNow {
    type Output = ();
    fn poll(mut self: Pin<&mut Self>, cx: &mut Context<'_>) -> Poll<()> {
        if self.0 {
            Poll::Ready(())
        } else {
            self.0 = true;
            cx.waker().wake_by_ref();
            Poll::Pending
        }
    }
}
pub fn yield_now() -> YieldNow {
    YieldNow(false)
}
/// `n >= PARK` parks the task for good (never woken; dropped at teardown).
pub const PARK: usize = 1_000_000;
pub async fn yield_n(n: usize) {
    if n >= PARK {
        return std::future::pending::<()>().await;
    }
    for _ in 0..n {
        yield_now().await;
    }
}

// ------------------------------------------------------------ transport

#[derive(Clone, Copy, Debug, PartialEq, Eq, serde::Serialize, serde::Deserialize)]
pub enum CutKind {
    /// writer side vanishes: reader drains what was written, then EOF
    Eof,
    /// reader gets this error after draining
    ReadErr,
    /// the same with io::ErrorKind::UnexpectedEof (what a TLS layer reports when the peer vanishes without close_notify)
    ReadErrEof,
    /// the writer's next write fails with BrokenPipe
    WriteErr,
    /// the writer's next write returns Ok(0)
    WriteZero,
}

pub struct Pipe {
    pub name: &'static str,
    buf: VecDeque<u8>,
    pub cap: usize,
    reader_waker: Option<Waker>,
    writer_waker: Option<Waker>,
    pub writer_closed: bool,
    pub reader_dropped: bool,
    /// the tap: every byte ever accepted from the writer
    pub written: Vec<u8>,
    /// (end offset, step) per accepted write
    pub wstamp: Vec<(usize, u64)>,
    /// (end offset, step) per delivery to the reader
    pub dstamp: Vec<(usize, u64)>,
    pub delivered: usize,
    pub chunk: OwnedTape,
    /// cut the direction after this many bytes
    pub cut_at: Option<(usize, CutKind)>,
    pub cut_done: bool,
    read_err_pending: bool,
    read_err_eof: bool,
    pub shutdown_called: bool,
    pub flushes: u64,
    clock: Rc<Cell<u64>>,
    progress: Rc<Cell<u64>>,
    last_r_pending: bool,
    last_w_pending: bool,
    /// deliver at most up to the next frame boundary per read (C20 injection points)
    pub frame_aligned: bool,
    /// the writer wrote more than RUNAWAY_WRITES times within one executor step: it is starved from then on
    pub runaway: bool,
    w_in_poll: (u64, u64),
}

pub const RUNAWAY_WRITES: u64 = 100_000;

const SIZES: [usize; 16] = [1, 2, 3, 5, 9, 10, 17, 64, 100, 255, 1000, 4096, 16384, 16393, 70000, usize::MAX];

impl Pipe {
    pub fn new(name: &'static str, chunk: Vec<u32>, clock: Rc<Cell<u64>>, progress: Rc<Cell<u64>>) -> Pipe {
        Pipe {
            name,
            buf: VecDeque::new(),
            cap: usize::MAX,
            reader_waker: None,
            writer_waker: None,
            read_err_eof: false,
            runaway: false,
            w_in_poll: (0, 0),
            writer_closed: false,
            reader_dropped: false,
            written: Vec::new(),
            wstamp: Vec::new(),
            dstamp: Vec::new(),
            delivered: 0,
            chunk: OwnedTape::new(chunk),
            cut_at: None,
            cut_done: false,
            read_err_pending: false,
            shutdown_called: false,
            flushes: 0,
            clock,
            progress,
            last_r_pending: false,
            last_w_pending: false,
            frame_aligned: false,
        }
    }
    pub fn in_flight(&self) -> usize {
        self.buf.len()
    }
    fn wake_reader(&mut self) {
        if let Some(w) = self.reader_waker.take() {
            w.wake();
        }
    }
    fn wake_writer(&mut self) {
        if let Some(w) = self.writer_waker.take() {
            w.wake();
        }
    }
    /// Raw access for RefPeer: append bytes as if written by the peer.
    pub fn push_bytes(&mut self, b: &[u8]) {
        if self.writer_closed || self.reader_dropped {
            return;
        }
        let mut n = b.len();
        if let Some((at, kind)) = self.cut_at {
            if !self.cut_done && self.written.len() + n >= at {
                n = at.saturating_sub(self.written.len());
                self.apply_cut(kind);
            }
        }
        self.buf.extend(&b[..n]);
        self.written.extend_from_slice(&b[..n]);
        self.wstamp.push((self.written.len(), self.clock.get()));
        self.progress.set(self.progress.get() + 1);
        self.wake_reader();
    }
    fn apply_cut(&mut self, kind: CutKind) {
        self.cut_done = true;
        match kind {
            CutKind::Eof => self.writer_closed = true,
            CutKind::ReadErr | CutKind::ReadErrEof => {
                self.writer_closed = true;
                self.read_err_pending = true;
                self.read_err_eof = kind == CutKind::ReadErrEof;
            }
            CutKind::WriteErr | CutKind::WriteZero => {}
        }
    }
    /// an injected read error has been handed to the reader
    pub fn read_error_delivered(&self) -> bool {
        self.cut_done && !self.read_err_pending
    }
    /// Apply the cut right now, wherever the byte count stands.
    pub fn force_cut(&mut self, kind: CutKind) {
        self.cut_at = Some((self.written.len(), kind));
        self.apply_cut(kind);
        if matches!(kind, CutKind::WriteErr | CutKind::WriteZero) {
            // a write error is only seen by a writer; make the direction dead for the reader too so
            // that the connection notices even if it has nothing to write
            self.writer_closed = true;
        }
        self.wake_reader();
        self.wake_writer();
    }
    /// Raw access for RefPeer: take everything available.
    pub fn take_bytes(&mut self) -> Vec<u8> {
        let v: Vec<u8> = self.buf.drain(..).collect();
        if !v.is_empty() {
            self.delivered += v.len();
            self.dstamp.push((self.delivered, self.clock.get()));
            self.progress.set(self.progress.get() + 1);
            self.wake_writer();
        }
        v
    }
    pub fn set_reader_waker(&mut self, w: &Waker) {
        self.reader_waker = Some(w.clone());
    }
    pub fn close_writer(&mut self) {
        self.writer_closed = true;
        self.wake_reader();
    }
    pub fn drop_reader(&mut self) {
        self.reader_dropped = true;
        self.wake_writer();
    }
}

pub type PipeRef = Rc<RefCell<Pipe>>;

/// Called at every transport callback made by the owner's poll (C20 injection).
pub type Hook = Rc<dyn Fn(&'static str)>;

pub struct Io {
    pub rx: PipeRef,
    pub tx: PipeRef,
    pub vectored: bool,
    pub hook: Option<Hook>,
}

impl Io {
    fn call_hook(&self, at: &'static str) {
        if let Some(h) = &self.hook {
            h(at);
        }
    }
}

impl Drop for Io {
    fn drop(&mut self) {
        self.tx.borrow_mut().close_writer();
        self.rx.borrow_mut().drop_reader();
    }
}

impl AsyncRead for Io {
    fn poll_read(self: Pin<&mut Self>, cx: &mut Context<'_>, out: &mut ReadBuf<'_>) -> Poll<io::Result<()>> {
        let _u = crate::heapmeter::Untracked::new();
        self.call_hook("read");
        let mut p = self.rx.borrow_mut();
        if p.buf.is_empty() {
            if p.read_err_pending {
                p.read_err_pending = false;
                if p.read_err_eof {
                    return Poll::Ready(Err(io::Error::new(io::ErrorKind::UnexpectedEof, "sim: peer closed without close_notify")));
                }
                return Poll::Ready(Err(io::Error::new(io::ErrorKind::ConnectionReset, "sim: connection reset")));
            }
            if p.writer_closed {
                return Poll::Ready(Ok(())); // EOF
            }
            p.reader_waker = Some(cx.waker().clone());
            return Poll::Pending;
        }
        let c = p.chunk.next();
        if let Some(c) = c {
            if c % 7 == 0 && !p.last_r_pending {
                // transient Pending: the bytes are there, the socket just says "not yet"
                p.last_r_pending = true;
                cx.waker().wake_by_ref();
                return Poll::Pending;
            }
        }
        p.last_r_pending = false;
        let mut n = match c {
            Some(c) => SIZES[(c as usize >> 8) % 16],
            None => usize::MAX,
        };
        n = n.min(p.buf.len()).min(out.remaining());
        if p.frame_aligned {
            // never deliver past the end of the frame the reader is currently in
            let pos = p.delivered;
            if let Some(b) = next_frame_boundary(&p.written, pos, p.name == "c2s") {
                n = n.min(b - pos).max(1);
            }
        }
        let (a, b) = p.buf.as_slices();
        if n <= a.len() {
            out.put_slice(&a[..n]);
        } else {
            out.put_slice(a);
            out.put_slice(&b[..n - a.len()]);
        }
        p.buf.drain(..n);
        p.delivered += n;
        let (d, s) = (p.delivered, p.clock.get());
        p.dstamp.push((d, s));
        p.progress.set(p.progress.get() + 1);
        p.wake_writer();
        Poll::Ready(Ok(()))
    }
}

/// End offset of the frame containing byte `pos` (or of the preface).
fn next_frame_boundary(bytes: &[u8], pos: usize, has_preface: bool) -> Option<usize> {
    let mut off = 0usize;
    if has_preface {
        if pos < 24 {
            return Some(24);
        }
        off = 24;
    }
    loop {
        if bytes.len() < off + 9 {
            return None;
        }
        let len = ((bytes[off] as usize) << 16) | ((bytes[off + 1] as usize) << 8) | bytes[off + 2] as usize;
        let end = off + 9 + len;
        if pos < end {
            return Some(end);
        }
        off = end;
    }
}

impl Io {
    fn do_write(&self, cx: &mut Context<'_>, total: usize) -> Poll<io::Result<usize>> {
        let mut p = self.tx.borrow_mut();
        if p.reader_dropped {
            return Poll::Ready(Err(io::Error::new(io::ErrorKind::BrokenPipe, "sim: peer closed")));
        }
        if let Some((at, kind)) = p.cut_at {
            if p.written.len() >= at {
                if !p.cut_done {
                    p.apply_cut(kind);
                    p.wake_reader();
                }
                return match kind {
                    CutKind::WriteZero => Poll::Ready(Ok(0)),
                    _ => Poll::Ready(Err(io::Error::new(io::ErrorKind::BrokenPipe, "sim: write failed"))),
                };
            }
        }
        if total == 0 {
            return Poll::Ready(Ok(0));
        }
        let now = p.clock.get();
        if p.w_in_poll.0 == now {
            p.w_in_poll.1 += 1;
        } else {
            p.w_in_poll = (now, 1);
        }
        if p.runaway || p.w_in_poll.1 > RUNAWAY_WRITES {
            // output without end inside a single poll: starve the writer so that the poll returns
            p.runaway = true;
            return Poll::Pending;
        }
        let room = p.cap.saturating_sub(p.buf.len());
        if room == 0 {
            p.writer_waker = Some(cx.waker().clone());
            return Poll::Pending;
        }
        let c = p.chunk.next();
        if let Some(c) = c {
            if c % 7 == 1 && !p.last_w_pending {
                p.last_w_pending = true;
                cx.waker().wake_by_ref();
                return Poll::Pending;
            }
        }
        p.last_w_pending = false;
        let mut n = match c {
            Some(c) => SIZES[(c as usize >> 12) % 16],
            None => usize::MAX,
        };
        n = n.min(total).min(room);
        if let Some((at, _)) = p.cut_at {
            n = n.min(at - p.written.len()).max(1);
        }
        Poll::Ready(Ok(n))
    }
    fn commit(&self, data: &[u8]) {
        let mut p = self.tx.borrow_mut();
        p.buf.extend(data);
        p.written.extend_from_slice(data);
        let (w, s) = (p.written.len(), p.clock.get());
        p.wstamp.push((w, s));
        p.progress.set(p.progress.get() + 1);
        p.wake_reader();
    }
}

impl AsyncWrite for Io {
    fn poll_write(self: Pin<&mut Self>, cx: &mut Context<'_>, buf: &[u8]) -> Poll<io::Result<usize>> {
        let _u = crate::heapmeter::Untracked::new();
        self.call_hook("write");
        match self.do_write(cx, buf.len()) {
            Poll::Ready(Ok(n)) => {
                self.commit(&buf[..n]);
                Poll::Ready(Ok(n))
            }
            other => other,
        }
    }
    fn poll_write_vectored(self: Pin<&mut Self>, cx: &mut Context<'_>, bufs: &[io::IoSlice<'_>]) -> Poll<io::Result<usize>> {
        let _u = crate::heapmeter::Untracked::new();
        self.call_hook("write");
        let total: usize = bufs.iter().map(|b| b.len()).sum();
        match self.do_write(cx, total) {
            Poll::Ready(Ok(n)) => {
                let mut left = n;
                for b in bufs {
                    let k = b.len().min(left);
                    if k > 0 {
                        self.commit(&b[..k]);
                    }
                    left -= k;
                    if left == 0 {
                        break;
                    }
                }
                Poll::Ready(Ok(n))
            }
            other => other,
        }
    }
    fn is_write_vectored(&self) -> bool {
        self.vectored
    }
    fn poll_flush(self: Pin<&mut Self>, _cx: &mut Context<'_>) -> Poll<io::Result<()>> {
        let _u = crate::heapmeter::Untracked::new();
        self.call_hook("flush");
        self.tx.borrow_mut().flushes += 1;
        Poll::Ready(Ok(()))
    }
    fn poll_shutdown(self: Pin<&mut Self>, _cx: &mut Context<'_>) -> Poll<io::Result<()>> {
        let _u = crate::heapmeter::Untracked::new();
        self.call_hook("shutdown");
        let mut p = self.tx.borrow_mut();
        p.shutdown_called = true;
        p.close_writer();
        Poll::Ready(Ok(()))
    }
}

/// A connected pair of transports plus handles on both pipes (the tap).
pub struct Wire {
    pub c2s: PipeRef,
    pub s2c: PipeRef,
}

pub fn duplex(exec: &Exec, chunk_c2s: Vec<u32>, chunk_s2c: Vec<u32>, vectored_c: bool, vectored_s: bool) -> (Io, Io, Wire) {
    let c2s = Rc::new(RefCell::new(Pipe::new("c2s", chunk_c2s, exec.clock.clone(), exec.progress.clone())));
    let s2c = Rc::new(RefCell::new(Pipe::new("s2c", chunk_s2c, exec.clock.clone(), exec.progress.clone())));
    let client = Io { rx: s2c.clone(), tx: c2s.clone(), vectored: vectored_c, hook: None };
    let server = Io { rx: c2s.clone(), tx: s2c.clone(), vectored: vectored_s, hook: None };
    (client, server, Wire { c2s, s2c })
}

// ------------------------------------------------------------ API event log

#[derive(Clone, Copy, Debug, PartialEq, Eq, PartialOrd, Ord, Hash, serde::Serialize, serde::Deserialize)]
pub enum Side {
    Client,
    Server,
}

impl Side {
    pub fn other(self) -> Side {
        match self {
            Side::Client => Side::Server,
            Side::Server => Side::Client,
        }
    }
    pub fn name(self) -> &'static str {
        match self {
            Side::Client => "client",
            Side::Server => "server",
        }
    }
}

/// How an error surfaced on a handle.
#[derive(Clone, Debug, PartialEq, Eq)]
pub struct ErrInfo {
    pub reason: Option<u32>,
    pub is_remote: bool,
    pub is_library: bool,
    pub is_reset: bool,
    pub is_go_away: bool,
    pub is_io: bool,
    pub text: String,
}

pub fn err_info(e: &h2::Error) -> ErrInfo {
    ErrInfo {
        reason: e.reason().map(u32::from),
        is_remote: e.is_remote(),
        is_library: e.is_library(),
        is_reset: e.is_reset(),
        is_go_away: e.is_go_away(),
        is_io: e.is_io(),
        text: format!("{}", e),
    }
}

#[derive(Clone, Debug)]
pub enum Api {
    // ---- send side
    /// message head submitted: (kind, stream id if known, canonical fields, end_of_stream)
    SentHead { kind: &'static str, stream: u32, fields: Vec<(String, String)>, eos: bool },
    SentData { len: usize, eos: bool },
    SentTrailers { fields: Vec<(String, String)> },
    SendErr { op: &'static str, err: ErrInfo },
    SentReset { code: u32 },
    DroppedSend,
    DroppedRecv,
    DroppedResponseFuture,
    Capacity { got: usize },
    CapacityErr { err: ErrInfo },
    CapacityEnd,
    PollReset { result: Result<u32, ErrInfo> },
    // ---- receive side
    RecvHead { kind: &'static str, stream: u32, fields: Vec<(String, String)>, eos: bool },
    RecvData { len: usize, ok: bool },
    RecvDataEnd,
    RecvTrailers { fields: Option<Vec<(String, String)>> },
    RecvErr { op: &'static str, err: ErrInfo },
    Released { n: usize, err: Option<String> },
    // ---- connection level
    Ready { result: Result<(), ErrInfo> },
    ConnDone { result: Result<(), ErrInfo> },
    ConnOp { op: String },
    Accepted { stream: u32 },
    AcceptEnd,
    AcceptErr { err: ErrInfo },
    Pong { result: Result<(), ErrInfo> },
    TaskEnd,
}

#[derive(Clone, Debug)]
pub struct ApiEvent {
    pub step: u64,
    pub side: Side,
    /// request key (x-id); 0 = connection level; pushed streams use 1000*parent+n
    pub key: u32,
    pub api: Api,
}

#[derive(Clone)]
pub struct Log {
    pub events: Rc<RefCell<Vec<ApiEvent>>>,
    clock: Rc<Cell<u64>>,
    progress: Rc<Cell<u64>>,
}

impl Log {
    pub fn new(exec: &Exec) -> Log {
        Log { events: Rc::new(RefCell::new(Vec::new())), clock: exec.clock.clone(), progress: exec.progress.clone() }
    }
    pub fn push(&self, side: Side, key: u32, api: Api) {
        let _u = crate::heapmeter::Untracked::new();
        self.progress.set(self.progress.get() + 1);
        self.events.borrow_mut().push(ApiEvent { step: self.clock.get(), side, key, api });
    }
    pub fn step(&self) -> u64 {
        self.clock.get()
    }
}
