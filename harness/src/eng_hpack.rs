//! HPACK component engines.
//!  * `DecEngine`   (C11): h2 `hpack::Decoder` vs the RFC 7541 reference on block histories
//!  * `SplitEngine` (C11): a block fed whole vs in HEADERS+CONTINUATION pieces through h2's real `Codec`
//!  * `EncEngine`   (C10): h2's encoder (through `Codec`, incl. CONTINUATION) decoded by the strict reference and by h2
//!  * exhaustive Huffman / prefix-integer sub-spaces (C11)

use crate::mockio::{noop_waker, ScriptIo};
use crate::refmodel::hpack::{self as rh, Choice, Field, HpackErr, RefDecoder, RefEncoder, Repr};
use crate::refmodel::wire::{self, Frame as WFrame};
use crate::runner::{Engine, Outcome};
use crate::tape::Tape;
use crate::util::{hexser, show};
use bytes::{Bytes, BytesMut};
use h2::verif::frame as hf;
use h2::verif::{huffman, Codec, Decoder};
use serde::{Deserialize, Serialize};
use std::io::Cursor;
use std::ops::ControlFlow;
use std::pin::Pin;
use std::task::{Context, Poll};

// ------------------------------------------------------------ field pool

const NAMES: &[&str] = &[
    "accept", "cookie", "content-length", "set-cookie", "date", "authorization", "etag", "location", "age", "vary", "via", "x-a", "x-b", "x-id",
    "x-request-trace-identifier-long-name", "user-agent", "cache-control", "if-none-match", "content-type", "te", "x-c", "x-d", "x-e", "x-f",
];
const VALUES: &[&str] = &["", "1", "a", "gzip, deflate", "no-cache", "trailers", "text/html", "abc=def", "0", "1234", "Mon, 21 Oct 2013 20:13:21 GMT", "v"];
const METHODS: &[&str] = &["GET", "POST", "PUT", "HEAD", "PROPFIND", "OPTIONS", "CONNECT"];
const PATHS: &[&str] = &["/", "/index.html", "/a/b?c=d", "/x", "*"];
const STATUSES: &[&str] = &["200", "204", "206", "304", "400", "404", "500", "599", "100", "103"];

fn printable(t: &mut Tape, n: usize) -> Vec<u8> {
    (0..n).map(|_| b"abcdefghijklmnopqrstuvwxyz0123456789-_=;,. /%+ABCXYZ"[t.below(52)]).collect()
}

fn gen_name(t: &mut Tape) -> Vec<u8> {
    match t.weighted(&[12, 4, 1]) {
        0 => t.pick(NAMES).as_bytes().to_vec(),
        1 => format!("x-{}", t.below(600)).into_bytes(),
        _ => {
            let n = 1 + t.below(40);
            (0..n).map(|_| b"abcdefghijklmnopqrstuvwxyz0123456789-"[t.below(37)]).collect()
        }
    }
}

/// short values whose Huffman coding is much longer than the raw bytes
/// (obs-text / UTF-8 and the ASCII symbols with 13..15-bit codes)
fn gen_long_code_value(t: &mut Tape) -> Vec<u8> {
    let n = 1 + t.below(70);
    match t.below(3) {
        0 => "\u{4e2d}\u{6587}\u{65e5}\u{672c}".chars().cycle().skip(t.below(4)).take(n).collect::<String>().into_bytes(),
        1 => (0..n).map(|_| [0x5cu8, b'<', b'>', b'{', b'}', b'^', b'`', b'|'][t.below(8)]).collect(),
        _ => (0..n).map(|_| 0x80 + t.below(0x80) as u8).collect(),
    }
}

fn gen_value(t: &mut Tape, big: bool) -> Vec<u8> {
    if t.chance(1, 12) {
        return gen_long_code_value(t);
    }
    match t.weighted(&[10, 5, 2, if big { 2 } else { 0 }]) {
        0 => t.pick(VALUES).as_bytes().to_vec(),
        1 => {
            let n = 1 + t.below(60);
            printable(t, n)
        }
        2 => {
            let n = 60 + t.below(400);
            printable(t, n)
        }
        _ => {
            let n = 1000 + t.below(4500);
            printable(t, n)
        }
    }
}

fn gen_pseudo(t: &mut Tape) -> Field {
    match t.below(6) {
        0 => Field::new(b":method", t.pick(METHODS).as_bytes()),
        1 => Field::new(b":scheme", if t.bool() { b"https" } else { b"http" }),
        2 => Field::new(b":authority", if t.bool() { b"example.com".as_ref() } else { b"a.b:8080".as_ref() }),
        3 => Field::new(b":path", t.pick(PATHS).as_bytes()),
        4 => Field::new(b":status", t.pick(STATUSES).as_bytes()),
        _ => Field::new(b":protocol", b"websocket"),
    }
}

fn gen_field(t: &mut Tape, big: bool) -> Field {
    if t.chance(1, 6) {
        gen_pseudo(t)
    } else {
        Field { name: gen_name(t), value: gen_value(t, big) }
    }
}

fn gen_choice(t: &mut Tape) -> Choice {
    Choice {
        repr: *t.pick(&[Repr::Indexed, Repr::Incremental, Repr::Without, Repr::Never, Repr::Indexed, Repr::Incremental]),
        name_ref: t.chance(3, 4),
        huff_name: t.bool(),
        huff_value: t.bool(),
        pad_int: if t.chance(1, 8) { 1 + t.below(2) as u8 } else { 0 },
        oldest: t.chance(1, 4),
    }
}

const TABLE_SIZES: &[usize] = &[4096, 0, 1, 33, 64, 100, 256, 1000, 4095, 4097, 8192, 65536];

fn h2_fields(dec: &mut Decoder, block: &[u8]) -> Result<Vec<Field>, String> {
    let mut buf = BytesMut::from(block);
    let mut out = Vec::new();
    let r = dec.decode(&mut Cursor::new(&mut buf), |h| {
        out.push(Field::new(h.name().as_slice(), h.value_slice()));
        ControlFlow::Continue(())
    });
    match r {
        Ok(()) => Ok(out),
        Err(e) => Err(format!("{:?}", e)),
    }
}

fn err_name(e: HpackErr) -> &'static str {
    match e {
        HpackErr::BadIndex => "bad-index",
        HpackErr::IntOverflow => "integer-overflow",
        HpackErr::Truncated => "truncated",
        HpackErr::SizeUpdateTooLarge => "size-update-too-large",
        HpackErr::SizeUpdateMisplaced => "size-update-misplaced",
        HpackErr::MissingSizeUpdate => "missing-size-update",
        HpackErr::HuffEos => "huffman-eos",
        HpackErr::HuffPadding => "huffman-padding",
    }
}

// ------------------------------------------------------------ block generators

#[derive(Clone, Debug, Serialize, Deserialize)]
pub struct Block {
    #[serde(with = "hexser")]
    pub bytes: Vec<u8>,
    pub kind: String,
}

/// Valid block from the reference encoder (advances `enc`).
fn gen_valid_block(t: &mut Tape, enc: &mut RefEncoder, big: bool) -> Vec<u8> {
    let mut b = Vec::new();
    // a pending required reduction must be signalled; sometimes also a voluntary update
    let need = enc.dec.required_update.take();
    if let Some(r) = need {
        let v = if r > 0 && t.chance(1, 3) { t.below(r + 1) } else { r };
        enc.size_update(&mut b, v);
        if t.chance(1, 2) {
            let c = enc.dec.ceiling;
            let v2 = t.below(c.min(8192) + 1);
            enc.size_update(&mut b, v2);
        }
    } else if t.chance(1, 6) {
        let c = enc.dec.ceiling;
        let v = *t.pick(&[0usize, 50, 100, 4096, usize::MAX]);
        let v = v.min(c);
        enc.size_update(&mut b, v);
        if t.chance(1, 3) {
            enc.size_update(&mut b, c.min(4096));
        }
    }
    let n = t.below(9);
    for _ in 0..n {
        let f = gen_field(t, big);
        let c = gen_choice(t);
        enc.field(&mut b, &f, c);
    }
    b
}

fn gen_hostile_block(t: &mut Tape, enc: &RefEncoder) -> (Vec<u8>, &'static str) {
    let mut e2 = enc.clone();
    let mut b = Vec::new();
    // optional valid prefix inside the same block
    let npre = t.below(3);
    for _ in 0..npre {
        let f = gen_field(t, false);
        let c = gen_choice(t);
        e2.field(&mut b, &f, c);
    }
    let n_dyn = e2.dec.table.len() as u64;
    let kind = match t.below(14) {
        0 => {
            b.push(0x80);
            "index-0"
        }
        1 => {
            rh::int_encode(&mut b, 0x80, 7, 62 + n_dyn, 0);
            "index-one-past-end"
        }
        2 => {
            rh::int_encode(&mut b, 0x40, 6, 62 + n_dyn, 0);
            b.extend_from_slice(&[0x01, b'v']);
            "name-index-one-past-end"
        }
        3 => {
            rh::int_encode(&mut b, 0x00, 4, 62 + n_dyn + t.below(1000) as u64, 0);
            b.extend_from_slice(&[0x01, b'v']);
            "name-index-beyond-end"
        }
        4 => {
            let mut b2 = Vec::new();
            rh::int_encode(&mut b2, 0x20, 5, e2.dec.ceiling as u64 + 1 + t.below(3) as u64, 0);
            if npre == 0 {
                b = b2;
                "size-update-over-ceiling"
            } else {
                b.extend(b2);
                "size-update-after-field"
            }
        }
        5 => {
            if npre == 0 {
                e2.field(&mut b, &Field::new(b"x-a", b"1"), Choice::plain());
            }
            let v = t.below(e2.dec.ceiling.min(4096) + 1);
            rh::int_encode(&mut b, 0x20, 5, v as u64, 0);
            "size-update-after-field"
        }
        6 => {
            // shrink to 0 then reference the (now empty) dynamic table
            if npre == 0 {
                b.push(0x20);
                b.push(0x80 | 62);
                "index-after-shrink-to-0"
            } else {
                b.push(0x80);
                "index-0"
            }
        }
        7 => {
            // integer with many continuation octets (overflow)
            b.push(0xff);
            let n = 6 + t.below(8);
            for _ in 0..n {
                b.push(0xff);
            }
            b.push(0x7f);
            "integer-overflow"
        }
        8 => {
            // literal, Huffman value containing EOS (30 ones) then padding
            b.extend_from_slice(&[0x00, 0x01, b'n']);
            b.push(0x80 | 5);
            b.extend_from_slice(&[0xff, 0xff, 0xff, 0xff, 0xff]);
            "huffman-eos"
        }
        9 => {
            // 'a' (00011) + 3 bits padding with a zero bit
            b.extend_from_slice(&[0x00, 0x01, b'n', 0x81]);
            b.push([0x1e, 0x1d, 0x1b, 0x18][t.below(4)]);
            "huffman-padding-zero-bit"
        }
        10 => {
            // valid symbol then a full byte of ones: 8+ bits of padding
            b.extend_from_slice(&[0x00, 0x01, b'n', 0x82, 0x1f, 0xff]);
            "huffman-padding-too-long"
        }
        11 => {
            // truncated: valid block cut short
            let mut e3 = e2.clone();
            let mut v = Vec::new();
            let f = Field { name: gen_name(t), value: gen_value(t, false) };
            e3.field(&mut v, &f, gen_choice(t));
            if v.len() > 1 {
                let cut = 1 + t.below(v.len() - 1);
                v.truncate(cut);
            }
            b.extend(v);
            "truncated"
        }
        12 => {
            // 6-octet but in-range integer (index 62 non-minimally): RFC-valid iff the entry exists
            rh::int_encode(&mut b, 0x80, 7, 127 + t.below(3) as u64, 3 + t.below(3));
            "long-integer"
        }
        _ => {
            // string length beyond the block
            b.extend_from_slice(&[0x00, 0x01, b'n']);
            rh::int_encode(&mut b, 0x00, 7, 200 + t.below(100000) as u64, 0);
            b.extend_from_slice(b"short");
            "string-overruns-block"
        }
    };
    (b, kind)
}

fn mutate(t: &mut Tape, mut b: Vec<u8>) -> Vec<u8> {
    let n = 1 + t.below(3);
    for _ in 0..n {
        if b.is_empty() {
            b.push(t.below(256) as u8);
            continue;
        }
        let i = t.below(b.len());
        match t.below(5) {
            0 => b[i] ^= 1 << t.below(8),
            1 => b[i] = t.below(256) as u8,
            2 => {
                b.insert(i, t.below(256) as u8);
            }
            3 => {
                b.remove(i);
            }
            _ => b.truncate(i),
        }
    }
    b
}

// ------------------------------------------------------------ DecEngine (C11)

#[derive(Clone, Debug, Serialize, Deserialize)]
pub enum DecEv {
    /// local SETTINGS_HEADER_TABLE_SIZE acknowledged by the peer
    Ceiling(usize),
    Block(Block),
}

#[derive(Clone, Debug, Serialize, Deserialize)]
pub struct DecCase {
    pub events: Vec<DecEv>,
}

pub struct DecEngine;

pub fn gen_history(t: &mut Tape, max_blocks: usize, big: bool) -> Vec<DecEv> {
    let mut enc = RefEncoder::new(4096);
    let mut ev = Vec::new();
    let nvalid = t.below(max_blocks);
    let mut ceiling_done = false;
    for _ in 0..nvalid {
        if !ceiling_done && t.chance(1, 5) {
            ceiling_done = true;
            let c = *t.pick(TABLE_SIZES);
            enc.dec.set_ceiling(c);
            ev.push(DecEv::Ceiling(c));
        }
        let b = gen_valid_block(t, &mut enc, big);
        ev.push(DecEv::Block(Block { bytes: b, kind: "valid".into() }));
    }
    // final block: valid / mutated / hostile / random
    match t.weighted(&[2, 3, 4, 1]) {
        0 => {
            let b = gen_valid_block(t, &mut enc, big);
            ev.push(DecEv::Block(Block { bytes: b, kind: "valid".into() }));
        }
        1 => {
            let mut e2 = enc.clone();
            let b = gen_valid_block(t, &mut e2, false);
            ev.push(DecEv::Block(Block { bytes: mutate(t, b), kind: "mutated".into() }));
        }
        2 => {
            let (b, k) = gen_hostile_block(t, &enc);
            ev.push(DecEv::Block(Block { bytes: b, kind: format!("hostile:{}", k) }));
        }
        _ => {
            let n = t.below(40);
            ev.push(DecEv::Block(Block { bytes: t.bytes(n), kind: "random".into() }));
        }
    }
    ev
}

impl Engine for DecEngine {
    type Case = DecCase;
    fn name(&self) -> &'static str {
        "hpack-dec"
    }
    fn tape_lens(&self) -> Vec<usize> {
        vec![400]
    }
    fn gen(&self, tapes: &[Vec<u32>]) -> DecCase {
        let mut t = Tape::new(&tapes[0]);
        DecCase { events: gen_history(&mut t, 8, true) }
    }
    fn rule(&self) -> String {
        "block histories (reference-encoded with random representation choices, then a valid/mutated/hostile/random last block) decoded by h2::hpack::Decoder and by the RFC 7541 reference; non-trivial = some block used a dynamic-table reference, a Huffman string, a size update, or was rejected by the reference; distinct = distinct case hash".into()
    }
    fn run(&self, case: &DecCase) -> Outcome {
        let mut out = Outcome::default();
        let mut rd = RefDecoder::new(4096);
        let mut hd = Decoder::new(4096);
        for (i, ev) in case.events.iter().enumerate() {
            match ev {
                DecEv::Ceiling(c) => {
                    rd.set_ceiling(*c);
                    hd.queue_size_update(*c);
                    out.label("ceiling-change");
                }
                DecEv::Block(b) => {
                    out.label(format!("block:{}", b.kind.split(':').next().unwrap()));
                    let r = rd.decode_block(&b.bytes);
                    let h = h2_fields(&mut hd, &b.bytes);
                    match (&r, &h) {
                        (Ok((rf, info)), Ok(hf)) => {
                            if info.dyn_refs > 0 {
                                out.label("dyn-ref");
                                out.nontrivial = true;
                            }
                            if info.huff_strings > 0 {
                                out.label("huffman");
                                out.nontrivial = true;
                            }
                            if !info.size_updates.is_empty() {
                                out.label("size-update");
                                out.nontrivial = true;
                            }
                            if info.evicted > 0 {
                                out.label("eviction");
                            }
                            if rf != hf {
                                out.fail(
                                    "C11",
                                    "hpack-dec/fields",
                                    "C11/field-list-differs",
                                    format!("block #{} ({}): reference {:?} vs h2 {:?}", i, b.kind, brief(rf), brief(hf)),
                                );
                                return out;
                            }
                        }
                        (Err(e), Ok(hf)) => {
                            out.nontrivial = true;
                            out.fail(
                                "C11",
                                "hpack-dec/accepts-error",
                                format!("C11/h2-accepts-rfc-error/{}", err_name(*e)),
                                format!("block #{} ({}) {}: RFC 7541 makes this a decoding error ({:?}) but h2 returned {:?}", i, b.kind, show(&b.bytes), e, brief(hf)),
                            );
                            return out;
                        }
                        (Ok((_, info)), Err(he)) => {
                            // allowed: implementation limits / HTTP field validation
                            out.label(format!("h2-stricter:{}", he.split('(').next().unwrap_or("")));
                            if info.long_int {
                                out.label("long-int");
                            }
                            return out;
                        }
                        (Err(e), Err(_)) => {
                            out.nontrivial = true;
                            out.label(format!("both-reject:{}", err_name(*e)));
                            return out;
                        }
                    }
                }
            }
        }
        out
    }
}

fn brief(f: &[Field]) -> Vec<String> {
    f.iter().take(12).map(|f| format!("{}: {}", show(&f.name), show(&f.value))).collect()
}

// ------------------------------------------------------------ SplitEngine (C11)

#[derive(Clone, Debug, Serialize, Deserialize)]
pub struct SplitCase {
    pub events: Vec<DecEv>,
    /// split offsets for the last block (sorted, within 0..=len); empty = every single split point is tried
    pub splits: Vec<usize>,
    pub read_plan: Vec<u16>,
    pub padded: bool,
    pub priority: bool,
    pub push_promise: bool,
}

pub struct SplitEngine;

/// Result of feeding frames to an h2 Codec: one entry per frame/err produced.
pub fn codec_read_all(bytes: Vec<u8>, plan: Vec<u16>, table_events: &[(usize, usize)], max_frame: Option<usize>) -> Vec<String> {
    use futures_core::Stream;
    let io = ScriptIo::reader(bytes, plan, true);
    let mut codec: Codec<ScriptIo, Bytes> = Codec::new(io);
    if let Some(m) = max_frame {
        codec.set_max_recv_frame_size(m);
    }
    codec.set_max_recv_header_list_size(1 << 26);
    let w = noop_waker();
    let mut cx = Context::from_waker(&w);
    let mut out = Vec::new();
    let mut idle = 0;
    let mut last_pos = 0usize;
    loop {
        // table-size events are applied when the read position has passed their offset
        for (off, sz) in table_events {
            if *off == out.len() {
                codec.set_recv_header_table_size(*sz);
            }
        }
        match Pin::new(&mut codec).poll_next(&mut cx) {
            Poll::Ready(Some(Ok(f))) => {
                idle = 0;
                out.push(frame_summary(f));
            }
            Poll::Ready(Some(Err(e))) => {
                out.push(format!("ERR {:?}", e));
                break;
            }
            Poll::Ready(None) => {
                out.push("EOF".into());
                break;
            }
            Poll::Pending => {
                let pos = codec.get_mut().rpos;
                if pos != last_pos {
                    last_pos = pos;
                    idle = 0;
                }
                idle += 1;
                if idle > 4 {
                    out.push("STALL".into());
                    break;
                }
            }
        }
        if out.len() > 10_000 {
            break;
        }
    }
    out
}

pub fn frame_summary(f: hf::Frame) -> String {
    match f {
        hf::Frame::Headers(h) => {
            let sid: u32 = h.stream_id().into();
            let es = h.is_end_stream();
            let eh = h.is_end_headers();
            let over = h.is_over_size();
            let (p, fields) = h.into_parts();
            format!("HEADERS sid={} es={} eh={} over={} pseudo={} fields={}", sid, es, eh, over, pseudo_summary(&p), fields_summary(&fields))
        }
        hf::Frame::PushPromise(h) => {
            let sid: u32 = h.stream_id().into();
            let pid: u32 = h.promised_id().into();
            let over = h.is_over_size();
            let (p, fields) = h.into_parts();
            format!("PUSH_PROMISE sid={} promised={} over={} pseudo={} fields={}", sid, pid, over, pseudo_summary(&p), fields_summary(&fields))
        }
        hf::Frame::Data(d) => {
            let sid: u32 = d.stream_id().into();
            format!("DATA sid={} es={} len={} h={:016x}", sid, d.is_end_stream(), d.payload().len(), crate::tape::fnv(d.payload()))
        }
        other => format!("{:?}", other),
    }
}

fn pseudo_summary(p: &hf::Pseudo) -> String {
    format!(
        "[m={:?} s={:?} a={:?} p={:?} pr={:?} st={:?}]",
        p.method.as_ref().map(|m| m.as_str().to_string()),
        p.scheme.as_ref().map(|s| s.to_string()),
        p.authority.as_ref().map(|s| s.to_string()),
        p.path.as_ref().map(|s| s.to_string()),
        p.protocol.as_ref().map(|s| s.as_str().to_string()),
        p.status.map(|s| s.as_u16())
    )
}

fn fields_summary(m: &http::HeaderMap) -> String {
    let mut s = String::new();
    for (n, v) in m.iter() {
        s.push_str(n.as_str());
        s.push('=');
        s.push_str(&show(v.as_bytes()));
        s.push(';');
    }
    s
}

/// Build HEADERS(+CONTINUATION) wire bytes carrying `block` cut at `splits`.
pub fn header_frames(stream: u32, block: &[u8], splits: &[usize], padded: bool, priority: bool, push: bool, end_stream: bool) -> Vec<u8> {
    let mut cuts: Vec<usize> = splits.iter().copied().filter(|&c| c <= block.len()).collect();
    cuts.sort();
    cuts.dedup();
    let mut pieces = Vec::new();
    let mut last = 0;
    for c in cuts {
        pieces.push(&block[last..c]);
        last = c;
    }
    pieces.push(&block[last..]);
    let mut bytes = Vec::new();
    let n = pieces.len();
    for (i, p) in pieces.iter().enumerate() {
        let f = if i == 0 {
            if push {
                WFrame::Push { stream, end_headers: n == 1, pad: if padded { Some(3) } else { None }, promised: stream + 1, promised_r: false, frag: p.to_vec() }
            } else {
                WFrame::Headers {
                    stream,
                    end_stream,
                    end_headers: n == 1,
                    pad: if padded { Some(2) } else { None },
                    prio: if priority { Some(wire::Prio { exclusive: false, dep: 0, weight: 16 }) } else { None },
                    frag: p.to_vec(),
                }
            }
        } else {
            WFrame::Cont { stream, end_headers: i + 1 == n, frag: p.to_vec() }
        };
        bytes.extend(f.encode());
    }
    bytes
}

impl Engine for SplitEngine {
    type Case = SplitCase;
    fn name(&self) -> &'static str {
        "hpack-split"
    }
    fn tape_lens(&self) -> Vec<usize> {
        vec![400, 24]
    }
    fn gen(&self, tapes: &[Vec<u32>]) -> SplitCase {
        let mut t = Tape::new(&tapes[0]);
        let events = gen_history(&mut t, 4, false);
        let mut t2 = Tape::new(&tapes[1]);
        let last_len = match events.last() {
            Some(DecEv::Block(b)) => b.bytes.len(),
            _ => 0,
        };
        let splits = if t2.chance(1, 2) {
            vec![]
        } else {
            let k = 1 + t2.below(5);
            (0..k).map(|_| t2.below(last_len + 1)).collect()
        };
        let np = t2.below(12);
        SplitCase {
            events,
            splits,
            read_plan: (0..np).map(|_| t2.u32() as u16).collect(),
            padded: t2.chance(1, 4),
            priority: t2.chance(1, 4),
            push_promise: t2.chance(1, 6),
        }
    }
    fn rule(&self) -> String {
        "block histories fed to h2's Codec as HEADERS/PUSH_PROMISE: last block whole vs cut into CONTINUATION fragments (every single split point, or a generated multi-split) under generated read chunking; outcomes must agree with each other and, when accepted, with the reference decoder; non-trivial = last block non-empty and at least one split strictly inside it".into()
    }
    fn run(&self, case: &SplitCase) -> Outcome {
        let mut out = Outcome::default();
        let mut prefix = Vec::new();
        let mut table_events = Vec::new();
        let mut rd = RefDecoder::new(4096);
        let mut nframes = 0usize;
        let mut sid = 1u32;
        let n = case.events.len();
        let mut ref_prefix_ok = true;
        let mut last_block: Option<&Block> = None;
        for (i, ev) in case.events.iter().enumerate() {
            match ev {
                DecEv::Ceiling(c) => {
                    table_events.push((nframes, *c));
                    rd.set_ceiling(*c);
                }
                DecEv::Block(b) => {
                    if i + 1 == n {
                        last_block = Some(b);
                    } else {
                        prefix.extend(header_frames(sid, &b.bytes, &[], false, false, false, false));
                        sid += 2;
                        nframes += 1;
                        if rd.decode_block(&b.bytes).is_err() {
                            ref_prefix_ok = false;
                        }
                    }
                }
            }
        }
        let last = match last_block {
            Some(b) => b,
            None => return out,
        };
        out.label(format!("last:{}", last.kind.split(':').next().unwrap()));
        let whole = {
            let mut b = prefix.clone();
            b.extend(header_frames(sid, &last.bytes, &[], case.padded, case.priority, case.push_promise, true));
            codec_read_all(b, vec![], &table_events, None)
        };
        let ref_last = if ref_prefix_ok { Some(rd.decode_block(&last.bytes)) } else { None };
        // accepted ⇒ reference accepts, same fields (real path)
        if let (Some(w), Some(r)) = (whole.get(nframes), &ref_last) {
            if w.starts_with("HEADERS") || w.starts_with("PUSH_PROMISE") {
                match r {
                    Err(e) => {
                        out.fail(
                            "C11",
                            "hpack-split/accepts-error",
                            format!("C11/h2-accepts-rfc-error/{}", err_name(*e)),
                            format!("codec accepted block {} ({}) that the RFC rejects with {:?}: {}", show(&last.bytes), last.kind, e, w),
                        );
                        return out;
                    }
                    Ok((rf, _)) => {
                        // count of fields must agree (names/values are compared by DecEngine; here pseudo/regular are regrouped)
                        let regular = rf.iter().filter(|f| !f.name.starts_with(b":")).count();
                        let got = w.split("fields=").nth(1).map(|s| s.matches(';').count()).unwrap_or(0);
                        if w.contains("over=false") && regular != got && !rf.iter().any(|f| f.value.contains(&b';')) {
                            out.fail(
                                "C11",
                                "hpack-split/field-count",
                                "C11/field-list-differs",
                                format!("reference has {} regular fields, codec delivered {}: {} vs {:?}", regular, got, w, brief(rf)),
                            );
                            return out;
                        }
                    }
                }
            }
        }
        let variants: Vec<Vec<usize>> = if case.splits.is_empty() { (1..last.bytes.len()).map(|c| vec![c]).collect() } else { vec![case.splits.clone()] };
        for sp in variants {
            if sp.iter().any(|&c| c > 0 && c < last.bytes.len()) {
                out.nontrivial = true;
            }
            let mut b = prefix.clone();
            b.extend(header_frames(sid, &last.bytes, &sp, case.padded, case.priority, case.push_promise, true));
            let got = codec_read_all(b, case.read_plan.clone(), &table_events, None);
            if classify_all(&got) != classify_all(&whole) {
                let accepted_split = got.get(nframes).map(|s| s.starts_with("HEADERS") || s.starts_with("PUSH")).unwrap_or(false);
                let whole_stream_err = whole.get(nframes).map(|s| s.starts_with("ERR Reset")).unwrap_or(false);
                let sig = match (&ref_last, accepted_split) {
                    (Some(Err(e)), true) => format!("C11/split-dependent/accepted-when-split/{}", err_name(*e)),
                    (_, true) if whole_stream_err => "C11/split-dependent/http-malformed-accepted-when-split".to_string(),
                    (_, true) => "C11/split-dependent/accepted-when-split".to_string(),
                    (_, false) if case.push_promise && sp.iter().any(|&c| c == 0) => "C11/split-dependent/rejected-when-split/push-promise-empty-first-fragment".to_string(),
                    (_, false) => "C11/split-dependent/rejected-when-split".to_string(),
                };
                out.fail(
                    "C11",
                    "hpack-split/whole-vs-pieces",
                    sig,
                    format!("block {} ({}) splits {:?}: whole → {:?} ; pieces → {:?}", show(&last.bytes), last.kind, sp, whole.last(), got.last()),
                );
                return out;
            }
        }
        out.label(if whole.iter().any(|s| s.starts_with("ERR")) { "outcome:error" } else { "outcome:accepted" });
        out
    }
}

/// Outcomes are compared up to the first error. Accepted frames are compared
/// by full content; every rejection (connection or stream error) is one class:
/// HTTP-level malformedness is detected fragment by fragment and legitimately
/// surfaces as RST_STREAM followed by a connection error on the orphaned
/// CONTINUATION, where the whole block gives one error — both are "fails".
fn classify_all(v: &[String]) -> Vec<String> {
    v.iter().map(|s| if s.starts_with("ERR ") { "REJECT".to_string() } else { s.clone() }).collect()
}

// ------------------------------------------------------------ EncEngine (C10)

#[derive(Clone, Debug, Serialize, Deserialize)]
pub struct HdrSpec {
    pub stream: u32,
    /// 0 request, 1 response, 2 trailers, 3 push promise
    pub kind: u8,
    pub method: Option<String>,
    pub scheme: Option<String>,
    pub authority: Option<String>,
    pub path: Option<String>,
    pub protocol: Option<String>,
    pub status: Option<u16>,
    /// (name, value as hex, sensitive)
    pub fields: Vec<(String, String, bool)>,
    pub end_stream: bool,
}

#[derive(Clone, Debug, Serialize, Deserialize)]
pub enum EncEv {
    /// peer's SETTINGS_HEADER_TABLE_SIZE (applied at our ACK)
    TableSize(u32),
    /// peer's SETTINGS_MAX_FRAME_SIZE
    MaxFrame(u32),
    Headers(HdrSpec),
}

#[derive(Clone, Debug, Serialize, Deserialize)]
pub struct EncCase {
    pub vectored: bool,
    pub write_plan: Vec<u16>,
    pub events: Vec<EncEv>,
    /// direct-path check: limit (9+k) used when encoding each block through
    /// Headers::encode / Continuation::encode without the codec; 0 = skip
    pub direct_limit: usize,
}

pub struct EncEngine {
    pub big: bool,
}

fn gen_hdr(t: &mut Tape, stream: u32, big: bool) -> HdrSpec {
    let kind = t.weighted(&[5, 4, 1, 1]) as u8;
    let mut h = HdrSpec { stream, kind, method: None, scheme: None, authority: None, path: None, protocol: None, status: None, fields: vec![], end_stream: t.bool() };
    match kind {
        0 | 3 => {
            h.method = Some(t.pick(METHODS).to_string());
            if t.chance(5, 6) {
                h.scheme = Some(if t.bool() { "https" } else { "http" }.into());
            }
            if t.chance(5, 6) {
                h.authority = Some(if t.bool() { "example.com".into() } else { format!("h{}.example:8{}", t.below(50), t.below(10)) });
            }
            if t.chance(5, 6) {
                h.path = Some(if t.chance(2, 3) { t.pick(PATHS).to_string() } else { format!("/p/{}", String::from_utf8(printable(t, 1 + 30)).unwrap().replace(' ', "_")) });
            }
            if t.chance(1, 10) {
                // (values that differ only in case are different values: octets are compared, never tokens)
                h.protocol = Some(t.pick(&["websocket", "WebSocket", "WEBSOCKET", "webtransport", "connect-udp"]).to_string());
            }
        }
        1 => {
            h.status = Some(t.pick(STATUSES).parse().unwrap());
        }
        _ => {}
    }
    let nf = match t.weighted(&[6, 3, if big { 3 } else { 0 }]) {
        0 => t.below(6),
        1 => 6 + t.below(20),
        _ => 30 + t.below(120),
    };
    for _ in 0..nf {
        let name = String::from_utf8(gen_name(t)).unwrap();
        let value = crate::util::hex(&gen_value(t, big));
        h.fields.push((name, value, t.chance(1, 8)));
    }
    h
}

fn build_h2_headers(h: &HdrSpec) -> (hf::Frame<Bytes>, Vec<Field>) {
    use h2::verif::BytesStr;
    let mut pseudo = hf::Pseudo::default();
    let bs = |s: &String| BytesStr::try_from(Bytes::copy_from_slice(s.as_bytes())).unwrap();
    let mut expect = Vec::new();
    if let Some(m) = &h.method {
        pseudo.method = Some(http::Method::from_bytes(m.as_bytes()).unwrap());
        expect.push(Field::new(b":method", m.as_bytes()));
    }
    if let Some(s) = &h.scheme {
        pseudo.scheme = Some(bs(s));
        expect.push(Field::new(b":scheme", s.as_bytes()));
    }
    if let Some(s) = &h.authority {
        pseudo.authority = Some(bs(s));
        expect.push(Field::new(b":authority", s.as_bytes()));
    }
    if let Some(s) = &h.path {
        pseudo.path = Some(bs(s));
        expect.push(Field::new(b":path", s.as_bytes()));
    }
    if let Some(s) = &h.protocol {
        pseudo.protocol = Some(h2::ext::Protocol::from(s.as_str()));
        expect.push(Field::new(b":protocol", s.as_bytes()));
    }
    if let Some(s) = h.status {
        pseudo.status = Some(http::StatusCode::from_u16(s).unwrap());
        expect.push(Field::new(b":status", s.to_string().as_bytes()));
    }
    let mut map = http::HeaderMap::new();
    for (n, v, sens) in &h.fields {
        let name = http::header::HeaderName::from_bytes(n.as_bytes()).unwrap();
        let mut val = http::header::HeaderValue::from_bytes(&crate::util::unhex(v).unwrap()).unwrap();
        val.set_sensitive(*sens);
        map.append(name, val);
    }
    for (n, v) in map.iter() {
        expect.push(Field::new(n.as_str().as_bytes(), v.as_bytes()));
    }
    let sid = hf::StreamId::from(h.stream);
    let frame: hf::Frame<Bytes> = match h.kind {
        3 => hf::PushPromise::new(sid, hf::StreamId::from(h.stream + 1), pseudo, map).into(),
        2 => {
            // trailers carry no pseudo
            let mut f = hf::Headers::trailers(sid, map);
            let _ = &mut f;
            f.into()
        }
        _ => {
            let mut f = hf::Headers::new(sid, pseudo, map);
            if h.end_stream {
                f.set_end_stream();
            }
            f.into()
        }
    };
    (frame, expect)
}

struct WCodec {
    codec: Codec<ScriptIo, Bytes>,
    taken: usize,
}

impl WCodec {
    fn new(plan: Vec<u16>, vectored: bool) -> WCodec {
        WCodec { codec: Codec::new(ScriptIo::writer(plan, vectored)), taken: 0 }
    }
    fn send(&mut self, f: hf::Frame<Bytes>) -> Result<Vec<u8>, String> {
        let w = noop_waker();
        let mut cx = Context::from_waker(&w);
        let mut spins = 0;
        loop {
            match self.codec.poll_ready(&mut cx) {
                Poll::Ready(Ok(())) => break,
                Poll::Ready(Err(e)) => return Err(format!("poll_ready io error {:?}", e)),
                Poll::Pending => {
                    spins += 1;
                    if spins > 1_000_000 {
                        return Err("poll_ready never ready".into());
                    }
                }
            }
        }
        self.codec.buffer(f).map_err(|e| format!("buffer: {:?}", e))?;
        spins = 0;
        loop {
            match self.codec.flush(&mut cx) {
                Poll::Ready(Ok(())) => break,
                Poll::Ready(Err(e)) => return Err(format!("flush io error {:?}", e)),
                Poll::Pending => {
                    spins += 1;
                    if spins > 10_000_000 {
                        return Err("flush never completes".into());
                    }
                }
            }
        }
        let all = &self.codec.get_mut().written;
        let v = all[self.taken..].to_vec();
        self.taken = all.len();
        Ok(v)
    }
}

/// Parse the wire bytes of one header block emission: returns (fragments
/// concatenated, number of frames) or an error description.
fn reassemble(bytes: &[u8], stream: u32, push: bool, max_frame: usize) -> Result<(Vec<u8>, usize), String> {
    let (frames, sp) = wire::parse_all(bytes, false);
    if sp.pending_bytes() != 0 {
        return Err(format!("{} trailing bytes do not form a frame", sp.pending_bytes()));
    }
    let mut block = Vec::new();
    let n = frames.len();
    if n == 0 {
        return Err("no frame emitted".into());
    }
    for (i, (_, _, raw)) in frames.iter().enumerate() {
        if raw.payload.len() > max_frame {
            return Err(format!("frame #{} payload {} exceeds max frame size {}", i, raw.payload.len(), max_frame));
        }
        let f = WFrame::decode(raw).map_err(|e| format!("frame #{} malformed: {:?}", i, e))?;
        match (i, f) {
            (0, WFrame::Headers { stream: s, end_headers, frag, .. }) if !push => {
                if s != stream {
                    return Err("wrong stream".into());
                }
                if end_headers != (n == 1) {
                    return Err("END_HEADERS misplaced on HEADERS".into());
                }
                block.extend(frag);
            }
            (0, WFrame::Push { stream: s, end_headers, frag, promised, .. }) if push => {
                if s != stream || promised != stream + 1 {
                    return Err("wrong stream/promised id".into());
                }
                if end_headers != (n == 1) {
                    return Err("END_HEADERS misplaced on PUSH_PROMISE".into());
                }
                block.extend(frag);
            }
            (i, WFrame::Cont { stream: s, end_headers, frag }) if i > 0 => {
                if s != stream {
                    return Err("CONTINUATION on wrong stream".into());
                }
                if end_headers != (i + 1 == n) {
                    return Err("END_HEADERS misplaced on CONTINUATION".into());
                }
                block.extend(frag);
            }
            (i, f) => return Err(format!("unexpected frame #{}: {}", i, f.kind())),
        }
    }
    Ok((block, n))
}

impl Engine for EncEngine {
    type Case = EncCase;
    fn name(&self) -> &'static str {
        if self.big {
            "hpack-enc-big"
        } else {
            "hpack-enc"
        }
    }
    fn tape_lens(&self) -> Vec<usize> {
        vec![if self.big { 6000 } else { 900 }, 40]
    }
    fn gen(&self, tapes: &[Vec<u32>]) -> EncCase {
        let mut t = Tape::new(&tapes[0]);
        let mut events = Vec::new();
        let n = 1 + t.below(if self.big { 6 } else { 14 });
        let mut sid = 1;
        for _ in 0..n {
            if t.chance(1, 4) {
                events.push(EncEv::TableSize(*t.pick(TABLE_SIZES) as u32));
            }
            if t.chance(1, 8) {
                events.push(EncEv::MaxFrame(*t.pick(&[16384u32, 16385, 20000, 65536, (1 << 24) - 1])));
            }
            events.push(EncEv::Headers(gen_hdr(&mut t, sid, self.big)));
            sid += 2;
        }
        let mut t2 = Tape::new(&tapes[1]);
        let np = t2.below(30);
        EncCase {
            vectored: t2.bool(),
            write_plan: (0..np).map(|_| t2.u32() as u16).collect(),
            events,
            direct_limit: if t2.chance(2, 3) { 10 + *t2.pick(&[0usize, 1, 2, 3, 7, 20, 100, 1000]) + t2.below(30) } else { 0 },
        }
    }
    fn rule(&self) -> String {
        "histories of header lists and SETTINGS_HEADER_TABLE_SIZE / MAX_FRAME_SIZE changes sent through h2's Codec (HEADERS/PUSH_PROMISE + CONTINUATION, scripted partial writes) and decoded by the strict RFC 7541 reference and by h2's decoder; non-trivial = eviction, size change, block larger than table, or CONTINUATION split; distinct = distinct case hash".into()
    }
    fn run(&self, case: &EncCase) -> Outcome {
        let mut out = Outcome::default();
        let mut a = WCodec::new(case.write_plan.clone(), case.vectored);
        let mut b = WCodec::new(vec![], false);
        b.codec.set_max_send_frame_size((1 << 24) - 1);
        let mut rd = RefDecoder::new(4096);
        rd.strict_signal = true;
        let mut hd = Decoder::new(4096);
        // direct path state
        let mut denc = h2::verif::Encoder::default();
        let mut drd = RefDecoder::new(4096);
        drd.strict_signal = true;
        let mut max_frame = 16384usize;
        for (i, ev) in case.events.iter().enumerate() {
            match ev {
                EncEv::TableSize(v) => {
                    a.codec.set_send_header_table_size(*v as usize);
                    b.codec.set_send_header_table_size(*v as usize);
                    denc.update_max_size(*v as usize);
                    rd.set_ceiling(*v as usize);
                    drd.set_ceiling(*v as usize);
                    hd.queue_size_update(*v as usize);
                    out.label("table-size-change");
                    out.nontrivial = true;
                }
                EncEv::MaxFrame(v) => {
                    a.codec.set_max_send_frame_size(*v as usize);
                    max_frame = *v as usize;
                }
                EncEv::Headers(h) => {
                    let (fa, expect) = build_h2_headers(h);
                    let (fb, _) = build_h2_headers(h);
                    let wa = match a.send(fa) {
                        Ok(v) => v,
                        Err(e) => {
                            out.fail("C10", "hpack-enc/io", "C10/codec-write-failed", format!("event #{}: {}", i, e));
                            return out;
                        }
                    };
                    let wb = b.send(fb).expect("unsplit codec");
                    let push = h.kind == 3;
                    let (blk_a, nfa) = match reassemble(&wa, h.stream, push, max_frame) {
                        Ok(x) => x,
                        Err(e) => {
                            out.fail("C10", "hpack-enc/framing", "C10/bad-header-block-framing", format!("event #{}: {}", i, e));
                            return out;
                        }
                    };
                    let (blk_b, _) = reassemble(&wb, h.stream, push, (1 << 24) - 1).expect("unsplit reassembly");
                    if nfa > 1 {
                        out.label("continuation");
                        out.nontrivial = true;
                    }
                    if blk_a != blk_b {
                        out.fail(
                            "C10",
                            "hpack-enc/split-metamorphic",
                            "C10/split-changes-block",
                            format!("event #{}: concatenated fragments ({} B in {} frames) differ from the unsplit encoding ({} B)", i, blk_a.len(), nfa, blk_b.len()),
                        );
                        return out;
                    }
                    // strict reference decode
                    let size_before = rd.size;
                    match rd.decode_block(&blk_a) {
                        Err(e) => {
                            out.fail(
                                "C10",
                                "hpack-enc/ref-decode",
                                format!("C10/reference-rejects/{}", err_name(e)),
                                format!("event #{}: strict RFC 7541 decoder rejects h2's block with {:?} (ceiling {}): {}", i, e, rd.ceiling, show(&blk_a)),
                            );
                            return out;
                        }
                        Ok((fields, info)) => {
                            if info.evicted > 0 {
                                out.label("eviction");
                                out.nontrivial = true;
                            }
                            if !info.size_updates.is_empty() {
                                out.label("size-update-emitted");
                            }
                            if info.dyn_refs > 0 {
                                out.label("dyn-ref");
                            }
                            if expect.iter().map(|f| f.size()).sum::<usize>() > rd.max_size {
                                out.label("block-larger-than-table");
                                out.nontrivial = true;
                            }
                            let _ = size_before;
                            if fields != expect {
                                let k = fields.iter().zip(expect.iter()).position(|(x, y)| x != y).unwrap_or(fields.len().min(expect.len()));
                                out.fail(
                                    "C10",
                                    "hpack-enc/ref-fields",
                                    "C10/decoded-fields-differ",
                                    format!(
                                        "event #{}: reference decodes {} fields, submitted {}; first difference at #{}: got {:?} want {:?}",
                                        i,
                                        fields.len(),
                                        expect.len(),
                                        k,
                                        fields.get(k).map(|f| brief(std::slice::from_ref(f))),
                                        expect.get(k).map(|f| brief(std::slice::from_ref(f)))
                                    ),
                                );
                                return out;
                            }
                        }
                    }
                    // h2's own decoder
                    match h2_fields(&mut hd, &blk_a) {
                        Err(e) => {
                            out.fail("C10", "hpack-enc/h2-decode", "C10/h2-decoder-rejects", format!("event #{}: h2's decoder rejects h2's block: {}", i, e));
                            return out;
                        }
                        Ok(fields) => {
                            if fields != expect {
                                out.fail("C10", "hpack-enc/h2-fields", "C10/decoded-fields-differ", format!("event #{}: h2's decoder returns different fields", i));
                                return out;
                            }
                        }
                    }
                    // direct path with a small limit: split at arbitrary offsets
                    if case.direct_limit > 0 && h.kind != 3 {
                        use bytes::BufMut;
                        let (f, _) = build_h2_headers(h);
                        if let hf::Frame::Headers(hh) = f {
                            let mut buf = BytesMut::new();
                            let mut cont = {
                                let mut lim = (&mut buf).limit(case.direct_limit);
                                hh.encode(&mut denc, &mut lim)
                            };
                            let mut guard = 0;
                            while let Some(c) = cont {
                                let mut lim = (&mut buf).limit(case.direct_limit);
                                cont = c.encode(&mut lim);
                                guard += 1;
                                if guard > 1_000_000 {
                                    out.fail("C10", "hpack-enc/direct", "C10/continuation-never-ends", "direct encode loops".to_string());
                                    return out;
                                }
                            }
                            match reassemble(&buf, h.stream, false, case.direct_limit - 9) {
                                Err(e) => {
                                    out.fail("C10", "hpack-enc/direct-framing", "C10/bad-header-block-framing", format!("event #{} (direct, limit {}): {}", i, case.direct_limit, e));
                                    return out;
                                }
                                Ok((blk, nf)) => {
                                    if nf > 1 {
                                        out.label("direct-small-limit-split");
                                        out.nontrivial = true;
                                    }
                                    match drd.decode_block(&blk) {
                                        Ok((fields, _)) if fields == expect => {}
                                        Ok(_) => {
                                            out.fail("C10", "hpack-enc/direct-fields", "C10/decoded-fields-differ", format!("event #{} (direct, limit {}): fields differ", i, case.direct_limit));
                                            return out;
                                        }
                                        Err(e) => {
                                            out.fail(
                                                "C10",
                                                "hpack-enc/direct-ref-decode",
                                                format!("C10/reference-rejects/{}", err_name(e)),
                                                format!("event #{} (direct, limit {}): {:?}", i, case.direct_limit, e),
                                            );
                                            return out;
                                        }
                                    }
                                }
                            }
                        }
                    }
                }
            }
        }
        out
    }
}

// ------------------------------------------------------------ exhaustive sub-spaces (C11)

pub struct ExhaustiveReport {
    pub evaluations: u64,
    pub nontrivial: u64,
    pub failure: Option<(String, String)>,
    pub samples: Vec<serde_json::Value>,
}

fn h2_huff(src: &[u8]) -> Result<Vec<u8>, String> {
    let mut buf = BytesMut::new();
    huffman::decode(src, &mut buf).map(|b| b.to_vec()).map_err(|e| format!("{:?}", e))
}

/// All byte strings of length ≤ `max_len` as Huffman input; all strings of ≤ 3
/// symbols (from a 257-symbol alphabet incl. EOS — truncated to symbols only
/// where encodable) round trip through h2's encoder and both decoders.
pub fn exhaustive_huffman(max_len: usize, full_symbols: bool) -> ExhaustiveReport {
    let mut rep = ExhaustiveReport { evaluations: 0, nontrivial: 0, failure: None, samples: vec![] };
    let mut check = |src: &[u8], rep: &mut ExhaustiveReport| {
        rep.evaluations += 1;
        let r = rh::huff_decode(src);
        let h = h2_huff(src);
        match (&r, &h) {
            (Ok(a), Ok(b)) if a == b => {
                if !src.is_empty() {
                    rep.nontrivial += 1;
                }
            }
            (Err(_), Err(_)) => {
                rep.nontrivial += 1;
            }
            _ => {
                if rep.failure.is_none() {
                    let sig = match (&r, &h) {
                        (Err(e), Ok(_)) => format!("C11/huffman/h2-accepts-rfc-error/{}", err_name(*e)),
                        (Ok(_), Err(_)) => "C11/huffman/h2-rejects-valid".to_string(),
                        _ => "C11/huffman/decoded-bytes-differ".to_string(),
                    };
                    rep.failure = Some((sig, format!("huffman input {}: reference {:?} vs h2 {:?}", crate::util::hex(src), r, h)));
                }
            }
        }
        if rep.samples.len() < 3 && rep.evaluations % 20011 == 1 {
            rep.samples.push(serde_json::json!({"huffman_input_hex": crate::util::hex(src), "reference": format!("{:?}", r.as_ref().map(|v| show(v))), "h2": format!("{:?}", h.as_ref().map(|v| show(v)))}));
        }
    };
    check(&[], &mut rep);
    for a in 0..=255u8 {
        check(&[a], &mut rep);
    }
    if max_len >= 2 {
        for a in 0..=255u8 {
            for b in 0..=255u8 {
                check(&[a, b], &mut rep);
            }
        }
    }
    if max_len >= 3 {
        for a in 0..=255u8 {
            for b in 0..=255u8 {
                for c in 0..=255u8 {
                    check(&[a, b, c], &mut rep);
                }
            }
        }
    }
    // symbol strings: encode with h2 and with the reference, decode both ways
    let syms: Vec<u8> = (0..=255u8).collect();
    let mut sym_check = |s: &[u8], rep: &mut ExhaustiveReport| {
        rep.evaluations += 1;
        let mut dst = BytesMut::new();
        huffman::encode(s, &mut dst);
        let re = rh::huff_encode(s);
        if dst[..] != re[..] || rh::huff_decode(&dst).ok().as_deref() != Some(s) || h2_huff(&re).ok().as_deref() != Some(s) {
            if rep.failure.is_none() {
                rep.failure = Some(("C11/huffman/symbol-roundtrip".into(), format!("symbols {:?}: h2 encodes {} reference {}", s, crate::util::hex(&dst), crate::util::hex(&re))));
            }
        } else {
            rep.nontrivial += 1;
        }
        // every wrong padding of this string: flip each padding bit to 0
        let bits: usize = s.iter().map(|&b| crate::refmodel::huff_table::HUFF[b as usize].1 as usize).sum();
        let pad = (8 - bits % 8) % 8;
        if pad > 0 && !re.is_empty() {
            for k in 0..pad {
                let mut bad = re.clone();
                let n = bad.len();
                bad[n - 1] &= !(1u8 << k);
                rep.evaluations += 1;
                let r = rh::huff_decode(&bad);
                let h = h2_huff(&bad);
                if r.is_ok() != h.is_ok() || (r.is_ok() && r.as_ref().ok() != h.as_ref().ok().map(|v| v)) {
                    if rep.failure.is_none() {
                        rep.failure = Some(("C11/huffman/padding".into(), format!("input {}: reference {:?} vs h2 {:?}", crate::util::hex(&bad), r, h)));
                    }
                } else {
                    rep.nontrivial += 1;
                }
            }
        }
    };
    for &a in &syms {
        sym_check(&[a], &mut rep);
        for &b in &syms {
            sym_check(&[a, b], &mut rep);
        }
    }
    if full_symbols {
        for &a in &syms {
            for &b in &syms {
                for &c in &syms {
                    sym_check(&[a, b, c], &mut rep);
                }
            }
        }
    }
    rep
}

/// All prefix integers for N ∈ {4,5,6,7} with up to `max_cont` continuation
/// octets, as the index / size field of a representation, decoded by both.
pub fn exhaustive_integers(max_cont: usize) -> ExhaustiveReport {
    let mut rep = ExhaustiveReport { evaluations: 0, nontrivial: 0, failure: None, samples: vec![] };
    // interesting continuation octet values (exhaustive over all 256 would be 256^4); each octet from this set
    let octs: Vec<u8> = vec![0x00, 0x01, 0x02, 0x0a, 0x3e, 0x7e, 0x7f, 0x80, 0x81, 0x8a, 0xbe, 0xfe, 0xff];
    let mut blocks: Vec<Vec<u8>> = Vec::new();
    fn rec(cur: &mut Vec<u8>, depth: usize, max: usize, octs: &[u8], out: &mut Vec<Vec<u8>>) {
        out.push(cur.clone());
        if depth == max {
            return;
        }
        for &o in octs {
            cur.push(o);
            rec(cur, depth + 1, max, octs, out);
            cur.pop();
        }
    }
    let mut cur = Vec::new();
    rec(&mut cur, 0, max_cont, &octs, &mut blocks);
    // representation first bytes: indexed (7), incremental name-index (6), without (4), size update (5)
    for (first, kind) in [(0xffu8, "indexed"), (0x7f, "incremental"), (0x0f, "without"), (0x1f, "never"), (0x3f, "size-update")] {
        for tail in &blocks {
            // table prepared with two dynamic entries
            let mut block = vec![first];
            block.extend_from_slice(tail);
            if kind != "indexed" && kind != "size-update" {
                block.extend_from_slice(&[0x01, b'v']);
            }
            let mut rd = RefDecoder::new(4096);
            let mut hd = Decoder::new(4096);
            let prep = [0x40, 0x01, b'a', 0x01, b'b', 0x40, 0x01, b'c', 0x01, b'd'];
            rd.decode_block(&prep).unwrap();
            h2_fields(&mut hd, &prep).unwrap();
            rep.evaluations += 1;
            let r = rd.decode_block(&block);
            let h = h2_fields(&mut hd, &block);
            match (&r, &h) {
                (Ok((a, _)), Ok(b)) => {
                    if a != b {
                        if rep.failure.is_none() {
                            rep.failure = Some(("C11/integer/fields-differ".into(), format!("block {}: {:?} vs {:?}", crate::util::hex(&block), brief(a), brief(b))));
                        }
                    } else {
                        rep.nontrivial += 1;
                    }
                }
                (Err(e), Ok(b)) => {
                    if rep.failure.is_none() {
                        rep.failure = Some((format!("C11/h2-accepts-rfc-error/{}", err_name(*e)), format!("{} block {}: reference {:?}, h2 accepted {:?}", kind, crate::util::hex(&block), e, brief(b))));
                    }
                }
                _ => {
                    rep.nontrivial += 1;
                }
            }
            if rep.samples.len() < 3 && rep.evaluations % 5003 == 1 {
                rep.samples.push(serde_json::json!({"block_hex": crate::util::hex(&block), "kind": kind, "reference": format!("{:?}", r.as_ref().map(|x| brief(&x.0))), "h2": format!("{:?}", h.as_ref().map(|x| brief(x)))}));
            }
        }
    }
    rep
}

/// Debug helper for `h2v replay`: print the codec outcomes of a split case.
pub fn debug_split(case: &SplitCase) {
    let mut prefix = Vec::new();
    let mut sid = 1;
    let n = case.events.len();
    for (i, ev) in case.events.iter().enumerate() {
        if let DecEv::Block(b) = ev {
            if i + 1 == n {
                let mut w = prefix.clone();
                w.extend(header_frames(sid, &b.bytes, &[], case.padded, case.priority, case.push_promise, true));
                println!("whole : {:?}", codec_read_all(w, vec![], &[], None));
                let sp = if case.splits.is_empty() { vec![1] } else { case.splits.clone() };
                let mut p = prefix.clone();
                p.extend(header_frames(sid, &b.bytes, &sp, case.padded, case.priority, case.push_promise, true));
                println!("pieces: {:?}", codec_read_all(p, case.read_plan.clone(), &[], None));
            } else {
                prefix.extend(header_frames(sid, &b.bytes, &[], false, false, false, false));
                sid += 2;
            }
        }
    }
}
