//! Choice tape: every random decision of a generator is drawn from a
//! `Vec<u32>` that proptest (or libFuzzer bytes) supplies, so shrinking and
//! replay work on the tape. After the tape is exhausted every draw is 0, which
//! generators map to their simplest choice.

#[derive(Debug)]
pub struct Tape<'a> {
    data: &'a [u32],
    pos: usize,
}

impl<'a> Tape<'a> {
    pub fn new(data: &'a [u32]) -> Tape<'a> {
        Tape { data, pos: 0 }
    }
    pub fn exhausted(&self) -> bool {
        self.pos >= self.data.len()
    }
    pub fn used(&self) -> usize {
        self.pos
    }
    pub fn u32(&mut self) -> u32 {
        let v = self.data.get(self.pos).copied().unwrap_or(0);
        self.pos += 1;
        v
    }
    /// uniform in 0..n, monotone in the drawn word (shrinks toward 0)
    pub fn below(&mut self, n: usize) -> usize {
        if n <= 1 {
            // still consume, so that the tape layout does not depend on n
            self.u32();
            return 0;
        }
        ((self.u32() as u64 * n as u64) >> 32) as usize
    }
    /// inclusive range
    pub fn range(&mut self, lo: u64, hi: u64) -> u64 {
        debug_assert!(lo <= hi);
        let span = hi - lo + 1;
        if span == 0 {
            return self.u64();
        }
        if span <= u32::MAX as u64 {
            lo + ((self.u32() as u64 * span) >> 32)
        } else {
            lo + (((self.u64() as u128) * (span as u128)) >> 64) as u64
        }
    }
    pub fn u64(&mut self) -> u64 {
        ((self.u32() as u64) << 32) | self.u32() as u64
    }
    pub fn bool(&mut self) -> bool {
        self.u32() >= 0x8000_0000
    }
    /// true with probability num/den
    pub fn chance(&mut self, num: u32, den: u32) -> bool {
        // high words mean "yes", so that shrinking removes optional things
        let x = self.below(den as usize) as u32;
        x >= den - num
    }
    /// index chosen by weights; index 0 is the shrink target
    pub fn weighted(&mut self, w: &[u32]) -> usize {
        let total: u32 = w.iter().sum();
        let mut x = self.below(total as usize) as u32;
        for (i, &wi) in w.iter().enumerate() {
            if x < wi {
                return i;
            }
            x -= wi;
        }
        w.len() - 1
    }
    pub fn pick<'b, T>(&mut self, xs: &'b [T]) -> &'b T {
        &xs[self.below(xs.len())]
    }
    pub fn bytes(&mut self, n: usize) -> Vec<u8> {
        let mut v = Vec::with_capacity(n);
        while v.len() < n {
            let w = self.u32().to_le_bytes();
            for b in w {
                if v.len() < n {
                    v.push(b);
                }
            }
        }
        v
    }
}

/// Make a tape from fuzzer bytes.
pub fn tape_from_bytes(b: &[u8]) -> Vec<u32> {
    b.chunks(4)
        .map(|c| {
            let mut w = [0u8; 4];
            w[..c.len()].copy_from_slice(c);
            u32::from_le_bytes(w)
        })
        .collect()
}

/// FNV-1a, used for case hashes (no std RandomState: must be deterministic).
pub fn fnv(bytes: &[u8]) -> u64 {
    let mut h: u64 = 0xcbf29ce484222325;
    for &b in bytes {
        h ^= b as u64;
        h = h.wrapping_mul(0x100000001b3);
    }
    h
}
