//! Oracles over one simulator run: pure functions of (case, API event log,
//! tapped wire). Each pushes violations tagged with its property.

use crate::refmodel::wire::{self, Frame};
use crate::runner::Outcome;
use crate::sim::*;
use crate::tapx::{side_idx, SettingsVals, Tap, TFrame};
use std::collections::{BTreeMap, HashMap, HashSet};

pub fn strip_digits(s: &str) -> String {
    let t: String = s.chars().filter(|c| !c.is_ascii_digit()).collect();
    t.trim_end_matches('-').to_string()
}

/// Normalise a panic message into a signature: location + first words.
pub fn panic_signature(msg: &str) -> String {
    let (text, loc) = match msg.rsplit_once(" @ ") {
        Some((a, b)) => (a, b),
        None => (msg, ""),
    };
    let loc = loc.rsplit_once("/src/").map(|x| x.1).unwrap_or(loc);
    // (file only: line numbers move with every unrelated edit of that file)
    let loc = loc.split(':').next().unwrap_or(loc);
    let flat: String = text.split_whitespace().collect::<Vec<_>>().join(" ");
    let words: String = flat.chars().filter(|c| !c.is_ascii_digit()).take(60).collect();
    format!("{}|{}", loc, words.trim())
}

// ------------------------------------------------------------ panics (C08, C19, C20)

pub fn check_panic(panic: &Option<(String, String)>, poisoned: bool, out: &mut Outcome) {
    if let Some((task, msg)) = panic {
        let sig = panic_signature(msg);
        out.fail("C08", "panic", format!("C08/panic/{}", sig), format!("task {} panicked: {}", task, msg));
        if msg.contains("dangling store key") {
            out.fail("C19", "panic-dangling-key", format!("C19/panic/{}", sig), format!("task {} panicked: {}", task, msg));
        }
    }
    if poisoned {
        out.fail("C20", "lock-poisoned", "C20/lock-poisoned", "an internal lock is poisoned at the end of the run".to_string());
    }
}

// ------------------------------------------------------------ message views

#[derive(Default, Debug)]
pub struct SentMsg {
    pub heads: Vec<(&'static str, Vec<(String, String)>, bool)>,
    pub bytes: usize,
    pub eos_sent: bool,
    pub trailers: Option<Vec<(String, String)>>,
    pub reset: Option<u32>,
    pub dropped: bool,
    pub send_err: Option<String>,
    pub stream: u32,
}

#[derive(Default, Debug)]
pub struct RecvMsg {
    pub heads: Vec<(&'static str, Vec<(String, String)>, bool)>,
    pub bytes: usize,
    pub content_ok: bool,
    pub data_end: bool,
    /// Some(trailers) once poll_trailers returned Ok
    pub clean_end: Option<Option<Vec<(String, String)>>>,
    pub err: Option<(&'static str, ErrInfo)>,
    pub dropped: bool,
    pub stream: u32,
    pub events_after_end: usize,
}

pub fn views(events: &[ApiEvent]) -> (BTreeMap<(u32, Side), SentMsg>, BTreeMap<(u32, Side), RecvMsg>) {
    // key: (message key, SENDER side)
    let mut sent: BTreeMap<(u32, Side), SentMsg> = BTreeMap::new();
    let mut recv: BTreeMap<(u32, Side), RecvMsg> = BTreeMap::new();
    for e in events {
        if e.key == 0 {
            continue;
        }
        match &e.api {
            Api::SentHead { kind, fields, eos, stream } => {
                let m = sent.entry((e.key, e.side)).or_default();
                m.heads.push((kind, fields.clone(), *eos));
                m.stream = *stream;
                if *eos {
                    m.eos_sent = true;
                }
            }
            Api::SentData { len, eos } => {
                let m = sent.entry((e.key, e.side)).or_default();
                m.bytes += len;
                if *eos {
                    m.eos_sent = true;
                }
            }
            Api::SentTrailers { fields } => {
                let m = sent.entry((e.key, e.side)).or_default();
                m.trailers = Some(fields.clone());
                m.eos_sent = true;
            }
            Api::SentReset { code } => sent.entry((e.key, e.side)).or_default().reset = Some(*code),
            Api::DroppedSend => sent.entry((e.key, e.side)).or_default().dropped = true,
            Api::SendErr { op, err } => sent.entry((e.key, e.side)).or_default().send_err = Some(format!("{}: {}", op, err.text)),
            Api::RecvHead { kind, fields, eos, stream } => {
                let m = recv.entry((e.key, e.side.other())).or_insert_with(|| RecvMsg { content_ok: true, ..Default::default() });
                m.heads.push((kind, fields.clone(), *eos));
                m.stream = *stream;
            }
            Api::RecvData { len, ok } => {
                let m = recv.entry((e.key, e.side.other())).or_insert_with(|| RecvMsg { content_ok: true, ..Default::default() });
                if m.data_end {
                    m.events_after_end += 1;
                }
                m.bytes += len;
                if !ok {
                    m.content_ok = false;
                }
            }
            Api::RecvDataEnd => {
                let m = recv.entry((e.key, e.side.other())).or_insert_with(|| RecvMsg { content_ok: true, ..Default::default() });
                m.data_end = true;
            }
            Api::RecvTrailers { fields } => {
                let m = recv.entry((e.key, e.side.other())).or_insert_with(|| RecvMsg { content_ok: true, ..Default::default() });
                m.clean_end = Some(fields.clone());
            }
            Api::RecvErr { op, err } => {
                let m = recv.entry((e.key, e.side.other())).or_insert_with(|| RecvMsg { content_ok: true, ..Default::default() });
                if m.err.is_none() {
                    m.err = Some((op, err.clone()));
                }
            }
            Api::DroppedRecv => {
                recv.entry((e.key, e.side.other())).or_insert_with(|| RecvMsg { content_ok: true, ..Default::default() }).dropped = true;
            }
            _ => {}
        }
    }
    (sent, recv)
}

// ------------------------------------------------------------ C01 fidelity

pub fn check_c01(events: &[ApiEvent], out: &mut Outcome) {
    let (sent, recv) = views(events);
    for ((key, from), r) in &recv {
        let dir = if *from == Side::Client { "client→server" } else { "server→client" };
        let s = match sent.get(&(*key, *from)) {
            Some(s) => s,
            None if r.heads.is_empty() && r.bytes == 0 && r.clean_end.is_none() => continue, // only an error surfaced
            None => {
                out.fail("C01", "fidelity/unsent", "C01/delivered-but-never-sent", format!("message key {} {}: receiver got {:?} but the sender submitted nothing", key, dir, r.heads.first().map(|h| h.0)));
                continue;
            }
        };
        // (a) heads: received sequence is a prefix of the submitted sequence
        for (i, (kind, fields, eos)) in r.heads.iter().enumerate() {
            match s.heads.get(i) {
                None => {
                    out.fail("C01", "fidelity/head-extra", format!("C01/extra-head/{}", kind), format!("key {} {}: received head #{} ({}) that was never submitted", key, dir, i, kind));
                }
                Some((sk, sf, _)) => {
                    if sk != kind {
                        out.fail("C01", "fidelity/head-order", format!("C01/head-kind-differs/{}-vs-{}", sk, kind), format!("key {} {}: head #{} submitted as {} received as {}", key, dir, i, sk, kind));
                    } else if sf != fields {
                        let d = sf.iter().zip(fields.iter()).position(|(a, b)| a != b).unwrap_or(sf.len().min(fields.len()));
                        out.fail(
                            "C01",
                            "fidelity/head-fields",
                            format!("C01/head-fields-differ/{}", kind),
                            format!("key {} {}: {} head differs at field #{}: sent {:?} received {:?} ({} vs {} fields)", key, dir, kind, d, sf.get(d).map(short), fields.get(d).map(short), sf.len(), fields.len()),
                        );
                    }
                }
            }
            if *eos && (s.bytes > 0 || s.trailers.is_some() || !s.eos_sent) {
                out.fail("C01", "fidelity/early-eos", "C01/end-of-stream-at-head-but-more-was-sent", format!("key {} {}: is_end_stream() true at the head although {} body bytes / trailers {:?} / eos_sent={} were submitted", key, dir, s.bytes, s.trailers.is_some(), s.eos_sent));
            }
        }
        // (b) bytes
        if !r.content_ok {
            out.fail("C01", "fidelity/content", "C01/body-bytes-modified", format!("key {} {}: delivered body bytes differ from what was submitted at the same offsets", key, dir));
        }
        if r.bytes > s.bytes {
            out.fail("C01", "fidelity/more-bytes", "C01/more-bytes-delivered-than-sent", format!("key {} {}: {} bytes delivered, {} submitted", key, dir, r.bytes, s.bytes));
        }
        if r.events_after_end > 0 {
            out.fail("C01", "fidelity/data-after-end", "C01/data-after-end-of-stream", format!("key {} {}: data delivered after poll_data returned None", key, dir));
        }
        // (c) clean end only for complete messages
        if let Some(tr) = &r.clean_end {
            if !s.eos_sent {
                out.fail(
                    "C01",
                    "fidelity/clean-end-on-cut",
                    if s.reset.is_some() { "C01/clean-end-after-reset" } else if s.dropped { "C01/clean-end-after-drop" } else { "C01/clean-end-without-end-of-stream" },
                    format!("key {} {}: receiver saw a clean end (poll_data None, poll_trailers Ok) but the sender never ended the stream (reset={:?} dropped={} err={:?})", key, dir, s.reset, s.dropped, s.send_err),
                );
            } else {
                if r.bytes != s.bytes {
                    out.fail("C01", "fidelity/short-clean-end", "C01/clean-end-with-missing-bytes", format!("key {} {}: clean end after {} bytes, {} were submitted", key, dir, r.bytes, s.bytes));
                }
                if *tr != s.trailers {
                    out.fail("C01", "fidelity/trailers", "C01/trailers-differ", format!("key {} {}: trailers sent {:?} received {:?}", key, dir, s.trailers.as_ref().map(|t| t.len()), tr.as_ref().map(|t| t.len())));
                }
                if r.heads.len() != s.heads.len() {
                    out.fail("C01", "fidelity/heads-missing", "C01/head-missing-at-clean-end", format!("key {} {}: {} heads submitted, {} delivered before the clean end", key, dir, s.heads.len(), r.heads.len()));
                }
            }
        }
    }
}

fn short(f: &(String, String)) -> String {
    let v = if f.1.len() > 40 { format!("{}…({}B)", &f.1[..40], f.1.len()) } else { f.1.clone() };
    format!("{}: {}", f.0, v)
}

/// Completeness in cooperative fault-free runs: every message submitted and
/// ended cleanly is delivered completely.
pub fn check_c01_complete(events: &[ApiEvent], out: &mut Outcome) {
    let (sent, recv) = views(events);
    let conn_failed = events.iter().any(|e| matches!(&e.api, Api::ConnDone { result: Err(_) }));
    if conn_failed {
        return;
    }
    for ((key, from), s) in &sent {
        if !s.eos_sent || s.reset.is_some() || s.dropped || s.send_err.is_some() {
            continue;
        }
        let dir = if *from == Side::Client { "client→server" } else { "server→client" };
        match recv.get(&(*key, *from)) {
            Some(r) if r.clean_end.is_some() || r.dropped => {}
            Some(r) => {
                if r.err.is_none() {
                    continue; // still pending: reported by C06
                }
                let (op, e) = r.err.as_ref().unwrap();
                // the receiver's own side may have reset the stream (its sender half); only a
                // spontaneous error on a stream nobody reset is a fidelity failure
                let peer_reset = sent.get(&(*key, from.other())).map(|m| m.reset.is_some() || m.dropped).unwrap_or(false);
                let parent_reset = *key >= 1000 && sent.get(&(*key / 1000, *from)).map(|m| m.reset.is_some() || m.dropped).unwrap_or(false);
                if !peer_reset && !parent_reset && !e.is_go_away && !e.is_io {
                    out.fail("C01", "fidelity/incomplete", format!("C01/complete-message-fails/{}", op), format!("key {} {}: message was sent completely but the receiver got an error on {}: {}", key, dir, op, e.text));
                }
            }
            None => {}
        }
    }
}

// ------------------------------------------------------------ C06 progress

pub struct StallInfo<'a> {
    pub two_send_waiters: bool,
    pub unfinished: &'a [(String, Group)],
    pub completed_when_repolled: Option<bool>,
    pub end: &'a RunEnd,
}

pub fn check_c06(st: &StallInfo, panic: bool, out: &mut Outcome) {
    if panic {
        return;
    }
    if let RunEnd::BusyLoop(t) = st.end {
        out.fail("C08", "busy-loop", format!("C08/busy-loop/{}", strip_digits(t)), format!("task {} keeps waking itself without any progress", t));
        return;
    }
    if *st.end != RunEnd::Quiescent {
        return;
    }
    let apps: Vec<&(String, Group)> = st.unfinished.iter().filter(|(_, g)| matches!(g, Group::ClientApp | Group::ServerApp)).collect();
    if apps.is_empty() {
        return;
    }
    let kinds: Vec<String> = {
        let mut k: Vec<String> = apps.iter().map(|(n, _)| strip_digits(n)).collect();
        k.sort();
        k.dedup();
        k
    };
    let only_send_waiters = kinds.iter().any(|k| matches!(k.as_str(), "c-body" | "c-second" | "c-resetwatch")); // (others pending are downstream of it)
    match st.completed_when_repolled {
        Some(true) => out.fail(
            "C06",
            "lost-wakeup",
            if st.two_send_waiters && only_send_waiters { "C06/two-waiters-share-the-stream-send-task-slot".to_string() } else { format!("C06/lost-wakeup/{}", kinds.join("+")) },
            format!("nothing runnable, nothing in flight, yet tasks {:?} are pending — and they complete once every task is polled again: a wake-up was lost", apps.iter().map(|a| &a.0).collect::<Vec<_>>()),
        ),
        _ => out.fail(
            "C06",
            "stall",
            format!("C06/stall/{}", kinds.join("+")),
            format!("cooperative program stalled: tasks {:?} never complete, even when every task is re-polled (accounting stall)", apps.iter().map(|a| &a.0).collect::<Vec<_>>()),
        ),
    }
}

// ------------------------------------------------------------ wire walkers

/// Per sender: the peer's settings in force for the sender at each of its
/// frames (index by position in tap.frames) — values of every peer SETTINGS
/// the sender had ACKed before that frame in its own wire order.
pub struct AckedView {
    /// for each frame position: (initial_window, max_frame, max_concurrent, enable_push) of the PEER as acked by the frame's sender
    pub at: Vec<(u32, u32, Option<u32>, bool)>,
    /// positions (in tap.frames) of SETTINGS ACK frames with the settings they acknowledge
    pub acks: Vec<(usize, Option<SettingsVals>)>,
}

pub fn acked_view(tap: &Tap) -> AckedView {
    let mut eff = [crate::tapx::Effective::default(), crate::tapx::Effective::default()]; // index = sender; value = peer's settings acked by sender
    let mut unacked: [Vec<SettingsVals>; 2] = [Vec::new(), Vec::new()];
    let mut at = Vec::with_capacity(tap.frames.len());
    let mut acks = Vec::new();
    for (pos, f) in tap.frames.iter().enumerate() {
        let w = side_idx(f.from);
        match &f.frame {
            Ok(Frame::Settings { ack: false, params }) => unacked[1 - w].push(SettingsVals::from_params(params)),
            Ok(Frame::Settings { ack: true, .. }) => {
                if unacked[w].is_empty() {
                    acks.push((pos, None));
                } else {
                    let s = unacked[w].remove(0);
                    eff[w].apply(&s);
                    acks.push((pos, Some(s)));
                }
            }
            _ => {}
        }
        at.push((eff[w].initial_window, eff[w].max_frame, eff[w].max_concurrent, eff[w].enable_push));
    }
    AckedView { at, acks }
}

// ------------------------------------------------------------ C12 (in SIM): max frame size; C10 (in SIM): blocks decode

pub fn check_wire_basic(tap: &Tap, av: &AckedView, h2_sides: &[Side], out: &mut Outcome) {
    for (pos, f) in tap.frames.iter().enumerate() {
        if !h2_sides.contains(&f.from) {
            continue;
        }
        let lim = av.at[pos].1 as usize;
        if f.raw.payload.len() > lim {
            out.fail(
                "C12",
                "sim/max-frame-size",
                "C12/frame-exceeds-max-frame-size",
                format!("{} frame #{} type {} payload {} > peer's acknowledged SETTINGS_MAX_FRAME_SIZE {}", f.from.name(), f.idx, f.raw.ty, f.raw.payload.len(), lim),
            );
        }
        if let Err(e) = &f.frame {
            out.fail("C12", "sim/malformed-frame", "C12/emitted-frame-malformed", format!("{} frame #{} type {}: {:?}", f.from.name(), f.idx, f.raw.ty, e));
        }
        if let Some(Err(e)) = &f.block {
            out.fail("C10", "sim/block-undecodable", format!("C10/reference-rejects/{:?}", e), format!("{} header block ending at frame #{} is rejected by the strict reference decoder: {:?}", f.from.name(), f.idx, e));
        }
    }
    for s in h2_sides {
        if tap.trailing[side_idx(*s)] != 0 {
            // a partial frame at the end is legitimate only if the transport was cut/closed mid-write;
            // reported by the caller when no fault was injected
            out.label("partial-frame-at-end");
        }
    }
}

// ------------------------------------------------------------ C02 flow accountant

pub fn check_c02(tap: &Tap, av: &AckedView, h2_sides: &[Side], out: &mut Outcome) {
    for &e in h2_sides {
        let p = e.other();
        // grants from P per stream, sorted by delivery time, with prefix sums
        let mut gmap: HashMap<u32, Vec<(u64, i64)>> = HashMap::new();
        for f in tap.frames.iter().filter(|f| f.from == p) {
            if let (Ok(Frame::WinUp { stream, inc, .. }), Some(td)) = (&f.frame, f.t_d) {
                gmap.entry(*stream).or_default().push((td, *inc as i64));
            }
        }
        for v in gmap.values_mut() {
            v.sort_by_key(|x| x.0);
            let mut acc = 0i64;
            for x in v.iter_mut() {
                acc += x.1;
                x.1 = acc;
            }
        }
        let granted = |stream: u32, t: u64| -> i64 {
            match gmap.get(&stream) {
                None => 0,
                Some(v) => {
                    let i = v.partition_point(|x| x.0 <= t);
                    if i == 0 {
                        0
                    } else {
                        v[i - 1].1
                    }
                }
            }
        };
        let mut sent_stream: HashMap<u32, i64> = HashMap::new();
        let mut sent_conn: i64 = 0;
        let mut limited = false;
        for (pos, f) in tap.frames.iter().enumerate() {
            if f.from != e {
                continue;
            }
            if let Ok(Frame::Data { stream, .. }) = &f.frame {
                let len = f.frame.as_ref().unwrap().flow_len() as i64;
                let iw = av.at[pos].0 as i64;
                let g_stream = granted(*stream, f.t_w0);
                let g_conn = granted(0, f.t_w0);
                let ss = sent_stream.entry(*stream).or_insert(0);
                let credit_s = iw + g_stream - *ss;
                let credit_c = 65535 + g_conn - sent_conn;
                if len > 0 && len > credit_s {
                    out.fail(
                        "C02",
                        "flow/stream-window",
                        "C02/stream-window-exceeded",
                        format!("{} DATA frame #{} on stream {}: {} flow-controlled bytes but only {} credit (acked initial window {}, grants {}, sent before {})", e.name(), f.idx, stream, len, credit_s, iw, g_stream, *ss),
                    );
                }
                if len > 0 && len > credit_c {
                    out.fail(
                        "C02",
                        "flow/connection-window",
                        "C02/connection-window-exceeded",
                        format!("{} DATA frame #{} on stream {}: {} bytes but only {} connection credit (grants {}, sent before {})", e.name(), f.idx, stream, len, credit_c, g_conn, sent_conn),
                    );
                }
                if len == credit_s || len == credit_c {
                    limited = true;
                }
                *ss += len;
                sent_conn += len;
            }
        }
        if limited {
            out.label("data-limited-by-window");
        }
    }
}

// ------------------------------------------------------------ C04 sender life cycle

#[derive(Clone, Copy, Debug, PartialEq, Eq)]
enum SState {
    Idle,
    /// promised by E (reserved local) / promised by P (reserved remote)
    ReservedLocal,
    ReservedRemote,
    Open,
}

#[derive(Debug, Clone)]
struct SView {
    st: SState,
    local_end: bool,  // E sent END_STREAM
    local_rst: bool,  // E sent RST_STREAM
    final_head: bool, // E sent a non-1xx HEADERS
    trailers: bool,
    rst_count: u32,
    /// P frames on this stream delivered after E's first RST (justify further RSTs)
    peer_after_rst: u32,
    last_rst_t: u64,
}

pub fn check_c04(tap: &Tap, av: &AckedView, h2_sides: &[Side], out: &mut Outcome) {
    for &e in h2_sides {
        let p = e.other();
        let parity_local = if e == Side::Client { 1 } else { 0 };
        let mut streams: HashMap<u32, SView> = HashMap::new();
        let mut max_local = 0u32;
        let mut open_block: Option<u32> = None;
        // peer-initiated streams become non-idle once their opening frame was delivered
        let peer_opened: Vec<(u64, u32, bool)> = tap
            .frames
            .iter()
            .filter(|f| f.from == p)
            .filter_map(|f| match (&f.frame, f.t_d0) {
                (Ok(Frame::Headers { stream, .. }), Some(td)) => Some((td, *stream, false)),
                (Ok(Frame::Push { promised, .. }), Some(td)) => Some((td, *promised, true)),
                _ => None,
            })
            .collect();
        let mut peer_frames: Vec<(u64, u32)> = tap.frames.iter().filter(|f| f.from == p && f.raw.stream != 0).filter_map(|f| f.t_d.map(|t| (t, f.raw.stream))).collect();
        // a PUSH_PROMISE also concerns the promised stream
        for f in tap.frames.iter().filter(|f| f.from == p) {
            if let (Ok(Frame::Push { promised, .. }), Some(t)) = (&f.frame, f.t_d) {
                peer_frames.push((t, *promised));
            }
        }
        let fail = |out: &mut Outcome, sig: &str, f: &TFrame, msg: String| {
            out.fail("C04", "lifecycle", format!("C04/{}", sig), format!("{} frame #{} ({} on stream {}): {}", e.name(), f.idx, f.frame.as_ref().map(|x| x.kind()).unwrap_or("?"), f.raw.stream, msg));
        };
        for (pos, f) in tap.frames.iter().enumerate() {
            if f.from != e {
                continue;
            }
            let fr = match &f.frame {
                Ok(fr) => fr,
                Err(_) => continue,
            };
            let sid = fr.stream();
            // header block contiguity
            if let Some(bs) = open_block {
                match fr {
                    Frame::Cont { stream, end_headers, .. } if *stream == bs => {
                        if *end_headers {
                            open_block = None;
                        }
                        continue;
                    }
                    _ => {
                        fail(out, "header-block-interrupted", f, format!("sent while the header block of stream {} is still open", bs));
                        open_block = None;
                    }
                }
            } else if let Frame::Cont { .. } = fr {
                fail(out, "continuation-without-block", f, "CONTINUATION with no open header block".into());
                continue;
            }
            // stream-0 discipline
            match fr {
                Frame::Settings { .. } | Frame::Ping { .. } | Frame::GoAway { .. } => continue,
                Frame::WinUp { stream: 0, .. } => continue,
                Frame::Unknown { .. } => continue,
                _ => {}
            }
            if sid == 0 {
                fail(out, "stream-frame-on-stream-0", f, "stream-level frame type on stream 0".into());
                continue;
            }
            let is_local = sid % 2 == parity_local;
            // make sure the stream view exists
            if !streams.contains_key(&sid) {
                let st = if is_local {
                    SState::Idle
                } else {
                    match peer_opened.iter().find(|(td, s, _)| *s == sid && *td <= f.t_w0) {
                        Some((_, _, true)) => SState::ReservedRemote,
                        Some((_, _, false)) => SState::Open,
                        None => SState::Idle,
                    }
                };
                streams.insert(sid, SView { st, local_end: false, local_rst: false, final_head: false, trailers: false, rst_count: 0, peer_after_rst: 0, last_rst_t: 0 });
            }
            // PRIORITY may be sent in any state
            if let Frame::Priority { .. } = fr {
                continue;
            }
            let promised_new = if let Frame::Push { promised, .. } = fr { Some(*promised) } else { None };
            let v = streams.get_mut(&sid).unwrap();
            if !is_local && v.st == SState::Idle {
                // peer-initiated stream whose opening frame has not been delivered to E yet (or a pushed
                // stream whose PUSH_PROMISE was refused): nothing may be sent on it
                if let Some((_, _, pushed)) = peer_opened.iter().find(|(td, s, _)| *s == sid && *td <= f.t_w0) {
                    v.st = if *pushed { SState::ReservedRemote } else { SState::Open };
                } else {
                    fail(out, "frame-on-idle-stream", f, "sent on a peer-initiated stream that E cannot know yet".into());
                    continue;
                }
            }
            match fr {
                Frame::Headers { end_stream, end_headers, .. } => {
                    if !*end_headers {
                        open_block = Some(sid);
                    }
                    let fields = tap.frames[pos..].iter().find(|g| g.from == e && g.block_start == Some(pos)).and_then(|g| g.block.clone()).and_then(|b| b.ok());
                    let status = fields.as_ref().and_then(|fl| fl.iter().find(|x| x.name == b":status").map(|x| x.value.clone()));
                    let informational = status.as_ref().map(|s| s.first() == Some(&b'1')).unwrap_or(false);
                    if is_local && v.st == SState::Idle {
                        if e == Side::Server {
                            fail(out, "server-opens-stream-with-headers", f, "a server-initiated stream must be opened by PUSH_PROMISE".into());
                        }
                        if sid <= max_local {
                            fail(out, "stream-id-not-increasing", f, format!("new stream id {} after {}", sid, max_local));
                        }
                        max_local = max_local.max(sid);
                        v.st = SState::Open;
                        v.final_head = true;
                    } else if v.st == SState::ReservedLocal {
                        v.st = SState::Open;
                        v.final_head = !informational;
                    } else if v.st == SState::ReservedRemote {
                        fail(out, "headers-on-reserved-remote", f, "HEADERS on a stream the peer promised".into());
                    } else {
                        // open: response head (server), interim, or trailers
                        if v.local_rst {
                            fail(out, "frame-after-rst", f, "HEADERS after RST_STREAM".into());
                        } else if v.local_end {
                            fail(out, "frame-after-end-stream", f, "HEADERS after END_STREAM".into());
                        } else if v.final_head {
                            // must be trailers
                            if !*end_stream {
                                fail(out, "trailers-without-end-stream", f, "second final HEADERS without END_STREAM".into());
                            }
                            v.trailers = true;
                        } else {
                            v.final_head = !informational;
                        }
                    }
                    if informational && *end_stream {
                        fail(out, "informational-with-end-stream", f, "1xx HEADERS carries END_STREAM".into());
                    }
                    if *end_stream {
                        v.local_end = true;
                    }
                }
                Frame::Push { end_headers, .. } => {
                    if !*end_headers {
                        open_block = Some(sid);
                    }
                    if e == Side::Client {
                        fail(out, "client-sends-push-promise", f, "PUSH_PROMISE sent by a client".into());
                    }
                    if !av.at[pos].3 {
                        fail(out, "push-after-disabled", f, "PUSH_PROMISE although the peer's acknowledged SETTINGS_ENABLE_PUSH is 0".into());
                    }
                    if is_local || v.st != SState::Open || v.local_rst {
                        fail(out, "push-on-bad-parent", f, format!("parent stream is not an open peer-initiated stream (state {:?}, reset {})", v.st, v.local_rst));
                    } else if v.local_end {
                        fail(out, "push-after-end-stream", f, "PUSH_PROMISE after END_STREAM on the parent".into());
                    }
                }
                Frame::Data { end_stream, .. } => {
                    if v.st != SState::Open {
                        fail(out, "data-on-unopened-stream", f, format!("DATA in state {:?}", v.st));
                    } else if v.local_rst {
                        fail(out, "frame-after-rst", f, "DATA after RST_STREAM".into());
                    } else if v.local_end {
                        fail(out, "frame-after-end-stream", f, "DATA after END_STREAM".into());
                    } else if !v.final_head {
                        fail(out, "data-before-final-headers", f, "DATA before a final (non-1xx) HEADERS".into());
                    } else if v.trailers {
                        fail(out, "data-after-trailers", f, "DATA after trailers".into());
                    }
                    if *end_stream {
                        v.local_end = true;
                    }
                }
                Frame::Rst { .. } => {
                    if v.st == SState::Idle {
                        fail(out, "frame-on-idle-stream", f, "RST_STREAM on an idle stream".into());
                    }
                    if v.local_rst {
                        // allowed only as answers to peer frames on that stream delivered since the first
                        // RST (frames delivered in the same step as the first RST count: steps are the
                        // finest order the tap has): n-th RST needs ≥ n-1 such frames
                        // (permissive form here: frames delivered at any time before this RST, because the
                        // tap cannot see when a delivered frame was processed; the exact count is C17's)
                        let late = peer_frames.iter().filter(|(t, s)| *s == sid && *t <= f.t_w0).count() as u32;
                        if late < v.rst_count {
                            fail(out, "second-rst-unjustified", f, format!("RST_STREAM #{} on this stream but only {} peer frames on it had been delivered", v.rst_count + 1, late));
                        }
                    } else {
                        v.last_rst_t = f.t_w0;
                    }
                    v.local_rst = true;
                    v.rst_count += 1;
                }
                Frame::WinUp { .. } => {
                    if v.st == SState::Idle {
                        fail(out, "frame-on-idle-stream", f, "WINDOW_UPDATE on an idle stream".into());
                    }
                    if v.local_rst {
                        // RFC 9113 §5.1 (closed): nothing but PRIORITY after sending RST_STREAM
                        fail(out, "frame-after-rst", f, "WINDOW_UPDATE after RST_STREAM".into());
                    }
                }
                _ => {}
            }
            if let Some(pid) = promised_new {
                if pid % 2 != 0 {
                    fail(out, "promised-id-parity", f, format!("promised id {} is odd", pid));
                }
                if pid <= max_local {
                    fail(out, "promised-id-not-increasing", f, format!("promised id {} after {}", pid, max_local));
                }
                max_local = max_local.max(pid);
                streams.insert(pid, SView { st: SState::ReservedLocal, local_end: false, local_rst: false, final_head: false, trailers: false, rst_count: 0, peer_after_rst: 0, last_rst_t: 0 });
            }
        }
        let _ = wire::T_DATA;
    }
}

// ------------------------------------------------------------ non-triviality helpers

pub fn wire_classes(tap: &Tap, av: &AckedView, out: &mut Outcome) {
    let mut cont = false;
    let mut multi_data: HashSet<u32> = HashSet::new();
    let mut data_count: HashMap<(usize, u32), u32> = HashMap::new();
    let mut partial_write = false;
    for (pos, f) in tap.frames.iter().enumerate() {
        if f.is(wire::T_CONT) {
            cont = true;
        }
        if f.is(wire::T_DATA) {
            let c = data_count.entry((side_idx(f.from), f.raw.stream)).or_insert(0);
            *c += 1;
            if *c > 1 {
                multi_data.insert(f.raw.stream);
            }
            if f.raw.payload.len() == av.at[pos].1 as usize {
                out.label("data-split-by-max-frame");
            }
        }
        if f.t_w0 != f.t_w {
            partial_write = true;
        }
    }
    if cont {
        out.label("continuation");
    }
    if !multi_data.is_empty() {
        out.label("body-in-several-frames");
    }
    if partial_write {
        out.label("partial-write-inside-frame");
    }
}

// ------------------------------------------------------------ C13 send side: every emitted header section is valid

pub fn check_c13_emitted(tap: &Tap, h2_sides: &[Side], out: &mut Outcome) {
    use crate::refmodel::http::{self, Kind};
    for &e in h2_sides {
        // per stream: has a final (non-1xx) head been sent?
        let mut final_sent: HashSet<u32> = HashSet::new();
        for (pos, f) in tap.frames.iter().enumerate() {
            if f.from != e {
                continue;
            }
            let fields = match &f.block {
                Some(Ok(fl)) => fl,
                _ => continue,
            };
            let start = f.block_start.unwrap_or(pos);
            let (kind, sid, end_stream) = match &tap.frames[start].frame {
                Ok(Frame::Push { promised, .. }) => (Kind::PushRequest, *promised, false),
                Ok(Frame::Headers { stream, end_stream, .. }) => {
                    let k = if final_sent.contains(stream) {
                        Kind::Trailers
                    } else if e == Side::Client {
                        Kind::Request
                    } else {
                        Kind::Response
                    };
                    (k, *stream, *end_stream)
                }
                _ => continue,
            };
            let v = http::check(kind, fields, end_stream, true);
            if matches!(kind, Kind::Request) || (kind == Kind::Response && v.status.map(|s| s >= 200).unwrap_or(true)) {
                final_sent.insert(sid);
            }
            if !v.is_valid() {
                out.fail(
                    "C13",
                    "http/emitted-malformed",
                    format!("C13/{}/emits/{}", e.name(), v.malformed.join("+")),
                    format!("{} emitted a malformed {:?} header section on stream {}: {:?}; fields {:?}", e.name(), kind, sid, v.malformed, fields.iter().take(8).map(|x| format!("{}: {}", crate::util::show(&x.name), crate::util::show(&x.value))).collect::<Vec<_>>()),
                );
            }
        }
    }
}
