//! RAW engines, part 2: acknowledgements under back-pressure (C14) and
//! GOAWAY / shutdown (C15).

use crate::eng_raw::*;
use crate::oracles::*;
use crate::refmodel::wire::Frame;
use crate::runner::{Engine, Outcome, Violation};
use crate::sim::*;
use crate::sim_pair::*;
use crate::sim_raw::*;
use crate::tape::Tape;
use crate::tapx::Tap;

fn hdr(stream: u32, method: &str, end_stream: bool) -> PStep {
    PStep::Headers {
        stream,
        fields: vec![(":method".into(), method.into()), (":scheme".into(), "https".into()), (":authority".into(), "example.com".into()), (":path".into(), format!("/s/{}", stream)), ("x-id".into(), stream.to_string())],
        end_stream,
        splits: vec![],
        pad: None,
        prio: None,
        enc: 0,
    }
}

fn fr(f: Frame) -> PStep {
    PStep::Frame { f, extra_flags: 0, r_bit: false }
}

fn base(t: &mut Tape, tapes: &[Vec<u32>], cfg: Cfg, reqs: Vec<Req>) -> PairCase {
    let _ = t;
    let mut t2 = Tape::new(&tapes[1]);
    let ns = t2.below(300);
    let sched = (0..ns).map(|_| t2.u32()).collect();
    let mut t3 = Tape::new(&tapes[2]);
    let n1 = t3.below(120);
    let chunk_c2s = (0..n1).map(|_| t3.u32()).collect();
    let n2 = t3.below(120);
    let chunk_s2c = (0..n2).map(|_| t3.u32()).collect();
    PairCase {
        cap: None,
        accept_limit: None,
        ccfg: cfg.clone(),
        scfg: cfg,
        client_init_max_send: None,
        vectored_c: t3.bool(),
        vectored_s: t3.bool(),
        sched,
        chunk_c2s,
        chunk_s2c,
        reqs,
        ops: vec![],
        fault: None,
        drop_send_request_at_end: true, nest: vec![]
    }
}

// ------------------------------------------------------------ C14: SETTINGS / PING acknowledgements

fn gen_settings(t: &mut Tape) -> Vec<(u16, u32)> {
    let n = t.below(4);
    (0..n)
        .map(|_| match t.below(7) {
            6 => (2u16, *t.pick(&[0u32, 0, 1])),
            0 => (1u16, *t.pick(&[0u32, 100, 4096, 65536])),
            1 => (3, *t.pick(&[1u32, 5, 100, u32::MAX])),
            2 => (4, *t.pick(&[0u32, 1, 1000, 65535, 100_000, 0x7fff_ffff])),
            3 => (5, *t.pick(&[16384u32, 16385, 65536, (1 << 24) - 1])),
            4 => (6, *t.pick(&[100u32, 16384, u32::MAX])),
            _ => (0x33, t.u32()),
        })
        .collect()
}

pub fn gen_acks_server(tapes: &[Vec<u32>]) -> RawCase {
    let mut t = Tape::new(&tapes[0]);
    let cfg = plain_cfg();
    let mut script: Vec<PStep> = vec![PStep::Barrier];
    let mut reqs: Vec<Req> = Vec::new();
    let mut next_id = 1u32;
    // some streams with response bodies in flight (so that settings changes hit open streams)
    let nstreams = t.below(4);
    for _ in 0..nstreams {
        let id = next_id;
        next_id += 2;
        let mut r = default_req(id);
        r.resp.chunks = vec![Chunk { len: *t.pick(&[10usize, 5000, 40000, 70000, 100_000]), reserve: t.bool(), cuts: vec![], delay: 0, hold: 0 }];
        r.resp.big = if t.chance(1, 6) { 20000 } else { 0 };
        reqs.push(r);
        script.push(hdr(id, "GET", true));
    }
    // the burst, optionally while E's writes are blocked
    let block = t.chance(1, 2);
    if block {
        script.push(PStep::Reading(false));
    }
    let nburst = 1 + t.below(12);
    for _ in 0..nburst {
        match t.weighted(&[4, 4, 1]) {
            0 => script.push(fr(Frame::Settings { ack: false, params: gen_settings(&mut t) })),
            1 => {
                let b = t.bytes(8);
                let mut d = [0u8; 8];
                d.copy_from_slice(&b);
                d[0] = 0x11; // never collides with barrier payloads (0xb5…)
                match t.weighted(&[6, 2, 2]) {
                    0 => script.push(fr(Frame::Ping { ack: false, data: d })),
                    // undefined flag bits must be ignored: still a PING that is answered once
                    1 => script.push(PStep::Frame { f: Frame::Ping { ack: false, data: d }, extra_flags: *t.pick(&[0x02u8, 0x08, 0x82]), r_bit: false }),
                    // an acknowledgement nobody asked for (with or without undefined flag bits): never answered
                    _ => {
                        d[0] = 0x12;
                        script.push(PStep::Frame { f: Frame::Ping { ack: true, data: d }, extra_flags: *t.pick(&[0x00u8, 0x02, 0x08, 0x82]), r_bit: false });
                    }
                }
            }
            _ => {
                let id = next_id;
                next_id += 2;
                if t.bool() {
                    // a handler that pushes (at once or a little later): whether it may depends on the ENABLE_PUSH value
                    // acknowledged by then
                    let mut r = default_req(id);
                    r.resp_delay = *t.pick(&[0usize, 5, 30]);
                    let mut presp = empty_msg();
                    presp.eos_on_head = true;
                    r.pushes = vec![Push { resp: presp, status: 200, reader: Reader::Eager, abandon: false, resp_delay: 0 }];
                    reqs.push(r);
                }
                script.push(hdr(id, "GET", true));
            }
        }
        if t.chance(1, 4) {
            script.push(PStep::Yield(1 + t.below(4)));
        }
    }
    if block {
        script.push(PStep::Yield(5 + t.below(30)));
        script.push(PStep::Reading(true));
    }
    // restore sane settings so that everything can finish, then barrier
    script.push(fr(Frame::Settings { ack: false, params: vec![(3, 100), (4, 65535), (5, 16384)] }));
    script.push(PStep::Barrier);
    for id in (1..next_id).step_by(2) {
        script.push(PStep::WaitEnd(id));
    }
    script.push(PStep::Barrier);
    let spec = RawSpec { peer_settings: gen_settings(&mut t).into_iter().filter(|p| !(p.0 == 4 && p.1 == 0)).collect(), script, grant: *t.pick(&[Grant::Eager, Grant::Threshold(20000), Grant::Drip(1000)]), close_at_end: true };
    let b = base(&mut t, tapes, cfg, reqs);
    RawCase { h2_side: Side::Server, base: b, spec, inject: None, probe_stream: 0, e_out_cap: if block { Some(*t.pick(&[64usize, 100, 1000, 20000])) } else { None } }
}

pub fn check_c14(case: &RawCase, rr: &RawRun, tap: &Tap, out: &mut Outcome) {
    let e = case.h2_side;
    // arrival sequences (delivered to E), acknowledgement sequences (written by E)
    let pings_in: Vec<[u8; 8]> = tap.frames.iter().filter(|f| f.from != e && f.t_d.is_some()).filter_map(|f| if let Ok(Frame::Ping { ack: false, data }) = &f.frame { Some(*data) } else { None }).collect();
    let pings_sent_total = tap.frames.iter().filter(|f| f.from != e).filter(|f| matches!(&f.frame, Ok(Frame::Ping { ack: false, .. }))).count();
    let pongs: Vec<[u8; 8]> = tap.frames.iter().filter(|f| f.from == e).filter_map(|f| if let Ok(Frame::Ping { ack: true, data }) = &f.frame { Some(*data) } else { None }).collect();
    let settings_in = tap.frames.iter().filter(|f| f.from != e && f.t_d.is_some()).filter(|f| matches!(&f.frame, Ok(Frame::Settings { ack: false, .. }))).count();
    let settings_acks = tap.frames.iter().filter(|f| f.from == e).filter(|f| matches!(&f.frame, Ok(Frame::Settings { ack: true, .. }))).count();
    if pongs.len() > pings_in.len() {
        out.fail("C14", "acks/ping-count", "C14/more-ping-acks-than-pings", format!("{} PING acknowledgements written, {} PINGs delivered", pongs.len(), pings_in.len()));
    } else if pongs[..] != pings_in[..pongs.len()] {
        let k = pongs.iter().zip(pings_in.iter()).position(|(a, b)| a != b).unwrap_or(0);
        out.fail("C14", "acks/ping-order", "C14/ping-acks-not-in-arrival-order", format!("PING acknowledgement #{} carries {:?}, the #{} PING delivered carried {:?}", k, pongs[k], k, pings_in[k]));
    }
    if settings_acks > settings_in {
        out.fail("C14", "acks/settings-count", "C14/more-settings-acks-than-settings", format!("{} SETTINGS acknowledgements written, {} SETTINGS delivered", settings_acks, settings_in));
    }
    // every acknowledgement must have been written after its frame was delivered
    let mut k = 0usize;
    let arrivals: Vec<u64> = tap.frames.iter().filter(|f| f.from != e).filter_map(|f| if let (Ok(Frame::Settings { ack: false, .. }), Some(td)) = (&f.frame, f.t_d) { Some(td) } else { None }).collect();
    for f in tap.frames.iter().filter(|f| f.from == e) {
        if let Ok(Frame::Settings { ack: true, .. }) = &f.frame {
            if let Some(td) = arrivals.get(k) {
                if f.t_w0 < *td {
                    out.fail("C14", "acks/settings-early", "C14/settings-ack-before-settings-arrived", format!("SETTINGS acknowledgement #{} written at step {} but the SETTINGS frame it answers was only delivered at step {}", k, f.t_w0, td));
                }
            }
            k += 1;
        }
    }
    // completeness at the end of a live, writable, quiescent connection
    let conn_err = rr.run.events.iter().any(|ev| ev.side == e && matches!(&ev.api, Api::ConnDone { result: Err(_) }));
    let goaway = tap.frames.iter().any(|f| f.from == e && matches!(&f.frame, Ok(Frame::GoAway { code, .. }) if *code != 0));
    if rr.obs.script_done && !conn_err && !goaway && rr.run.panic.is_none() && rr.run.end == RunEnd::Quiescent {
        if pongs.len() != pings_sent_total {
            out.fail("C14", "acks/ping-missing", "C14/ping-never-acknowledged", format!("{} PINGs sent to the endpoint, only {} acknowledged although the connection is idle and writable", pings_sent_total, pongs.len()));
        }
        let settings_sent_total = tap.frames.iter().filter(|f| f.from != e).filter(|f| matches!(&f.frame, Ok(Frame::Settings { ack: false, .. }))).count();
        if settings_acks != settings_sent_total {
            out.fail("C14", "acks/settings-missing", "C14/settings-never-acknowledged", format!("{} SETTINGS sent to the endpoint, {} acknowledged although the connection is idle and writable", settings_sent_total, settings_acks));
        }
        out.label("acks-complete-checked");
    }
    // classes
    if pings_in.len() + settings_in >= 2 {
        out.label("several-acks-owed");
    }
    if case.e_out_cap.is_some() {
        out.label("writes-blocked-during-burst");
    }
    out.nontrivial = pings_in.len() + settings_in >= 3;
}

/// Violations of other properties that are exactly "a received SETTINGS value
/// does not govern what is sent after its acknowledgement" are also C14's.
pub fn reattribute_to_c14(out: &mut Outcome) {
    let extra: Vec<Violation> = out
        .violations
        .iter()
        .filter(|v| matches!(v.signature.as_str(), "C02/stream-window-exceeded" | "C12/frame-exceeds-max-frame-size" | "C05/opens-stream-over-peer-limit" | "C04/push-after-disabled") || v.signature.starts_with("C10/reference-rejects/"))
        .map(|v| Violation::new("C14", &v.oracle, format!("C14/acknowledged-settings-not-in-force/{}", v.signature), v.detail.clone()))
        .collect();
    out.violations.extend(extra);
}

pub struct AcksEngine;

impl Engine for AcksEngine {
    type Case = RawCase;
    fn name(&self) -> &'static str {
        "raw-acks-server"
    }
    fn tape_lens(&self) -> Vec<usize> {
        vec![200, 301, 242]
    }
    fn gen(&self, tapes: &[Vec<u32>]) -> RawCase {
        gen_acks_server(tapes)
    }
    fn rule(&self) -> String {
        "h2 server with 0–3 responses in flight receives a generated burst of SETTINGS (any parameters, repeated, values 0…max) and PINGs interleaved with new requests, in half of the cases while its own writes are blocked behind a finite pipe the peer does not read; oracle over the tap: PING acks echo payloads in arrival order, never more acks than frames, none before its frame arrived, all owed acks present at quiescence, and everything sent after an ACK obeys the acknowledged values (frame size, windows, table size, concurrency); non-trivial = ≥3 acknowledgements owed".into()
    }
    fn shrink_iters(&self) -> u32 {
        400
    }
    fn run(&self, case: &RawCase) -> Outcome {
        let rr = run_raw(case);
        let an = analyse_raw(case, &rr);
        let mut out = Outcome::default();
        common_raw_oracles(case, &rr, &an, &mut out);
        check_c14(case, &rr, &an.tap, &mut out);
        reattribute_to_c14(&mut out);
        // PUSH_PROMISE after ENABLE_PUSH=0 was acknowledged: told apart by when the application's push_request was
        // accepted — before the acknowledgement was written (the frame was already queued) or after it
        let e = case.h2_side;
        let mut refined: Vec<Violation> = Vec::new();
        for v in out.violations.iter().filter(|v| v.signature == "C14/acknowledged-settings-not-in-force/C04/push-after-disabled") {
            // the last ACK E wrote before the offending frame
            let mut ack_t = None;
            let mut which = "push-request-accepted-after-the-acknowledgement";
            for f in an.tap.frames.iter().filter(|f| f.from == e) {
                match &f.frame {
                    Ok(Frame::Settings { ack: true, .. }) => ack_t = Some(f.t_w0),
                    Ok(Frame::Push { promised, .. }) => {
                        let accepted = rr.run.events.iter().find(|ev| ev.side == e && matches!(&ev.api, Api::SentHead { kind: "push-request", stream, .. } if stream == promised)).map(|ev| ev.step);
                        if let (Some(a), Some(t)) = (accepted, ack_t) {
                            if a < t {
                                which = "push-promise-queued-before-the-acknowledgement";
                            }
                        }
                    }
                    _ => {}
                }
            }
            refined.push(Violation::new("C14", &v.oracle, format!("C14/push-promise-after-acknowledged-enable-push-0/{}", which), v.detail.clone()));
        }
        if !refined.is_empty() {
            out.violations.retain(|v| v.signature != "C14/acknowledged-settings-not-in-force/C04/push-after-disabled");
            out.violations.extend(refined);
        }
        out.note = format!("{} wire frames, end={:?}, script_done={}", an.tap.frames.len(), rr.run.end, rr.obs.script_done);
        out
    }
}

// ------------------------------------------------------------ C15: GOAWAY / shutdown

/// h2 server: graceful or abrupt shutdown requested at a generated moment.
pub fn gen_shutdown_server(tapes: &[Vec<u32>]) -> RawCase {
    let mut t = Tape::new(&tapes[0]);
    let cfg = plain_cfg();
    let mut script: Vec<PStep> = vec![PStep::Barrier];
    let mut reqs: Vec<Req> = Vec::new();
    let mut next_id = 1u32;
    let n = 1 + t.below(5);
    for _ in 0..n {
        let id = next_id;
        next_id += 2;
        let mut r = default_req(id);
        r.resp_delay = *t.pick(&[0usize, 5, 30, 100]);
        r.resp.chunks = vec![Chunk { len: *t.pick(&[10usize, 3000, 40000]), reserve: false, cuts: vec![], delay: 0, hold: 0 }];
        reqs.push(r);
        let with_body = t.bool();
        script.push(hdr(id, if with_body { "POST" } else { "GET" }, !with_body));
        if with_body {
            script.push(PStep::Data { stream: id, len: *t.pick(&[0usize, 100, 20000]), pad: None, end_stream: true, force: false });
        }
        if t.chance(1, 3) {
            script.push(PStep::Yield(1 + t.below(10)));
        }
    }
    // more requests that race with the shutdown
    let nlate = t.below(3);
    script.push(PStep::Yield(t.below(40)));
    for _ in 0..nlate {
        let id = next_id;
        next_id += 2;
        script.push(hdr(id, "GET", true));
        script.push(PStep::Yield(t.below(5)));
    }
    // variant: one more upload whose body the peer never finishes; once the shutdown handshake is (most likely) over
    // it resets exactly that stream — the last one the endpoint accepted
    let reset_last = t.chance(1, 3);
    if reset_last {
        let id = next_id;
        next_id += 2;
        let mut r = default_req(id);
        r.resp_delay = 400; // the application waits for the request body first
        reqs.push(r);
        script.push(hdr(id, "POST", false));
        script.push(PStep::Data { stream: id, len: 100, pad: None, end_stream: false, force: false });
    }
    script.push(PStep::Barrier);
    if reset_last {
        script.push(PStep::Yield(60 + t.below(60)));
        script.push(PStep::Barrier);
        script.push(fr(Frame::Rst { stream: next_id - 2, code: *t.pick(&[8u32, 2, 0x8bad_f00d]) }));
    }
    for id in (1..next_id).step_by(2) {
        script.push(PStep::WaitEnd(id));
    }
    script.push(PStep::Barrier);
    let spec = RawSpec { peer_settings: vec![], script, grant: Grant::Eager, close_at_end: false };
    let mut b = base(&mut t, tapes, cfg, reqs);
    let at = t.below(30);
    if t.chance(1, 3) {
        b.ops.push(ConnOp { side: Side::Server, after_events: at, cmd: ConnCmd::Ping, gap: 0 });
    }
    let abrupt = t.chance(1, 4);
    b.ops.push(ConnOp { side: Side::Server, after_events: at, cmd: if abrupt { ConnCmd::AbruptShutdown(t.below(14) as u32) } else { ConnCmd::GracefulShutdown }, gap: t.below(6) });
    RawCase { h2_side: Side::Server, base: b, spec, inject: None, probe_stream: 0, e_out_cap: None }
}

/// h2 client: the peer sends GOAWAY (any last-stream-id, code, debug data, repeated) at a generated moment.
pub fn gen_goaway_client(tapes: &[Vec<u32>]) -> RawCase {
    let mut t = Tape::new(&tapes[0]);
    let cfg = plain_cfg();
    let n = 1 + t.below(5);
    let mut reqs: Vec<Req> = Vec::new();
    for i in 0..n {
        let mut r = default_req(i as u32 + 1);
        r.delay = t.below(6);
        if t.bool() {
            r.method = "POST".into();
            r.req.eos_on_head = false;
            r.req.chunks = vec![Chunk { len: *t.pick(&[10usize, 3000, 30000]), reserve: t.bool(), cuts: vec![], delay: t.below(4), hold: 0 }];
        }
        reqs.push(r);
    }
    // late requests issued after the GOAWAY has (probably) arrived
    let nlate = t.below(3);
    for i in 0..nlate {
        let mut r = default_req((n + i) as u32 + 1);
        r.delay = 150 + t.below(50);
        reqs.push(r);
    }
    // variant: the peer never grants connection window; uploads of the streams that survive the cut fit into
    // the initial window only once the failed streams have returned what they held
    let withhold = n >= 2 && t.chance(1, 3);
    if withhold {
        for (i, r) in reqs.iter_mut().enumerate().take(n) {
            r.method = "POST".into();
            r.req.eos_on_head = false;
            if i == 0 {
                // opens first (lowest id), sends its body late: by then the window is taken
                r.delay = 0;
                r.req.chunks = vec![Chunk { len: *t.pick(&[5usize, 5000, 30000]), reserve: t.bool(), cuts: vec![], delay: 25 + t.below(20), hold: 0 }];
            } else {
                // reserves (a share of) the whole connection window and sits on it
                r.delay = 2 + i;
                r.req.chunks = vec![Chunk { len: 65535, reserve: true, cuts: vec![], delay: 0, hold: 150 + t.below(100) }];
            }
        }
    }
    let seen = if withhold { n } else { 1 + t.below(n) }; // streams the peer waits for before the GOAWAY
    let last_idx = if withhold { 1 } else { t.below(seen + 1) }; // streams 1..=last_idx (in opening order) are below the cut
    let last_id = if last_idx == 0 { 0 } else { (2 * last_idx - 1) as u32 };
    let code = if t.chance(1, 3) { 0 } else if t.chance(2, 3) { 1 + t.below(13) as u32 } else { t.u32() };
    let debug: Vec<u8> = if t.bool() { b"bye bye".to_vec() } else { vec![] };
    let mut script: Vec<PStep> = vec![PStep::Barrier, PStep::WaitStreams(seen)];
    // answer some streams below the cut before the GOAWAY
    let pre = t.below(last_idx + 1);
    for k in 0..pre {
        script.push(PStep::Respond { nth: k, fields: vec![(":status".into(), "200".into())], end_stream: false, splits: vec![] });
        script.push(PStep::RespondData { nth: k, len: 10, pad: None, end_stream: true });
    }
    if withhold {
        script.push(PStep::Yield(40 + t.below(40)));
    }
    script.push(PStep::Mark("inject".into()));
    if t.chance(1, 4) {
        // two-step graceful shutdown by the peer
        script.push(fr(Frame::GoAway { last: 0x7fff_ffff, last_r: false, code: 0, debug: vec![] }));
        script.push(PStep::Yield(t.below(6)));
    }
    script.push(fr(Frame::GoAway { last: last_id, last_r: false, code, debug: debug.clone() }));
    script.push(PStep::Barrier);
    // finish the streams below the cut
    for k in pre..last_idx {
        script.push(PStep::Respond { nth: k, fields: vec![(":status".into(), "200".into())], end_stream: false, splits: vec![] });
        script.push(PStep::RespondData { nth: k, len: 10, pad: None, end_stream: true });
    }
    // streams at or below the cut run to completion: wait for the client's side of them too
    for k in 1..=last_idx {
        script.push(PStep::WaitEnd((2 * k - 1) as u32));
    }
    script.push(PStep::Yield(20));
    script.push(PStep::Barrier);
    let spec = RawSpec { peer_settings: vec![], script, grant: if withhold { Grant::Never } else { Grant::Eager }, close_at_end: true };
    let mut b = base(&mut t, tapes, cfg, reqs);
    b.drop_send_request_at_end = t.bool();
    let inj = Inject {
        item: format!("goaway:last={}:code={}{}", last_idx, if code == 0 { "NO_ERROR" } else { "error" }, if withhold { ":window-withheld" } else { "" }),
        state: format!("{}-streams-seen", seen),
        class: Class::Either,
        stream: last_id,
        basis: "RFC 9113 §6.8".into(),
        never_surface: vec![],
        must_deliver: vec![],
        must_deliver_streams: (1..=last_idx as u32).map(|k| (2 * k - 1, 10usize)).collect(),
        no_head: vec![],
        no_clean_end: vec![],
        prop: "C15".into(),
        wire_optional: true,
    };
    let mut c = RawCase { h2_side: Side::Client, base: b, spec, inject: Some(inj), probe_stream: code, e_out_cap: None };
    c.inject.as_mut().unwrap().never_surface = vec![seen as u32, n as u32]; // (seen, first-wave size) for the oracle
    c
}

pub fn check_c15(case: &RawCase, rr: &RawRun, tap: &Tap, out: &mut Outcome) {
    let e = case.h2_side;
    // ---- GOAWAYs E sends: last-stream-id never increases, never below an accepted stream
    let mine: Vec<(u64, u32, u32)> = tap.frames.iter().filter(|f| f.from == e).filter_map(|f| if let Ok(Frame::GoAway { last, code, .. }) = &f.frame { Some((f.t_w0, *last, *code)) } else { None }).collect();
    for w in mine.windows(2) {
        if w[1].1 > w[0].1 {
            out.fail("C15", "goaway/monotone", "C15/last-stream-id-increases", format!("{} sent GOAWAY(last={}) after GOAWAY(last={})", e.name(), w[1].1, w[0].1));
        }
    }
    if e == Side::Server {
        let accepted: Vec<(u64, u32)> = rr.run.events.iter().filter(|ev| ev.side == e).filter_map(|ev| if let Api::Accepted { stream } = &ev.api { Some((ev.step, *stream)) } else { None }).collect();
        for (t, last, _) in &mine {
            if let Some((_, s)) = accepted.iter().filter(|(ta, _)| ta < t).max_by_key(|x| x.1) {
                if last < s {
                    out.fail("C15", "goaway/covers-accepted", "C15/last-stream-id-below-accepted-stream", format!("server sent GOAWAY(last={}) although stream {} had already been handed to the application", last, s));
                }
            }
        }
        // after the final GOAWAY(N) nothing above N is surfaced
        if let Some((t, last, _)) = mine.last() {
            for (ta, s) in &accepted {
                if ta > t && s > last {
                    out.fail("C15", "goaway/no-new-streams", "C15/stream-above-last-id-surfaced-after-goaway", format!("stream {} was handed to the application after GOAWAY(last={})", s, last));
                }
            }
        }
        // graceful shutdown sequence
        let graceful = case.base.ops.iter().any(|o| matches!(o.cmd, ConnCmd::GracefulShutdown));
        let abrupt = case.base.ops.iter().find_map(|o| if let ConnCmd::AbruptShutdown(c) = o.cmd { Some(c) } else { None });
        let op_done = rr.run.events.iter().any(|ev| matches!(&ev.api, Api::ConnOp { op } if op.contains("shutdown")));
        if graceful && op_done && rr.run.panic.is_none() {
            out.label("graceful-shutdown");
            out.nontrivial = true;
            match mine.first() {
                Some((_, last, 0)) if *last == 0x7fff_ffff => {}
                Some((_, last, code)) => {
                    if mine.len() == 1 && *code == 0 {
                        // a single GOAWAY with the final id is acceptable only if no stream could be in flight
                        out.label("single-goaway");
                    } else {
                        out.fail("C15", "graceful/first-goaway", "C15/graceful-first-goaway-not-max-id", format!("first GOAWAY of a graceful shutdown carries last={} code={}", last, code));
                    }
                }
                None => out.fail("C15", "graceful/no-goaway", "C15/graceful-shutdown-sends-no-goaway", "graceful_shutdown() was called but no GOAWAY was written".to_string()),
            }
            // the shutdown PING's acknowledgement was delivered ⇒ a second GOAWAY with the real id follows and
            // the connection drains and completes
            let shutdown_ping = tap.frames.iter().filter(|f| f.from == e).find_map(|f| if let Ok(Frame::Ping { ack: false, data }) = &f.frame { if data[0] != 0x3b || true { Some((*data, f.t_w0)) } else { None } } else { None });
            let _ = shutdown_ping;
            let pings_out: Vec<[u8; 8]> = tap.frames.iter().filter(|f| f.from == e).filter_map(|f| if let Ok(Frame::Ping { ack: false, data }) = &f.frame { Some(*data) } else { None }).collect();
            let acks_in: Vec<[u8; 8]> = tap.frames.iter().filter(|f| f.from != e && f.t_d.is_some()).filter_map(|f| if let Ok(Frame::Ping { ack: true, data }) = &f.frame { Some(*data) } else { None }).collect();
            let all_acked = !pings_out.is_empty() && pings_out.iter().all(|p| acks_in.contains(p));
            if all_acked && rr.run.end == RunEnd::Quiescent {
                if mine.len() < 2 && mine.first().map(|m| m.1 == 0x7fff_ffff).unwrap_or(false) {
                    out.fail("C15", "graceful/second-goaway", "C15/graceful-shutdown-never-sends-final-goaway", format!("every PING the server sent was acknowledged, yet after GOAWAY(2^31-1) no GOAWAY with the real last-stream-id followed (GOAWAYs: {:?})", mine));
                } else {
                    let done = rr.run.events.iter().any(|ev| ev.side == e && matches!(&ev.api, Api::ConnDone { .. }));
                    let streams_done = rr.obs.script_done;
                    if !done && streams_done {
                        out.fail("C15", "graceful/completes", "C15/graceful-shutdown-never-completes", "all in-flight streams finished and the final GOAWAY was sent, but the connection future did not complete".to_string());
                    }
                }
            }
        }
        if let Some(code) = abrupt {
            if op_done {
                out.label("abrupt-shutdown");
                out.nontrivial = true;
                if !mine.iter().any(|m| m.2 == code) {
                    out.fail("C15", "abrupt/goaway", "C15/abrupt-shutdown-goaway-code", format!("abrupt_shutdown({}) but GOAWAYs on the wire are {:?}", code, mine));
                }
            }
        }
    }
    // ---- client receiving GOAWAY
    if e == Side::Client {
        let inj = match &case.inject {
            Some(i) => i,
            None => return,
        };
        let code = case.probe_stream;
        let last_id = inj.stream;
        let goaway_delivered = tap.frames.iter().filter(|f| f.from != e && f.t_d.is_some()).filter(|f| matches!(&f.frame, Ok(Frame::GoAway { last, .. }) if *last == last_id)).count() > 0;
        if !goaway_delivered || rr.run.panic.is_some() {
            return;
        }
        out.label("goaway-delivered");
        let (sent, recv) = views(&rr.run.events);
        // streams above the cut that were on the wire must fail with the peer's reason
        let mut above = 0;
        let mut below = 0;
        for ((key, from), s) in &sent {
            if *from != Side::Client || s.stream == 0 {
                continue;
            }
            if s.stream > last_id {
                above += 1;
                if let Some(r) = recv.get(&(*key, Side::Server)) {
                    if r.heads.iter().any(|h| h.0 == "response") {
                        out.fail("C15", "recv-goaway/above-cut", "C15/stream-above-last-id-gets-a-response", format!("stream {} (key {}) is above the peer's last-stream-id {} yet a response was delivered", s.stream, key, last_id));
                    }
                    if let Some((op, err)) = &r.err {
                        if err.is_go_away && err.is_remote && err.reason != Some(code) {
                            out.fail("C15", "recv-goaway/reason", "C15/goaway-reason-not-intact", format!("stream {} {}: go-away error reports reason {:?}, the peer's GOAWAY carried {}", s.stream, op, err.reason, code));
                        }
                    }
                }
            } else {
                below += 1;
            }
        }
        if above > 0 && below > 0 {
            out.nontrivial = true;
            out.label("streams-on-both-sides-of-cut");
        } else if above > 0 || below > 0 {
            out.nontrivial = true;
        }
        // streams at or below the cut complete (the peer script answers them): reported through must_deliver by
        // the generic oracle under C15
        // no new stream is opened after the GOAWAY was processed (barrier acknowledged)
        let barrier_after = rr.obs.barriers_done.iter().copied().filter(|b| rr.obs.marks.iter().any(|m| m.0 == "inject" && *b > m.1)).min();
        if let Some(tb) = barrier_after {
            for f in tap.frames.iter().filter(|f| f.from == e && f.t_w0 > tb + 1) {
                if let Ok(Frame::Headers { stream, .. }) = &f.frame {
                    let opened_before = tap.frames.iter().any(|g| g.from == e && g.t_w0 <= tb + 1 && g.raw.stream == *stream);
                    if !opened_before {
                        out.fail("C15", "recv-goaway/new-stream", "C15/new-stream-opened-after-goaway", format!("client opened stream {} after it had processed the peer's GOAWAY (PING barrier acknowledged)", stream));
                    }
                }
            }
        }
        // the connection result carries the peer's code and debug data
        if let Some(ev) = rr.run.events.iter().find(|ev| ev.side == e && matches!(&ev.api, Api::ConnDone { .. })) {
            if let Api::ConnDone { result } = &ev.api {
                match result {
                    Ok(()) => {
                        if code != 0 {
                            out.fail("C15", "recv-goaway/result", "C15/connection-result-hides-goaway-error", format!("peer sent GOAWAY({}) but the client connection future returned Ok(())", code));
                        }
                    }
                    Err(err) => {
                        if err.is_go_away && err.is_remote {
                            if err.reason != Some(code) {
                                out.fail("C15", "recv-goaway/result-code", "C15/connection-result-code-differs", format!("connection error reason {:?}, peer's GOAWAY carried {}", err.reason, code));
                            }
                            let dbg = tap.frames.iter().filter(|f| f.from != e).find_map(|f| if let Ok(Frame::GoAway { last, debug, .. }) = &f.frame { if *last == last_id { Some(debug.clone()) } else { None } } else { None }).unwrap_or_default();
                            if !dbg.is_empty() && !err.text.contains(&String::from_utf8_lossy(&dbg).to_string()) {
                                out.fail("C15", "recv-goaway/debug-data", "C15/connection-result-loses-debug-data", format!("peer's GOAWAY debug data {:?} not in the error display {:?}", String::from_utf8_lossy(&dbg), err.text));
                            }
                        }
                    }
                }
            }
        }
    }
}

pub struct ShutdownEngine {
    pub server: bool,
}

impl Engine for ShutdownEngine {
    type Case = RawCase;
    fn name(&self) -> &'static str {
        if self.server {
            "raw-shutdown-server"
        } else {
            "raw-goaway-client"
        }
    }
    fn tape_lens(&self) -> Vec<usize> {
        vec![200, 301, 242]
    }
    fn gen(&self, tapes: &[Vec<u32>]) -> RawCase {
        if self.server {
            gen_shutdown_server(tapes)
        } else {
            gen_goaway_client(tapes)
        }
    }
    fn rule(&self) -> String {
        "server: 1–5 requests in generated states + late requests racing a graceful or abrupt shutdown requested at a generated moment (optionally with a user PING outstanding), the reference peer acknowledges PINGs and finishes its streams; client: the peer sends GOAWAY(any last-stream-id, any 32-bit code, debug data, optionally preceded by GOAWAY(2^31-1)) after a generated number of requests, answers the streams at or below the cut, while the client issues late requests; non-trivial = a shutdown/GOAWAY took effect with at least one stream in flight".into()
    }
    fn shrink_iters(&self) -> u32 {
        400
    }
    fn run(&self, case: &RawCase) -> Outcome {
        let rr = run_raw(case);
        let an = analyse_raw(case, &rr);
        let mut out = Outcome::default();
        common_raw_oracles(case, &rr, &an, &mut out);
        if !self.server {
            // delivery demands (streams at or below the cut complete) via the generic oracle, with the
            // bookkeeping fields restored
            let mut c2 = case.clone();
            if let Some(i) = c2.inject.as_mut() {
                i.never_surface.clear();
            }
            check_c09(&c2, &rr, &an, &mut out);
            for v in out.violations.iter_mut() {
                if v.signature.ends_with("/valid-message-not-delivered") {
                    v.property = "C15".into();
                    v.signature = "C15/stream-below-last-id-does-not-complete".into();
                }
            }
        }
        check_c15(case, &rr, &an.tap, &mut out);
        check_peer_resets_surface(case.h2_side, &rr.run.events, &an.tap, &mut out);
        out.note = format!("{} wire frames, end={:?}, script_done={}", an.tap.frames.len(), rr.run.end, rr.obs.script_done);
        out
    }
}

// ------------------------------------------------------------ C03: receive windows, h2 server fed by the reference peer

/// Many uploads through tiny stream windows: each stream sends exactly its window, the application releases
/// everything, and the second half of every upload can only follow once the stream's WINDOW_UPDATE has arrived.
/// Hundreds of updates fall due together (the codec's write buffer fills while they are being queued), optionally
/// while the endpoint's writes are blocked for a while.
fn gen_flow_many(t: &mut Tape, tapes: &[Vec<u32>]) -> RawCase {
    let mut cfg = plain_cfg();
    // (DATA frames below 256 bytes count against h2's small-frame budget: the windows are at least that large)
    let w = *t.pick(&[256u32, 300, 512]);
    cfg.initial_window = Some(w);
    // all first halves together fit the connection window
    cfg.conn_window = Some(1 << 20);
    let max_n = (1_000_000 / w as usize).min(1400);
    let n = if t.chance(1, 3) { (max_n / 2) + t.below(max_n / 2) } else { 60 + t.below(340) };
    let blocked = t.bool();
    // (two barriers: the endpoint's connection-level WINDOW_UPDATE follows its first PING acknowledgement on the wire
    // and must have arrived before the peer stops reading, or the first halves do not fit)
    let mut script: Vec<PStep> = vec![PStep::Barrier, PStep::Barrier];
    if blocked {
        script.push(PStep::Reading(false));
    }
    let mut reqs: Vec<Req> = Vec::new();
    for k in 0..n {
        let id = 2 * k as u32 + 1;
        let mut r = default_req(id);
        r.req_reader = Reader::Eager;
        // (every request is answered at once with a small body: the answers compete with the updates for the
        // codec's write buffer)
        r.resp_delay = 0;
        r.resp.chunks = vec![Chunk { len: 20 + t.below(60), reserve: false, cuts: vec![], delay: 0, hold: 0 }];
        reqs.push(r);
        script.push(hdr(id, "POST", false));
        script.push(PStep::Data { stream: id, len: w as usize, pad: None, end_stream: false, force: false });
        if t.chance(1, 16) {
            script.push(PStep::Yield(1 + t.below(4)));
        }
    }
    script.push(PStep::Yield(20 + t.below(60)));
    if blocked {
        script.push(PStep::Reading(true));
    }
    script.push(PStep::Mark("second-halves".into()));
    for k in 0..n {
        let id = 2 * k as u32 + 1;
        script.push(PStep::Data { stream: id, len: w as usize, pad: None, end_stream: true, force: false });
    }
    script.push(PStep::Barrier);
    script.push(PStep::Yield(60));
    script.push(PStep::Barrier);
    let spec = RawSpec { peer_settings: vec![], script, grant: Grant::Eager, close_at_end: false };
    let b = base(t, tapes, cfg, reqs);
    RawCase { h2_side: Side::Server, base: b, spec, inject: None, probe_stream: 0, e_out_cap: if blocked { Some(256) } else if t.chance(1, 3) { Some(*t.pick(&[1000usize, 20000])) } else { None } }
}

pub fn gen_flow_server(tapes: &[Vec<u32>]) -> RawCase {
    let mut t = Tape::new(&tapes[0]);
    if t.chance(1, 40) {
        return gen_flow_many(&mut t, tapes);
    }
    let mut cfg = plain_cfg();
    if t.chance(1, 2) {
        cfg.initial_window = Some(*t.pick(&[1000u32, 20000, 65535, 100_000]));
    }
    if t.chance(1, 2) {
        cfg.conn_window = Some(*t.pick(&[100_000u32, 1 << 20]));
    }
    if t.chance(1, 4) {
        cfg.max_concurrent = Some(*t.pick(&[1u32, 2]));
    }
    cfg.reset_dur_zero = t.chance(1, 3);
    let mut script: Vec<PStep> = vec![PStep::Barrier];
    let mut reqs: Vec<Req> = Vec::new();
    let n = 1 + t.below(5);
    let mut open: Vec<u32> = Vec::new();
    for k in 0..n {
        let id = 2 * k as u32 + 1;
        let mut r = default_req(id);
        r.req_reader = match t.weighted(&[3, 2, 2]) {
            0 => Reader::Eager,
            1 => Reader::Deferred(1 + t.below(20)),
            _ => Reader::DropAfter(*t.pick(&[0usize, 1, 100, 5000])),
        };
        r.resp_delay = *t.pick(&[0usize, 0, 10, 200]);
        if t.chance(1, 5) {
            // the application resets the stream; the peer keeps sending for a while (legal race)
            r.resp.end = EndKind::Reset { after: 0, code: 8 };
            r.resp.chunks.clear();
        }
        reqs.push(r);
        script.push(hdr(id, "POST", false));
        open.push(id);
    }
    // interleaved DATA
    let nd = 2 + t.below(14);
    for _ in 0..nd {
        if open.is_empty() {
            break;
        }
        let idx = t.below(open.len());
        let id = open[idx];
        let pad = if t.chance(1, 3) { Some(*t.pick(&[0u8, 1, 50, 255])) } else { None };
        let len = match t.weighted(&[3, 3, 2]) {
            0 => 0,
            1 => 1 + t.below(300),
            _ => *t.pick(&[1000usize, 5000, 16384, 30000, 70000]),
        };
        match t.weighted(&[8, 2, 1]) {
            0 => script.push(PStep::Data { stream: id, len, pad, end_stream: false, force: false }),
            1 => {
                script.push(PStep::Data { stream: id, len, pad, end_stream: true, force: false });
                open.remove(idx);
            }
            _ => {
                script.push(fr(Frame::Rst { stream: id, code: 8 }));
                open.remove(idx);
            }
        }
        if t.chance(1, 4) {
            script.push(PStep::Yield(1 + t.below(10)));
        }
    }
    for id in open {
        script.push(PStep::Data { stream: id, len: 0, pad: None, end_stream: true, force: false });
    }
    script.push(PStep::Barrier);
    script.push(PStep::Yield(60));
    script.push(PStep::Barrier);
    let spec = RawSpec { peer_settings: vec![], script, grant: Grant::Eager, close_at_end: false };
    let mut b = base(&mut t, tapes, cfg, reqs);
    let nops = if t.bool() { 0 } else { 1 + t.below(2) };
    for _ in 0..nops {
        let cmd = if t.bool() { ConnCmd::SetTargetWindow(*t.pick(&[65535u32, 70000, 200_000, 1 << 20])) } else { ConnCmd::SetInitialWindow(*t.pick(&[500u32, 10000, 65535, 200_000])) };
        b.ops.push(ConnOp { side: Side::Server, after_events: t.below(25), cmd, gap: 0 });
    }
    RawCase { h2_side: Side::Server, base: b, spec, inject: None, probe_stream: 0, e_out_cap: None }
}

pub fn raw_c03(case: &RawCase, rr: &RawRun, tap: &Tap, out: &mut Outcome) {
    use crate::oracles2::{check_c03, C03Ctx};
    let sides = [case.h2_side];
    let cfg = if case.h2_side == Side::Server { &case.base.scfg } else { &case.base.ccfg };
    let ct = cfg.conn_window.unwrap_or(65535);
    let iw = cfg.initial_window.unwrap_or(65535);
    check_c03(&C03Ctx { tap, events: &rr.run.events, samples: &rr.run.samples, final_stats: &rr.run.stats, h2_sides: &sides, conn_target: [ct, ct], initial_window: [iw, iw] }, out);
}

/// At quiescence of a live connection no receive window may stay exhausted while the application holds nothing:
/// whatever it released must have been advertised again (else the sender is blocked for good — capacity leaked).
/// Judged only without local window reconfiguration (the initial window in force is then the configured one).
pub fn check_exhausted_windows(case: &RawCase, rr: &RawRun, tap: &Tap, out: &mut Outcome) {
    check_exhausted_side(case.h2_side, &case.base, &rr.run, tap, out)
}

pub fn check_exhausted_side(e: Side, base: &PairCase, run: &PairRun, tap: &Tap, out: &mut Outcome) {
    struct R<'a> {
        run: &'a PairRun,
    }
    let rr = R { run };
    if base.ops.iter().any(|o| matches!(o.cmd, ConnCmd::SetInitialWindow(_) | ConnCmd::SetTargetWindow(_) | ConnCmd::GracefulShutdown | ConnCmd::AbruptShutdown(_) | ConnCmd::DropConnection)) || base.fault.is_some() || rr.run.end != RunEnd::Quiescent || rr.run.panic.is_some() {
        return;
    }
    if rr.run.events.iter().any(|ev| matches!(&ev.api, Api::ConnDone { .. }) || matches!(&ev.api, Api::ConnOp { op } if op.starts_with("drop(Connection)"))) {
        return;
    }
    if tap.frames.iter().any(|f| matches!(&f.frame, Ok(Frame::GoAway { .. }))) {
        return;
    }
    // everything the endpoint wrote has been taken by its peer: an endpoint whose writes are blocked cannot advertise
    {
        let p = if e == Side::Server { run.wire.s2c.borrow() } else { run.wire.c2s.borrow() };
        if p.delivered < p.written.len() {
            return;
        }
    }
    let cfg = if e == Side::Server { &base.scfg } else { &base.ccfg };
    let iw = cfg.initial_window.unwrap_or(65535) as i64;
    // per stream: flow bytes delivered, increments advertised, ended?
    let mut flow: std::collections::BTreeMap<u32, (i64, i64, bool, i64)> = std::collections::BTreeMap::new();
    let mut conn = (0i64, 0i64);
    for f in &tap.frames {
        match (&f.frame, f.from == e) {
            (Ok(fr @ Frame::Data { stream, end_stream, data, .. }), false) if f.t_d.is_some() => {
                let x = flow.entry(*stream).or_insert((0, 0, false, 0));
                x.0 += fr.flow_len() as i64;
                x.3 += data.len() as i64;
                x.2 |= *end_stream;
                conn.0 += fr.flow_len() as i64;
            }
            (Ok(Frame::Rst { stream, .. }), _) => {
                flow.entry(*stream).or_insert((0, 0, false, 0)).2 = true;
            }
            // (trailers, or a head that ends the stream)
            (Ok(Frame::Headers { stream, end_stream: true, .. }), false) => {
                flow.entry(*stream).or_insert((0, 0, false, 0)).2 = true;
            }
            (Ok(Frame::WinUp { stream: 0, inc, .. }), true) => conn.1 += *inc as i64,
            (Ok(Frame::WinUp { stream, inc, .. }), true) => flow.entry(*stream).or_insert((0, 0, false, 0)).1 += *inc as i64,
            _ => {}
        }
    }
    // released by the application, per stream (keys of RAW servers: x-id = stream id, default handlers 9000 + id)
    let mut key_stream: std::collections::HashMap<u32, u32> = std::collections::HashMap::new();
    for ev in rr.run.events.iter().filter(|ev| ev.side == e) {
        if let Api::RecvHead { stream, .. } = &ev.api {
            key_stream.insert(ev.key, *stream);
        }
    }
    let mut released: std::collections::HashMap<u32, i64> = std::collections::HashMap::new();
    let mut reader_gone: std::collections::HashSet<u32> = std::collections::HashSet::new();
    for ev in rr.run.events.iter().filter(|ev| ev.side == e) {
        let s = match key_stream.get(&ev.key) {
            Some(s) => *s,
            None => continue,
        };
        match &ev.api {
            Api::Released { n, err: None } => *released.entry(s).or_insert(0) += *n as i64,
            Api::DroppedRecv | Api::RecvErr { .. } | Api::SentReset { .. } | Api::DroppedSend => {
                reader_gone.insert(s);
            }
            _ => {}
        }
    }
    let mut stuck: Vec<u32> = Vec::new();
    for (s, (d, wu, ended, data)) in &flow {
        if *ended || reader_gone.contains(s) || *d == 0 {
            continue;
        }
        let peer_view = iw + wu - d;
        let held = data - released.get(s).copied().unwrap_or(0);
        if peer_view <= 0 && held <= 0 {
            stuck.push(*s);
        }
    }
    if !stuck.is_empty() {
        out.fail(
            "C03",
            "leak/exhausted-window",
            "C03/stream-window-stays-exhausted-although-everything-was-released",
            format!("{} at quiescence: on streams {:?}{} the peer has used up the whole receive window ({} bytes), the application has read and released every byte, the stream is still open — and no WINDOW_UPDATE was sent: the released capacity is never advertised again", e.name(), &stuck[..stuck.len().min(8)], if stuck.len() > 8 { format!(" (+{} more)", stuck.len() - 8) } else { String::new() }, iw),
        );
    }
    let _ = conn;
}

/// C01 on a RAW server: what the application reads from each upload is what the reference peer put on the wire —
/// byte-exact by position (padding stripped, nothing inserted), never more than was sent, and a clean end only
/// after all of it.
pub fn raw_c01(case: &RawCase, rr: &RawRun, tap: &Tap, out: &mut Outcome) {
    let e = case.h2_side;
    if e != Side::Server {
        return;
    }
    let (_, recv) = crate::oracles::views(&rr.run.events);
    for ((key, from), r) in &recv {
        if *from != Side::Client || r.stream == 0 || *key != r.stream {
            continue;
        }
        let sid = r.stream;
        let mut sent = 0usize;
        let mut ended = false;
        let mut reset = false;
        for f in tap.frames.iter().filter(|f| f.from != e && f.raw.stream == sid && f.t_d.is_some()) {
            match &f.frame {
                Ok(Frame::Data { data, end_stream, .. }) => {
                    sent += data.len();
                    ended |= *end_stream;
                }
                Ok(Frame::Headers { end_stream: true, .. }) => ended = true,
                Ok(Frame::Rst { .. }) => reset = true,
                _ => {}
            }
        }
        if !r.content_ok {
            out.fail("C01", "fidelity/content", "C01/body-bytes-modified", format!("server, upload on stream {}: the bytes handed to the application differ from the bytes of the peer's DATA payloads at the same offsets", sid));
        }
        if r.bytes > sent {
            out.fail("C01", "fidelity/more-bytes", "C01/more-bytes-delivered-than-sent", format!("server, upload on stream {}: {} bytes delivered, the peer's DATA payloads add up to {}", sid, r.bytes, sent));
        }
        if r.clean_end.is_some() && ended && !reset && r.bytes != sent {
            out.fail("C01", "fidelity/short-clean-end", "C01/clean-end-with-missing-bytes", format!("server, upload on stream {}: clean end after {} bytes, the peer sent {}", sid, r.bytes, sent));
        }
    }
}

/// C17 on a RAW endpoint: an RST_STREAM the peer sends for a stream whose body the application is still reading
/// surfaces on that read with the peer's code.
pub fn check_peer_resets_surface(e: Side, events: &[ApiEvent], tap: &Tap, out: &mut Outcome) {
    if events.iter().any(|ev| ev.side == e && matches!(&ev.api, Api::ConnDone { result: Err(_) })) {
        return;
    }
    for f in tap.frames.iter().filter(|f| f.from != e) {
        let (sid, code, td) = match (&f.frame, f.t_d) {
            (Ok(Frame::Rst { stream, code }), Some(td)) => (*stream, *code, td),
            _ => continue,
        };
        // the application's view of that stream
        let key = match events.iter().find(|ev| ev.side == e && matches!(&ev.api, Api::RecvHead { stream, eos: false, .. } if *stream == sid)) {
            Some(ev) => ev.key,
            None => continue,
        };
        let mine: Vec<&ApiEvent> = events.iter().filter(|ev| ev.side == e && ev.key == key).collect();
        // still reading when the RST_STREAM arrived? (no end, no error, no drop before it; and the endpoint had not
        // reset the stream itself)
        let done_before = mine.iter().any(|ev| ev.step <= td && matches!(&ev.api, Api::RecvDataEnd | Api::RecvErr { .. } | Api::DroppedRecv | Api::SentReset { .. } | Api::DroppedSend));
        let own_rst_before = tap.frames.iter().any(|g| g.from == e && g.t_w0 <= td && matches!(&g.frame, Ok(Frame::Rst { stream, .. }) if *stream == sid));
        if done_before || own_rst_before {
            continue;
        }
        out.label("peer-reset-on-stream-being-read");
        let surfaced = mine.iter().any(|ev| matches!(&ev.api, Api::RecvErr { err, .. } if err.is_reset && err.reason == Some(code)));
        if !surfaced {
            let got: Vec<String> = mine.iter().filter_map(|ev| if let Api::RecvErr { op, err } = &ev.api { Some(format!("{}: {}", op, err.text)) } else { None }).collect();
            out.fail(
                "C17",
                "error/peer-reset-lost",
                "C17/peer-reset-never-reaches-the-reader",
                format!("{}: the peer's RST_STREAM({}, code {:#x}) was delivered at step {} while the application was reading the body of that stream, but no read ever failed with that code (errors seen: {:?})", e.name(), sid, code, td, got),
            );
        }
    }
}

pub struct FlowEngine;

impl Engine for FlowEngine {
    type Case = RawCase;
    fn name(&self) -> &'static str {
        "raw-flow-server"
    }
    fn tape_lens(&self) -> Vec<usize> {
        vec![220, 301, 242]
    }
    fn gen(&self, tapes: &[Vec<u32>]) -> RawCase {
        gen_flow_server(tapes)
    }
    fn rule(&self) -> String {
        "h2 server receiving 1–5 uploads from the reference peer: DATA frames padded 0–255 / empty / padding-only, interleaved across streams, streams ended by END_STREAM or peer RST_STREAM, application readers eager / deferred / dropping the RecvStream after n bytes / resetting the stream while the peer keeps sending, refused streams (limit 1–2), local window reconfiguration (initial stream window, target connection window) at generated moments; oracle: sampled bookkeeping probe (available + in-flight = target; in-flight ≤ what the application still holds), advertised windows from the tap never above the configured sizes, wire-computed window = endpoint's belief; non-trivial = a discard path or padding or a reconfiguration occurred".into()
    }
    fn shrink_iters(&self) -> u32 {
        400
    }
    fn run(&self, case: &RawCase) -> Outcome {
        let t0 = std::time::Instant::now();
        let rr = run_raw(case);
        let t1 = t0.elapsed();
        let an = analyse_raw(case, &rr);
        let t2 = t0.elapsed();
        let mut out = Outcome::default();
        common_raw_oracles(case, &rr, &an, &mut out);
        let t3 = t0.elapsed();
        raw_c03(case, &rr, &an.tap, &mut out);
        let t4 = t0.elapsed();
        check_exhausted_windows(case, &rr, &an.tap, &mut out);
        raw_c01(case, &rr, &an.tap, &mut out);
        if std::env::var("VERIF_TIMING").is_ok() {
            eprintln!("timing: sim {:?} analyse {:?} common {:?} c03 {:?} exhausted {:?}", t1, t2 - t1, t3 - t2, t4 - t3, t0.elapsed() - t4);
        }
        let padded = an.tap.frames.iter().any(|f| f.from != case.h2_side && matches!(&f.frame, Ok(Frame::Data { pad: Some(_), .. })));
        let discard = rr.run.events.iter().any(|e| matches!(&e.api, Api::DroppedRecv | Api::SentReset { .. })) || an.tap.frames.iter().any(|f| matches!(&f.frame, Ok(Frame::Rst { .. })));
        if padded {
            out.label("padded-data");
        }
        if discard {
            out.label("discard-path");
        }
        if !case.base.ops.is_empty() {
            out.label("window-reconfigured");
        }
        let many = case.base.reqs.len() > 50;
        if many {
            out.label(if rr.obs.script_done { "many-small-uploads:completed" } else { "many-small-uploads:not-completed" });
        }
        out.nontrivial = padded || discard || !case.base.ops.is_empty() || many;
        out.note = format!("{} wire frames, end={:?}, script_done={}", an.tap.frames.len(), rr.run.end, rr.obs.script_done);
        out
    }
}

// ------------------------------------------------------------ C16: the send-capacity API

pub fn gen_cap_server(tapes: &[Vec<u32>]) -> RawCase {
    let mut t = Tape::new(&tapes[0]);
    let mut cfg = plain_cfg();
    if t.chance(1, 2) {
        cfg.max_send_buffer = Some(*t.pick(&[1usize, 100, 1000, 16384, 1 << 20]));
    }
    let k = 1 + t.below(4);
    let return_variant = k >= 2 && t.chance(2, 5);
    let settings_variant = return_variant && t.chance(1, 3);
    let peer_iw = if return_variant { 1 << 20 } else { *t.pick(&[65535u32, 1000, 100_000, 1 << 20, 100, 0x7fff_ffff]) };
    // the peer may advertise an initial window of zero and open each stream's window by WINDOW_UPDATE
    let zero_start = !return_variant && t.chance(1, 6);
    let mut script: Vec<PStep> = vec![PStep::Barrier];
    for i in 0..k {
        script.push(hdr(2 * i as u32 + 1, "GET", true));
    }
    // the peer may lower its initial window after the requests have arrived and before the application answers them
    // (streams whose send half has not started yet)
    let mut start_delay = 0usize;
    if !return_variant && !zero_start && t.chance(1, 5) {
        start_delay = 60 + t.below(60);
        script.push(PStep::Barrier);
        script.push(fr(Frame::Settings { ack: false, params: vec![(4, *t.pick(&[100u32, 1000]))] }));
    }
    if zero_start {
        for i in 0..k {
            script.push(fr(Frame::WinUp { stream: 2 * i as u32 + 1, inc: peer_iw, inc_r: false }));
        }
    }
    script.push(PStep::Barrier);
    let mut ops: Vec<CapOp> = Vec::new();
    let mut grant = *t.pick(&[Grant::Eager, Grant::Threshold(10000), Grant::Drip(500)]);
    let mut item = "truth";
    let mut blind_waiter: Option<(usize, usize)> = None;
    let mut out_cap: Option<usize> = None;
    if settings_variant {
        // no connection-level grant ever; several streams hold assigned capacity when the peer lowers (and later
        // restores) SETTINGS_INITIAL_WINDOW_SIZE: what is taken from them must come back to the pool
        grant = Grant::Never;
        cfg.max_send_buffer = None;
        item = "return:settings-lowered";
        let share = 65535 / k;
        for s in 0..k {
            ops.push(CapOp::Reserve { s, n: 1 + t.below(share) });
        }
        for s in 0..k {
            ops.push(CapOp::WaitCap { s });
        }
        if t.bool() {
            let s = t.below(k);
            ops.push(CapOp::Send { s, n: 1 + t.below(2000) });
        }
        ops.push(CapOp::Census);
        ops.push(CapOp::Yield(600));
        script.push(PStep::Yield(250));
        script.push(PStep::Frame { f: Frame::Settings { ack: false, params: vec![(4, *t.pick(&[0u32, 1, 100, 5000]))] }, extra_flags: 0, r_bit: false });
        script.push(PStep::Yield(80));
        if t.chance(1, 3) {
            script.push(PStep::Frame { f: Frame::Settings { ack: false, params: vec![(4, *t.pick(&[0u32, 10, 20000]))] }, extra_flags: 0, r_bit: false });
            script.push(PStep::Yield(60));
        }
        script.push(PStep::Frame { f: Frame::Settings { ack: false, params: vec![(4, 1 << 20)] }, extra_flags: 0, r_bit: false });
        script.push(PStep::Yield(900));
        // conservation probe: everybody asks for far more than there is
        for s in 0..k {
            ops.push(CapOp::Reserve { s, n: 1 << 20 });
        }
        ops.push(CapOp::Yield(300));
        ops.push(CapOp::CensusFinal);
    } else if return_variant && t.chance(1, 4) {
        // a stream reserves far more than it writes, writes more than the connection window can carry, and ends with
        // trailers while the tail of its body still waits for window; a connection-level grant then arrives: the
        // stream may take what its body needs and not a byte more
        grant = Grant::Never;
        cfg.max_send_buffer = Some(1 << 20);
        item = "return:trailers-with-blocked-body";
        let (a, b) = (0usize, 1usize);
        let body = 66000 + t.below(20000);
        ops.push(CapOp::Reserve { s: a, n: body + 1000 + t.below(40000) });
        ops.push(CapOp::WaitCap { s: a });
        ops.push(CapOp::Send { s: a, n: body });
        ops.push(CapOp::Reserve { s: b, n: 1 + t.below(30000) });
        ops.push(CapOp::Yield(t.below(6)));
        ops.push(CapOp::EndTrailers { s: a });
        ops.push(CapOp::Yield(400));
        ops.push(CapOp::WaitCap { s: b });
        ops.push(CapOp::SendCap { s: b });
        ops.push(CapOp::Reserve { s: b, n: 1 << 20 });
        ops.push(CapOp::Yield(300));
        ops.push(CapOp::CensusFinal);
        script.push(PStep::Yield(150));
        // (more than the blocked tail of A's body needs, so that something is left for B)
        script.push(PStep::Frame { f: Frame::WinUp { stream: 0, inc: (body - 65535 + 1000 + t.below(30000)) as u32, inc_r: false }, extra_flags: 0, r_bit: false });
        script.push(PStep::Yield(1200));
    } else if return_variant && t.chance(1, 4) {
        // capacity limited by max_send_buffer_size: part of it is used, and the producer waits for it to come back
        // when the buffer drains (windows are not the limit)
        let m = *t.pick(&[100usize, 1000, 16384]);
        cfg.max_send_buffer = Some(m);
        grant = Grant::Eager;
        item = "buffer-limited:wait-for-increase";
        let a = 0usize;
        ops.push(CapOp::Reserve { s: a, n: 5 * m + t.below(20000) });
        ops.push(CapOp::WaitCap { s: a });
        let rounds = 1 + t.below(4);
        for _ in 0..rounds {
            let j = 1 + t.below(m - 1);
            ops.push(CapOp::Send { s: a, n: j });
            if t.bool() {
                ops.push(CapOp::Yield(t.below(3)));
            }
            // the reservation exceeds everything written, so the full buffer allowance m comes back once the
            // written bytes drain: capacity() must rise above m - j again
            ops.push(CapOp::WaitIncrease { s: a, above: m - j });
        }
        ops.push(CapOp::Census);
        script.push(PStep::Yield(600));
    } else if return_variant && t.chance(1, 5) {
        // the peer resets a stream that holds the whole connection window for body data it could not write yet (the
        // endpoint's writes are blocked) and that is still queued for more: everything it held goes to the other stream
        grant = Grant::Never;
        cfg.max_send_buffer = Some(1 << 20);
        item = "return:peer-reset-with-unwritten-data";
        out_cap = Some(*t.pick(&[64usize, 256, 2000]));
        let (a, b) = (0usize, 1usize);
        ops.push(CapOp::Reserve { s: a, n: 90000 + t.below(20000) });
        ops.push(CapOp::WaitCap { s: a });
        ops.push(CapOp::Send { s: a, n: 70000 + t.below(20000) });
        ops.push(CapOp::Reserve { s: b, n: 1 + t.below(30000) });
        ops.push(CapOp::Yield(300));
        ops.push(CapOp::WaitCap { s: b });
        ops.push(CapOp::SendCap { s: b });
        ops.push(CapOp::Census);
        ops.push(CapOp::Reserve { s: b, n: 1 << 20 });
        ops.push(CapOp::Yield(300));
        ops.push(CapOp::CensusFinal);
        // (the peer stops reading before the application starts: inserted right after the requests)
        script.push(PStep::Reading(false));
        script.push(PStep::Yield(60 + t.below(60)));
        script.push(fr(Frame::Rst { stream: 1, code: 8 }));
        script.push(PStep::Yield(10 + t.below(40)));
        script.push(PStep::Reading(true));
        script.push(PStep::Yield(900));
    } else if return_variant {
        // nothing is ever granted: the 65535 bytes of connection window are all there is
        grant = Grant::Never;
        cfg.max_send_buffer = None;
        let (a, b) = (0usize, 1usize);
        ops.push(CapOp::Reserve { s: a, n: 65535 + t.below(3) * 1000 });
        ops.push(CapOp::WaitCap { s: a });
        if t.bool() {
            ops.push(CapOp::Census);
        }
        let nb = 1 + t.below(30000);
        // B either asks for capacity and waits, or has written its data blindly (buffered: A holds the whole window)
        let blind_b = t.chance(1, 3);
        if blind_b {
            ops.push(CapOp::Send { s: b, n: nb });
        } else {
            ops.push(CapOp::Reserve { s: b, n: nb });
        }
        ops.push(CapOp::Yield(t.below(5)));
        // A may have data buffered (flushed or not) when it gives its capacity back
        let presend = t.chance(1, 2);
        let mut sent_a = 0usize;
        if presend {
            sent_a = 1 + t.below(if blind_b { 30000 } else { 60000 });
            ops.push(CapOp::Send { s: a, n: sent_a });
            if t.bool() {
                ops.push(CapOp::Yield(t.below(4)));
            }
        }
        match t.below(5) {
            0 => {
                ops.push(CapOp::Reserve { s: a, n: 0 });
                item = "return:lower-to-zero";
            }
            1 => {
                // (a reservation counts on top of what is buffered: leave room for B)
                let room = 65535usize.saturating_sub(sent_a + nb);
                ops.push(CapOp::Reserve { s: a, n: t.below(room.min(20000) + 1) });
                item = "return:lower";
            }
            2 => {
                if t.bool() {
                    ops.push(CapOp::End { s: a });
                    item = "return:end-stream";
                } else {
                    ops.push(CapOp::EndTrailers { s: a });
                    item = "return:end-with-trailers";
                }
            }
            3 => {
                ops.push(CapOp::Reset { s: a, code: 8 });
                item = "return:reset";
            }
            _ => {
                ops.push(CapOp::Drop { s: a });
                item = "return:drop";
            }
        }
        if blind_b {
            // nothing else happens: the capacity A gave back must carry B's buffered data to the wire by itself
            blind_waiter = Some((b, nb));
            ops.push(CapOp::StopHere);
        } else {
            ops.push(CapOp::WaitCap { s: b });
            ops.push(CapOp::SendCap { s: b });
            ops.push(CapOp::Census);
            // conservation probe: B asks for far more than there is; what it is assigned (plus what A still holds) is
            // all the connection window that is not on the wire
            ops.push(CapOp::Reserve { s: b, n: 1 << 20 });
            ops.push(CapOp::Yield(300));
            ops.push(CapOp::CensusFinal);
        }
        script.push(PStep::Yield(900));
    } else {
        // phase 1: anything goes while the peer grants normally
        let n1 = t.below(14);
        for _ in 0..n1 {
            let s = t.below(k);
            ops.push(match t.weighted(&[4, 3, 2, 3, 1, 2]) {
                0 => CapOp::Reserve { s, n: *t.pick(&[0usize, 1, 100, 5000, 16384, 40000, 70000, 200_000]) },
                1 => CapOp::WaitCap { s },
                2 => CapOp::Send { s, n: *t.pick(&[1usize, 100, 5000, 20000, 70000]) },
                3 => CapOp::SendCap { s },
                4 => CapOp::Census,
                _ => CapOp::Yield(1 + t.below(10)),
            });
            // a sequential program must not wait on one stream while its other streams sit on assigned capacity
            // they do not use (a circular wait of its own making), nor wait without a reservation: before every
            // wait the other streams send what they hold and give up their reservations
            if let Some(CapOp::WaitCap { s }) = ops.last().cloned() {
                let n = ops.len();
                let mut pre: Vec<CapOp> = Vec::new();
                for o in 0..k {
                    if o != s {
                        pre.push(CapOp::SendCap { s: o });
                        pre.push(CapOp::Reserve { s: o, n: 0 });
                    }
                }
                pre.push(CapOp::Reserve { s, n: 1 + t.below(30000) });
                for (j, o) in pre.into_iter().enumerate() {
                    ops.insert(n - 1 + j, o);
                }
            }
        }
        // the peer freezes all grants while the program sleeps
        ops.push(CapOp::Yield(260));
        script.push(PStep::Yield(70));
        script.push(PStep::SetGrant(Grant::Never));
        script.push(PStep::Mark("frozen".into()));
        // phase 2: what capacity() says can be sent
        ops.push(CapOp::Census);
        for s in 0..k {
            if t.chance(3, 4) {
                ops.push(CapOp::SendCap { s });
            }
        }
        ops.push(CapOp::Yield(120));
        ops.push(CapOp::Census);
        script.push(PStep::Yield(700));
        script.push(PStep::Mark("thaw".into()));
        script.push(PStep::SetGrant(Grant::Eager));
    }
    for i in 0..k {
        script.push(PStep::WaitEnd(2 * i as u32 + 1));
    }
    script.push(PStep::Barrier);
    let spec = RawSpec { peer_settings: vec![(4, if zero_start { 0 } else { peer_iw })], script, grant, close_at_end: true };
    let mut b = base(&mut t, tapes, cfg, vec![]);
    b.cap = Some(CapProgram { streams: k, ops, start_delay });
    let inj = Inject { item: item.into(), state: format!("{}-streams", k), class: Class::Either, stream: 0, basis: "SendStream::{reserve_capacity, capacity, poll_capacity} documentation".into(), never_surface: vec![], must_deliver: vec![], must_deliver_streams: blind_waiter.map(|(sx, n)| vec![(2 * sx as u32 + 1, n)]).unwrap_or_default(), no_head: vec![], no_clean_end: vec![], prop: "C16".into(), wire_optional: true };
    RawCase { h2_side: Side::Server, base: b, spec, inject: Some(inj), probe_stream: 0, e_out_cap: out_cap }
}

pub fn check_c16(case: &RawCase, rr: &RawRun, tap: &Tap, out: &mut Outcome) {
    let e = case.h2_side;
    let item = case.inject.as_ref().map(|i| i.item.clone()).unwrap_or_default();
    out.label(format!("variant:{}", item));
    if rr.run.panic.is_some() {
        return;
    }
    // (non-zero) a capacity notification never reports zero
    for ev in rr.run.events.iter().filter(|ev| ev.side == e) {
        if let Api::Capacity { got: 0 } = &ev.api {
            out.fail("C16", "capacity/zero", "C16/poll_capacity-yields-zero", format!("poll_capacity on stream {} returned Some(Ok(0))", ev.key));
        }
    }
    // (pool) census: Σ capacity ≤ connection credit the peer has granted and E has not yet put on the wire
    let wu0: Vec<(u64, i64)> = tap.frames.iter().filter(|f| f.from != e).filter_map(|f| if let (Ok(Frame::WinUp { stream: 0, inc, .. }), Some(td)) = (&f.frame, f.t_d) { Some((td, *inc as i64)) } else { None }).collect();
    let data_w: Vec<(u64, i64)> = tap.frames.iter().filter(|f| f.from == e).filter_map(|f| if let Ok(Frame::Data { .. }) = &f.frame { Some((f.t_w, f.frame.as_ref().unwrap().flow_len() as i64)) } else { None }).collect();
    for ev in rr.run.events.iter().filter(|ev| ev.side == e) {
        if let Api::ConnOp { op } = &ev.api {
            if let Some(rest) = op.strip_prefix("census ") {
                let total: i64 = rest.split(|c: char| !c.is_ascii_digit()).filter(|x| !x.is_empty()).enumerate().filter(|(i, _)| i % 2 == 1).filter_map(|(_, x)| x.parse::<i64>().ok()).sum();
                let credit = 65535 + wu0.iter().filter(|x| x.0 <= ev.step).map(|x| x.1).sum::<i64>() - data_w.iter().filter(|x| x.0 <= ev.step).map(|x| x.1).sum::<i64>();
                out.label("census");
                if total > credit.max(0) {
                    out.fail("C16", "capacity/pool", "C16/assigned-capacity-exceeds-connection-window", format!("at step {} capacity() over all streams adds up to {} but the connection window the peer granted leaves only {} ({})", ev.step, total, credit, rest));
                }
            }
        }
    }
    // (conservation) final census: every open stream asks for far more than exists, nothing is granted at connection
    // level and the stream windows are huge — what the streams hold together is exactly the connection window not on the wire
    for ev in rr.run.events.iter().filter(|ev| ev.side == e) {
        if let Api::ConnOp { op } = &ev.api {
            if let Some(rest) = op.strip_prefix("census-final ") {
                let total: i64 = rest.split(|c: char| !c.is_ascii_digit()).filter(|x| !x.is_empty()).enumerate().filter(|(i, _)| i % 2 == 1).filter_map(|(_, x)| x.parse::<i64>().ok()).sum();
                let credit = 65535 + wu0.iter().filter(|x| x.0 <= ev.step).map(|x| x.1).sum::<i64>() - data_w.iter().filter(|x| x.0 <= ev.step).map(|x| x.1).sum::<i64>();
                // settled: whatever the live streams submitted is on the wire (buffered data is capacity in use),
                // and the peer delivered nothing for a while
                let mut sub: std::collections::HashMap<u32, i64> = std::collections::HashMap::new();
                let mut gone: std::collections::HashSet<u32> = std::collections::HashSet::new();
                for x in rr.run.events.iter().filter(|x| x.side == e && x.step <= ev.step && x.key != 0) {
                    match &x.api {
                        Api::SentData { len, .. } => *sub.entry(x.key).or_insert(0) += *len as i64,
                        Api::SentReset { .. } | Api::DroppedSend => {
                            gone.insert(x.key);
                        }
                        _ => {}
                    }
                }
                let flushed = sub.iter().filter(|(k, _)| !gone.contains(k)).all(|(k, v)| {
                    let w: i64 = tap.frames.iter().filter(|f| f.from == e && f.raw.stream == *k && f.t_w <= ev.step).filter_map(|f| if let Ok(Frame::Data { data, .. }) = &f.frame { Some(data.len() as i64) } else { None }).sum();
                    w == *v
                });
                let peer_quiet = tap.frames.iter().filter(|f| f.from != e).filter_map(|f| f.t_d).filter(|t| *t <= ev.step).max().unwrap_or(0) + 40 < ev.step;
                let peer_reset = tap.frames.iter().any(|f| f.from != e && matches!(&f.frame, Ok(Frame::Rst { .. })));
                if !flushed || !peer_quiet || peer_reset || rest == "[]" {
                    out.label("census-final-unsettled");
                    continue;
                }
                out.label("census-final");
                out.nontrivial = true;
                if total > credit {
                    out.fail("C16", "capacity/pool", "C16/assigned-capacity-exceeds-connection-window", format!("final census at step {}: {} assigned but only {} connection window left ({})", ev.step, total, credit, rest));
                } else if total < credit {
                    out.fail(
                        "C16",
                        "capacity/conservation",
                        format!("C16/capacity-lost/{}", item),
                        format!("variant {}: at step {} (connection settled, every open stream reserving 1 MiB, stream windows 1 MiB, every connection-level grant counted) the streams hold {} bytes of capacity together ({}) although {} bytes of the connection window are neither on the wire nor granted back: {} bytes of send capacity were lost", item, ev.step, total, rest, credit, credit - total),
                    );
                }
            }
        }
    }
    // (truth) capacity() read after the freeze and sent at once must reach the wire without any further grant
    let frozen = rr.obs.marks.iter().find(|m| m.0 == "frozen").map(|m| m.1);
    let thaw = rr.obs.marks.iter().find(|m| m.0 == "thaw").map(|m| m.1);
    if let Some(f) = frozen {
        let last_grant_delivered = tap.frames.iter().filter(|fr| fr.from != e && matches!(&fr.frame, Ok(Frame::WinUp { .. }) | Ok(Frame::Settings { ack: false, .. }))).filter_map(|fr| fr.t_d).filter(|t| thaw.map(|th| *t < th).unwrap_or(true)).max().unwrap_or(0);
        let _ = f;
        // per stream: position (bytes) that must be on the wire before the thaw
        let mut submitted: std::collections::HashMap<u32, u64> = std::collections::HashMap::new();
        let mut must: std::collections::HashMap<u32, (u64, u64, usize)> = std::collections::HashMap::new();
        let mut pending_cap: std::collections::HashMap<u32, (u64, usize)> = std::collections::HashMap::new();
        for ev in rr.run.events.iter().filter(|ev| ev.side == e && ev.key != 0) {
            match &ev.api {
                Api::ConnOp { op } if op.starts_with("capacity() = ") => {
                    let c: usize = op["capacity() = ".len()..].parse().unwrap_or(0);
                    pending_cap.insert(ev.key, (ev.step, c));
                }
                Api::SentData { len, .. } => {
                    let tot = submitted.entry(ev.key).or_insert(0);
                    *tot += *len as u64;
                    if let Some((t, c)) = pending_cap.remove(&ev.key) {
                        // all grants delivered before the probe (with margin), and before the thaw
                        if c > 0 && c == *len && t > last_grant_delivered + 8 && thaw.map(|th| t + 8 < th).unwrap_or(true) {
                            must.insert(ev.key, (*tot, t, c));
                        }
                    }
                }
                _ => {}
            }
        }
        for (sid, (pos, t, c)) in must {
            out.label("truth-probed");
            out.nontrivial = true;
            let deadline = thaw.unwrap_or(u64::MAX);
            let on_wire: u64 = tap.frames.iter().filter(|fr| fr.from == e && fr.raw.stream == sid && fr.t_w < deadline).filter_map(|fr| if let Ok(Frame::Data { data, .. }) = &fr.frame { Some(data.len() as u64) } else { None }).sum();
            // the stream may have been reset by the program afterwards: then nothing is demanded
            let reset_later = rr.run.events.iter().any(|ev| ev.side == e && ev.key == sid && matches!(&ev.api, Api::SentReset { .. } | Api::DroppedSend));
            if on_wire < pos && !reset_later {
                out.fail(
                    "C16",
                    "capacity/truth",
                    "C16/reported-capacity-not-usable",
                    format!("stream {}: capacity() said {} at step {} (no grant in flight, peer frozen) and exactly that much was sent, yet only {} of the {} bytes submitted so far reached the wire before the peer granted again", sid, c, t, on_wire, pos),
                );
            }
        }
    }
    // (return / wake) the program itself finishes: every wait for capacity was woken
    let done = rr.run.events.iter().any(|ev| matches!(&ev.api, Api::ConnOp { op } if op == "cap-app done"));
    let started = rr.run.events.iter().any(|ev| ev.side == e && matches!(&ev.api, Api::SentHead { .. }));
    // (the snapshot of unfinished tasks is taken at quiescence, before the diagnostic re-poll of every task: a program
    // that only finishes because of that re-poll was not woken by the library)
    let stuck = rr.run.unfinished.iter().any(|(_, g)| matches!(g, crate::sim::Group::ServerApp | crate::sim::Group::ClientApp));
    if started && (!done || stuck) && rr.run.end == RunEnd::Quiescent {
        let last = rr.run.events.iter().rev().find(|ev| ev.side == e).map(|ev| format!("{:?}", ev.api)).unwrap_or_default();
        let sig = if item.starts_with("return:") { format!("C16/capacity-not-returned-to-waiting-stream/{}", &item[7..]) } else { "C16/capacity-wait-never-woken".to_string() };
        out.fail("C16", "capacity/wake", sig, format!("variant {}: the capacity program is still waiting at quiescence (last event {}), completes_when_repolled={:?}", item, &last[..last.len().min(120)], rr.run.completed_when_repolled));
    }
    if item.starts_with("return:") && done {
        out.nontrivial = true;
        out.label("capacity-returned");
    }
    // (return / buffered waiter) a stream that had written its data blindly while another stream held the whole
    // connection window: once that stream has given its capacity back, the buffered data goes out — the program does
    // nothing more, so only the library can make that happen
    if let Some(inj) = &case.inject {
        for (sid, n) in &inj.must_deliver_streams {
            if !done || rr.run.end != RunEnd::Quiescent {
                continue;
            }
            out.label("buffered-waiter");
            let on_wire: usize = tap.frames.iter().filter(|fr| fr.from == e && fr.raw.stream == *sid).filter_map(|fr| if let Ok(Frame::Data { data, .. }) = &fr.frame { Some(data.len()) } else { None }).sum();
            let reset = tap.frames.iter().any(|fr| fr.raw.stream == *sid && matches!(&fr.frame, Ok(Frame::Rst { .. }))) || tap.frames.iter().any(|fr| matches!(&fr.frame, Ok(Frame::GoAway { .. })));
            if on_wire < *n && !reset {
                out.fail(
                    "C16",
                    "capacity/return",
                    format!("C16/returned-capacity-does-not-flush-buffered-data/{}", &item[7.min(item.len())..]),
                    format!("variant {}: stream {} had {} bytes buffered while another stream held the connection window; that stream gave its capacity back and the program went idle, yet only {} of the {} bytes reached the wire at quiescence", item, sid, n, on_wire, n),
                );
            }
        }
    }
}

pub struct CapEngine;

impl Engine for CapEngine {
    type Case = RawCase;
    fn name(&self) -> &'static str {
        "raw-capacity-server"
    }
    fn tape_lens(&self) -> Vec<usize> {
        vec![220, 301, 242]
    }
    fn gen(&self, tapes: &[Vec<u32>]) -> RawCase {
        gen_cap_server(tapes)
    }
    fn rule(&self) -> String {
        "h2 server whose application runs a generated sequential program over 1–4 response streams (reserve_capacity raise/lower/0, poll_capacity, capacity() censuses, sends within and beyond capacity, end/reset/drop; max_send_buffer_size and peer windows generated) against a reference peer that grants by policy and then freezes every grant; truth: capacity() read while frozen and sent at once must reach the wire before the thaw; pool: every census ≤ connection credit; no zero notifications; return: with the whole window assigned to stream A and B waiting, A lowering/ending/resetting/dropping lets B proceed with no grant at all; non-trivial = a frozen truth probe with capacity > 0, or a completed return scenario".into()
    }
    fn shrink_iters(&self) -> u32 {
        400
    }
    fn run(&self, case: &RawCase) -> Outcome {
        let rr = run_raw(case);
        let an = analyse_raw(case, &rr);
        let mut out = Outcome::default();
        common_raw_oracles(case, &rr, &an, &mut out);
        check_c16(case, &rr, &an.tap, &mut out);
        // capacity that was reported and spent beyond what the peer's windows allow was not usable capacity
        let extra: Vec<Violation> = out.violations.iter().filter(|v| v.property == "C02").map(|v| Violation::new("C16", &v.oracle, format!("C16/assigned-capacity-not-backed-by-window/{}", v.signature), v.detail.clone())).collect();
        out.violations.extend(extra);
        out.note = format!("{} wire frames, end={:?}, script_done={}", an.tap.frames.len(), rr.run.end, rr.obs.script_done);
        out
    }
}
