//! h2v — property checks for hyperium/h2 (see /verif/DESIGN.md). The library part exists so that the
//! libFuzzer target in /verif/fuzz can drive the same engines and oracles as the `h2v` binary.

pub mod checks;
pub mod eng_codec;
pub mod eng_flood;
pub mod eng_hpack;
pub mod eng_pair;
pub mod eng_queue;
pub mod eng_raw;
pub mod eng_raw2;
pub mod eng_soup;
pub mod eng_threads;
pub mod fuzzapi;
pub mod heapmeter;
pub mod mockio;
pub mod oracles;
pub mod oracles2;
pub mod refmodel;
pub mod runner;
pub mod sim;
pub mod sim_pair;
pub mod sim_raw;
pub mod tape;
pub mod tapx;
pub mod util;
