//! C18: per-connection state stays bounded under hostile peers. Each case is
//! a flood pattern run twice, with n and 2n repetitions; every statistic of
//! the guarded probe (running maximum and value at the end) must be the same
//! for both, unless the endpoint refused/terminated the connection.

use crate::eng_raw::*;
use crate::refmodel::wire::{self, Frame, RawFrame};
use crate::runner::{Engine, Outcome};
use crate::sim::*;
use crate::sim_pair::*;
use crate::sim_raw::*;
use crate::tape::Tape;
use serde::{Deserialize, Serialize};

#[derive(Clone, Debug, Serialize, Deserialize)]
pub struct FloodCase {
    pub pattern: String,
    pub n: usize,
    pub client: bool,
    pub cfg: Cfg,
    pub accept_limit: Option<usize>,
    pub block_writes: bool,
    /// pattern-specific parameters (DATA length / padding, generated frame units, application behaviour)
    #[serde(default)]
    pub params: Vec<u32>,
    pub sched: Vec<u32>,
    pub chunk: Vec<u32>,
}

const SERVER_PATTERNS: &[&str] = &[
    "open-and-reset",
    "open-and-reset-after-accept",
    "streams-over-limit",
    "continuation-flood",
    "empty-data-flood",
    "tiny-data-flood",
    "ping-flood",
    "settings-flood",
    "huge-header-list",
    "data-on-closed-streams",
    "window-update-flood",
    "priority-flood",
    "headers-then-reset-by-error",
    "unknown-frame-flood",
    "padded-data-flood",
    "abandon-accepted",
    "answered-then-reset-by-peer",
    "tiny-data-flood-between-abandoned-uploads",
    "upload-read-after-peer-reset",
    "unit-flood",
    "unit-flood",
    "unit-flood",
];
const CLIENT_PATTERNS: &[&str] = &["push-promise-flood", "informational-flood", "ping-flood", "settings-flood", "rst-on-unknown-streams"];

fn hdr(stream: u32, method: &str, end_stream: bool) -> PStep {
    PStep::Headers {
        stream,
        fields: vec![(":method".into(), method.into()), (":scheme".into(), "https".into()), (":authority".into(), "example.com".into()), (":path".into(), format!("/s/{}", stream)), ("x-id".into(), stream.to_string())],
        end_stream,
        splits: vec![],
        pad: None,
        prio: None,
        enc: 0,
    }
}

fn fr(f: Frame) -> PStep {
    PStep::Frame { f, extra_flags: 0, r_bit: false }
}

pub fn build(c: &FloodCase, n: usize) -> RawCase {
    let mut script: Vec<PStep> = vec![PStep::Barrier];
    let mut reqs: Vec<Req> = Vec::new();
    // index in `script` where the flood proper starts (after a pattern's preparation)
    let mut flood_at = script.len();
    let mut next = 1u32;
    let mut pr = Tape::new(&c.params);
    match c.pattern.as_str() {
        "open-and-reset" | "open-and-reset-after-accept" => {
            for i in 0..n {
                let id = next;
                next += 2;
                script.push(hdr(id, "POST", false));
                if c.pattern == "open-and-reset-after-accept" && i % 8 == 0 {
                    script.push(PStep::Yield(3));
                }
                script.push(fr(Frame::Rst { stream: id, code: 8 }));
            }
        }
        "streams-over-limit" => {
            for _ in 0..n {
                let id = next;
                next += 2;
                let mut r = default_req(id);
                r.resp_delay = PARK; // the application holds on to what it accepted
                reqs.push(r);
                script.push(hdr(id, "POST", false));
            }
        }
        "continuation-flood" => {
            script.push(PStep::Raw(RawFrame::new(wire::T_HEADERS, 0x1, 1, vec![0x82]).encode()));
            for _ in 0..n {
                script.push(PStep::Raw(RawFrame::new(wire::T_CONT, 0, 1, vec![0x00, 0x01, b'a', 0x01, b'b']).encode()));
            }
        }
        "empty-data-flood" | "tiny-data-flood" => {
            let mut r = default_req(1);
            r.resp_delay = PARK;
            r.req_reader = Reader::Deferred(PARK); // reads the first chunk and sits on it
            reqs.push(r);
            script.push(hdr(1, "POST", false));
            script.push(PStep::Yield(20));
            flood_at = script.len();
            for _ in 0..n {
                let data = if c.pattern == "empty-data-flood" { vec![] } else { vec![7u8] };
                script.push(fr(Frame::Data { stream: 1, end_stream: false, pad: None, data }));
            }
        }
        "ping-flood" => {
            for i in 0..n {
                let mut d = [0x22u8; 8];
                d[4..8].copy_from_slice(&(i as u32).to_be_bytes());
                script.push(fr(Frame::Ping { ack: false, data: d }));
            }
        }
        "settings-flood" => {
            for i in 0..n {
                script.push(fr(Frame::Settings { ack: false, params: if i % 2 == 0 { vec![(4, 65535)] } else { vec![] } }));
            }
        }
        "huge-header-list" => {
            // one request whose header list keeps growing with n
            let mut fields = vec![(":method".to_string(), "GET".to_string()), (":scheme".into(), "https".into()), (":authority".into(), "example.com".into()), (":path".into(), "/".into())];
            for i in 0..n {
                fields.push((format!("x-h{}", i), "v".repeat(60)));
            }
            script.push(PStep::Headers { stream: 1, fields, end_stream: true, splits: (1..200).map(|k| k * 16000).collect(), pad: None, prio: None, enc: 0 });
        }
        "data-on-closed-streams" => {
            script.push(hdr(1, "GET", true));
            script.push(PStep::WaitEnd(1));
            flood_at = script.len();
            for _ in 0..n {
                script.push(fr(Frame::Data { stream: 1, end_stream: false, pad: None, data: vec![1] }));
            }
        }
        "padded-data-flood" => {
            let mut r = default_req(1);
            r.resp_delay = PARK;
            r.req_reader = Reader::Deferred(PARK);
            reqs.push(r);
            script.push(hdr(1, "POST", false));
            script.push(PStep::Yield(20));
            flood_at = script.len();
            let len = *pr.pick(&[0usize, 1, 1, 2, 100, 255, 256, 300]);
            let pad = *pr.pick(&[0u8, 1, 100, 254, 255, 255]);
            for _ in 0..n {
                script.push(PStep::Data { stream: 1, len, end_stream: false, pad: Some(pad), force: false });
            }
        }
        "abandon-accepted" => {
            // the application drops every accepted stream at once; the peer opens the next one without waiting
            let every = *pr.pick(&[0usize, 1, 4, 16]);
            for i in 0..n {
                let id = next;
                next += 2;
                let mut r = default_req(id);
                r.abandon = true;
                reqs.push(r);
                script.push(hdr(id, "POST", false));
                if every > 0 && i % every == 0 {
                    script.push(PStep::Yield(2));
                }
            }
        }
        "tiny-data-flood-between-abandoned-uploads" => {
            // a body the application holds but does not read receives 1-byte DATA frames; in between, short uploads
            // (HEADERS + a final DATA frame of a few bytes) that the application lets go of unread
            let mut r = default_req(1);
            r.resp_delay = PARK;
            r.req_reader = Reader::Deferred(PARK);
            reqs.push(r);
            script.push(hdr(1, "POST", false));
            script.push(PStep::Yield(20));
            flood_at = script.len();
            next = 3;
            let per = 1 + pr.below(3);
            let fin = *pr.pick(&[0usize, 1, 1, 5]);
            let every = *pr.pick(&[0usize, 1, 8]);
            for i in 0..n {
                for _ in 0..per {
                    script.push(fr(Frame::Data { stream: 1, end_stream: false, pad: None, data: vec![7u8] }));
                }
                let id = next;
                next += 2;
                let mut r = default_req(id);
                r.abandon = true;
                reqs.push(r);
                script.push(hdr(id, "POST", false));
                script.push(fr(Frame::Data { stream: id, end_stream: true, pad: None, data: vec![9u8; fin] }));
                if every > 0 && i % every == 0 {
                    script.push(PStep::Yield(2));
                }
            }
        }
        "upload-read-after-peer-reset" => {
            // every request brings a body of a third of the stream window and is reset by the peer in the same burst;
            // the application reads what is buffered, releases it (which falls due for a window update on a stream
            // that is already closed) and lets go of the stream
            let body = 22000 + pr.below(3000);
            for _ in 0..n {
                let id = next;
                next += 2;
                reqs.push(default_req(id));
                script.push(hdr(id, "POST", false));
                script.push(PStep::Data { stream: id, len: body, pad: None, end_stream: false, force: false });
                script.push(fr(Frame::Rst { stream: id, code: 8 }));
            }
        }
        "answered-then-reset-by-peer" => {
            // the application answers every request at once; the peer resets each stream right after opening it
            // and goes on (with the endpoint's writes blocked the answers cannot leave)
            let every = *pr.pick(&[0usize, 1, 4, 16]);
            for i in 0..n {
                let id = next;
                next += 2;
                script.push(hdr(id, "GET", true));
                if every > 0 && i % every == 0 {
                    script.push(PStep::Yield(3));
                }
                script.push(fr(Frame::Rst { stream: id, code: 8 }));
            }
        }
        "unit-flood" => {
            // a generated unit of 1..4 frame templates, repeated; stream ids advance with the iteration
            let app = pr.below(4); // 0 respond, 1 hold, 2 abandon, 3 respond without reading the body
            let has_long = pr.bool();
            if has_long {
                let mut r = default_req(1);
                r.resp_delay = PARK;
                r.req_reader = if pr.bool() { Reader::Deferred(PARK) } else { Reader::Eager };
                reqs.push(r);
                script.push(hdr(1, "POST", false));
                script.push(PStep::Yield(20));
                next = 3;
            }
            flood_at = script.len();
            let nt = 1 + pr.below(4);
            let templ: Vec<(usize, u32, u32, u32)> = (0..nt).map(|_| (pr.weighted(&[5, 4, 4, 2, 2, 1, 1, 1, 2, 2, 1]), pr.u32(), pr.u32(), pr.u32())).collect();
            let every = *pr.pick(&[0usize, 1, 4, 16]);
            let mut prev: Vec<u32> = Vec::new();
            for i in 0..n {
                let mut cur: Option<u32> = None;
                for (kind, a, b, d) in &templ {
                    // target of stream-addressed frames: the stream opened in this iteration, else an earlier one, else the long-lived one
                    let tgt = |cur: Option<u32>, prev: &Vec<u32>, sel: u32| -> u32 {
                        match sel % 4 {
                            0 | 1 => cur.or(prev.last().copied()).unwrap_or(1),
                            2 => prev.get(prev.len().wrapping_sub(1 + (sel as usize / 4) % 8)).copied().or(cur).unwrap_or(1),
                            _ => {
                                if has_long {
                                    1
                                } else {
                                    cur.or(prev.last().copied()).unwrap_or(1)
                                }
                            }
                        }
                    };
                    match kind {
                        0 => {
                            let id = next;
                            next += 2;
                            let mut r = default_req(id);
                            match app {
                                1 => r.resp_delay = PARK,
                                2 => r.abandon = true,
                                3 => r.req_reader = Reader::Deferred(PARK),
                                _ => {}
                            }
                            reqs.push(r);
                            script.push(hdr(id, if a % 2 == 0 { "POST" } else { "GET" }, a % 4 >= 2));
                            cur = Some(id);
                        }
                        1 => script.push(fr(Frame::Rst { stream: tgt(cur, &prev, *a), code: [0u32, 1, 5, 7, 8][(*b % 5) as usize] })),
                        2 => script.push(PStep::Data {
                            stream: tgt(cur, &prev, *a),
                            len: [0usize, 0, 1, 1, 10, 300][(*b % 6) as usize],
                            end_stream: *d % 5 == 0,
                            pad: [None, None, Some(0u8), Some(255), Some(7)][((*b / 6) % 5) as usize],
                            force: *d % 7 == 0,
                        }),
                        3 => script.push(fr(Frame::WinUp { stream: if a % 2 == 0 { 0 } else { tgt(cur, &prev, *b) }, inc: [1u32, 1000, 0x7fff_ffff][(*d % 3) as usize], inc_r: false })),
                        4 => script.push(fr(Frame::Priority { stream: if a % 2 == 0 { tgt(cur, &prev, *b) } else { next + 2 * (b % 50) }, prio: wire::Prio { exclusive: d % 2 == 0, dep: 0, weight: (*d % 256) as u8 } })),
                        5 => {
                            let mut p8 = [0x33u8; 8];
                            p8[4..8].copy_from_slice(&(i as u32).to_be_bytes());
                            script.push(fr(Frame::Ping { ack: a % 4 == 0, data: p8 }))
                        }
                        6 => script.push(fr(Frame::Settings { ack: false, params: [vec![], vec![(4, 65535)], vec![(1, 0)], vec![(1, 4096)], vec![(5, 16384)], vec![(3, 100)]][(*a % 6) as usize].clone() })),
                        7 => script.push(PStep::Raw(RawFrame::new(0x20 + (*a % 200) as u8, (*b % 256) as u8, if d % 2 == 0 { 0 } else { tgt(cur, &prev, *d) }, vec![0; (*b % 64) as usize]).encode())),
                        8 => {
                            // a request the library has to reset itself
                            let id = next;
                            next += 2;
                            let bad: Vec<(String, String)> = match a % 3 {
                                0 => vec![(":method".into(), "GET".into()), (":scheme".into(), "https".into()), ("te".into(), "gzip".into())],
                                1 => vec![(":method".into(), "GET".into()), (":scheme".into(), "https".into()), (":path".into(), "/".into()), ("connection".into(), "close".into())],
                                _ => vec![(":method".into(), "GET".into()), (":scheme".into(), "https".into()), (":path".into(), "/".into()), ("content-length".into(), "5".into())],
                            };
                            script.push(PStep::Headers { stream: id, fields: bad, end_stream: true, splits: vec![], pad: None, prio: None, enc: 0 });
                            cur = Some(id);
                        }
                        9 => {
                            // trailers (or a second head) on the target
                            script.push(PStep::Headers { stream: tgt(cur, &prev, *a), fields: vec![("x-t".into(), "1".into())], end_stream: b % 4 != 0, splits: vec![], pad: None, prio: None, enc: 0 });
                        }
                        _ => {
                            // HEADERS in several fragments
                            let id = next;
                            next += 2;
                            let mut r = default_req(id);
                            if app == 2 {
                                r.abandon = true;
                            }
                            reqs.push(r);
                            script.push(PStep::Headers {
                                stream: id,
                                fields: vec![(":method".into(), "GET".into()), (":scheme".into(), "https".into()), (":authority".into(), "example.com".into()), (":path".into(), format!("/s/{}", id)), ("x-id".into(), id.to_string()), ("x-long".into(), "y".repeat(40 + (*b % 200) as usize))],
                                end_stream: true,
                                splits: vec![1 + (*a % 20) as usize, 22 + (*d % 20) as usize],
                                pad: None,
                                prio: None,
                                enc: 0,
                            });
                            cur = Some(id);
                        }
                    }
                }
                if let Some(id) = cur {
                    prev.push(id);
                    if prev.len() > 16 {
                        prev.remove(0);
                    }
                }
                if every > 0 && i % every == 0 {
                    script.push(PStep::Yield(2));
                }
            }
        }
        "window-update-flood" => {
            script.push(hdr(1, "POST", false));
            for _ in 0..n {
                script.push(fr(Frame::WinUp { stream: 1, inc: 1, inc_r: false }));
                script.push(fr(Frame::WinUp { stream: 0, inc: 1, inc_r: false }));
            }
        }
        "priority-flood" => {
            for i in 0..n {
                script.push(fr(Frame::Priority { stream: 1 + 2 * i as u32, prio: wire::Prio { exclusive: false, dep: 0, weight: 1 } }));
            }
        }
        "headers-then-reset-by-error" => {
            // every stream is malformed (uppercase-free but missing :path): the library resets each one
            for _ in 0..n {
                let id = next;
                next += 2;
                script.push(PStep::Headers { stream: id, fields: vec![(":method".into(), "GET".into()), (":scheme".into(), "https".into()), ("te".into(), "gzip".into())], end_stream: true, splits: vec![], pad: None, prio: None, enc: 0 });
            }
        }
        "unknown-frame-flood" => {
            for _ in 0..n {
                script.push(PStep::Raw(RawFrame::new(0x42, 0, 0, vec![0; 100]).encode()));
            }
        }
        // ---- client under test
        "push-promise-flood" => {
            script.push(PStep::WaitStreams(1));
            for i in 0..n {
                script.push(PStep::PushPromise { stream: 1, promised: 2 + 2 * i as u32, fields: vec![(":method".into(), "GET".into()), (":scheme".into(), "https".into()), (":authority".into(), "example.com".into()), (":path".into(), format!("/p/{}", i))], splits: vec![], pad: None });
            }
        }
        "informational-flood" => {
            script.push(PStep::WaitStreams(1));
            for _ in 0..n {
                script.push(PStep::Respond { nth: 0, fields: vec![(":status".into(), "103".into()), ("link".into(), "</x>".into())], end_stream: false, splits: vec![] });
            }
        }
        "rst-on-unknown-streams" => {
            script.push(PStep::WaitStreams(1));
            for i in 0..n {
                script.push(fr(Frame::Rst { stream: 1001 + 2 * i as u32, code: 8 }));
            }
        }
        _ => {}
    }
    if c.block_writes {
        script.insert(flood_at, PStep::Reading(false));
        script.push(PStep::Yield(40));
        script.push(PStep::Reading(true));
    }
    script.push(PStep::Yield(30));
    script.push(PStep::Barrier);
    let spec = RawSpec { peer_settings: vec![], script, grant: Grant::Eager, close_at_end: false };
    if c.client {
        // the application sends one request and does not look at the response (it "accepts slowly or not at all")
        let mut r = default_req(1);
        r.resp_reader = Reader::Deferred(PARK);
        reqs.push(r);
    }
    let base = PairCase {
        cap: None,
        accept_limit: c.accept_limit,
        ccfg: c.cfg.clone(),
        scfg: c.cfg.clone(),
        client_init_max_send: None,
        vectored_c: false,
        vectored_s: false,
        sched: c.sched.clone(),
        chunk_c2s: c.chunk.clone(),
        chunk_s2c: c.chunk.clone(),
        reqs,
        ops: vec![],
        fault: None,
        drop_send_request_at_end: false, nest: vec![]
    };
    RawCase { h2_side: if c.client { Side::Client } else { Side::Server }, base, spec, inject: None, probe_stream: 0, e_out_cap: if c.block_writes { Some(256) } else { None } }
}

#[derive(Debug, Clone, Default, PartialEq)]
struct Peak {
    streams: usize,
    recv_events: usize,
    send_frames: usize,
    end_streams: usize,
    end_recv_events: usize,
    end_send_frames: usize,
    /// bytes the endpoint consumed from the peer while its own writes were blocked
    consumed_blocked: usize,
    /// live heap bytes allocated inside the endpoint's connection task
    heap_peak: usize,
    heap_end: usize,
    terminated: bool,
    refused_or_reset: usize,
    panic: bool,
}

fn measure(case: &RawCase, rr: &RawRun) -> Peak {
    let e = case.h2_side;
    let mut p = Peak::default();
    for (_, s, st) in &rr.run.samples {
        if *s == e {
            p.streams = p.streams.max(st.store_slab_len);
            p.recv_events = p.recv_events.max(st.recv_buffer_len);
            p.send_frames = p.send_frames.max(st.send_buffer_len);
        }
    }
    if let Some((_, Some(st), _)) = rr.run.stats.iter().find(|s| s.0 == e) {
        p.end_streams = st.store_slab_len;
        p.end_recv_events = st.recv_buffer_len;
        p.end_send_frames = st.send_buffer_len;
        p.streams = p.streams.max(st.store_slab_len);
        p.recv_events = p.recv_events.max(st.recv_buffer_len);
        p.send_frames = p.send_frames.max(st.send_buffer_len);
    }
    p.heap_peak = rr.run.heap_peak.max(0) as usize;
    p.heap_end = rr.run.heap_end.max(0) as usize;
    let an = analyse_raw(case, rr);
    p.terminated = an.tap.frames.iter().any(|f| f.from == e && matches!(&f.frame, Ok(Frame::GoAway { code, .. }) if *code != 0)) || rr.run.events.iter().any(|ev| ev.side == e && matches!(&ev.api, Api::ConnDone { result: Err(_) }));
    p.refused_or_reset = an.tap.frames.iter().filter(|f| f.from == e && matches!(&f.frame, Ok(Frame::Rst { .. }))).count();
    p.panic = rr.run.panic.is_some();
    if case.e_out_cap.is_some() {
        // delivered to E while the peer was not reading (between Reading(false) and Reading(true))
        let peer_pipe = if e == Side::Server { rr.run.wire.c2s.borrow() } else { rr.run.wire.s2c.borrow() };
        let (a, b) = {
            let ex = &rr.obs.executed;
            let off = |i: usize| ex.iter().find(|x| x.0 == i).map(|x| x.1);
            let start = case.spec.script.iter().position(|s| matches!(s, PStep::Reading(false))).and_then(off);
            let stop = case.spec.script.iter().position(|s| matches!(s, PStep::Reading(true))).and_then(off);
            (start.unwrap_or(0), stop.unwrap_or(u64::MAX))
        };
        let mut last = 0usize;
        let mut first: Option<usize> = None;
        for (end, t) in &peer_pipe.dstamp {
            if *t >= a && *t <= b {
                if first.is_none() {
                    first = Some(last);
                }
                p.consumed_blocked = end - first.unwrap();
            }
            last = *end;
        }
    }
    p
}

/// Name of the pattern as it appears in signatures: generated unit floods are described by what they are made of
/// (frame kinds of the unit, application behaviour, whether the endpoint's writes were blocked).
pub fn pattern_descr(c: &FloodCase) -> String {
    let blocked = if c.block_writes { ";writes-blocked" } else { "" };
    if c.pattern != "unit-flood" {
        return format!("{}{}", c.pattern, if c.block_writes { ":writes-blocked" } else { "" });
    }
    // mirror of the draws in `build` (same tape, same order)
    let mut pr = Tape::new(&c.params);
    let app = ["respond", "hold", "abandon", "respond-no-read"][pr.below(4)];
    let has_long = pr.bool();
    if has_long {
        let _ = pr.bool();
    }
    let nt = 1 + pr.below(4);
    const KINDS: [&str; 11] = ["open", "rst", "data", "window-update", "priority", "ping", "settings", "unknown", "malformed-open", "trailers", "open-fragmented"];
    let mut kinds: Vec<&str> = (0..nt)
        .map(|_| {
            let k = pr.weighted(&[5, 4, 4, 2, 2, 1, 1, 1, 2, 2, 1]);
            let _ = (pr.u32(), pr.u32(), pr.u32());
            KINDS[k]
        })
        .collect();
    kinds.sort();
    kinds.dedup();
    format!("unit-flood[{};app={}{}]", kinds.join("+"), app, blocked)
}

fn known() -> &'static crate::runner::Known {
    static K: std::sync::OnceLock<crate::runner::Known> = std::sync::OnceLock::new();
    K.get_or_init(|| crate::runner::Known::load(&std::path::PathBuf::from(std::env::var("VERIF_ROOT").unwrap_or_else(|_| "/verif".into()))))
}

pub struct FloodEngine;

impl Engine for FloodEngine {
    type Case = FloodCase;
    fn name(&self) -> &'static str {
        "flood-doubling"
    }
    fn tape_lens(&self) -> Vec<usize> {
        vec![120, 120]
    }
    fn gen(&self, tapes: &[Vec<u32>]) -> FloodCase {
        let mut t = Tape::new(&tapes[0]);
        let client = t.chance(1, 4);
        let mut pattern = if client { t.pick(CLIENT_PATTERNS) } else { t.pick(SERVER_PATTERNS) }.to_string();
        // (tens of megabytes per case: kept rare)
        if pattern == "upload-read-after-peer-reset" && !t.chance(1, 5) {
            pattern = "unit-flood".to_string();
        }
        let mut cfg = plain_cfg();
        // without a configured limit any number of concurrently open streams is the peer's right
        if t.chance(1, 2) || pattern == "streams-over-limit" {
            cfg.max_concurrent = Some(*t.pick(&[1u32, 5, 20]));
        }
        if t.chance(1, 3) {
            cfg.reset_max = Some(*t.pick(&[0usize, 1, 10]));
        }
        // (without a configured limit h2's default of 16 MB applies: far beyond what a case sends)
        if t.chance(1, 3) || pattern == "huge-header-list" {
            cfg.max_header_list = Some(*t.pick(&[1000u32, 16384]));
        }
        cfg.reset_dur_zero = t.chance(1, 4);
        let heavy = matches!(pattern.as_str(), "data-on-closed-streams" | "headers-then-reset-by-error");
        let block_writes = matches!(pattern.as_str(), "ping-flood" | "settings-flood" | "open-and-reset" | "data-on-closed-streams" | "headers-then-reset-by-error" | "abandon-accepted" | "streams-over-limit" | "unit-flood" | "answered-then-reset-by-peer") && t.bool();
        if matches!(pattern.as_str(), "abandon-accepted" | "unit-flood" | "answered-then-reset-by-peer" | "tiny-data-flood-between-abandoned-uploads") && cfg.max_concurrent.is_none() {
            // (streams the peer may legitimately keep open are bounded only by a configured limit)
            cfg.max_concurrent = Some(*t.pick(&[1u32, 2, 5, 20, 100]));
        }
        let params: Vec<u32> = (0..40).map(|_| t.u32()).collect();
        // n is beyond every quota of the pattern: 1024 library resets, and (writes blocked) a write buffer's worth of 9-byte replies
        let n = if block_writes {
            2200 + t.below(200)
        } else if heavy {
            1200 + t.below(200)
        } else if pattern == "huge-header-list" {
            // beyond four times the advertised limit (h2's abuse threshold) at ~100 B per field
            800 + t.below(100)
        } else {
            *t.pick(&[600usize, 800, 1000]) + t.below(50)
        };
        let mut t2 = Tape::new(&tapes[1]);
        let ns = t2.below(60);
        let sched = (0..ns).map(|_| t2.u32()).collect();
        let nc = t2.below(60);
        let chunk = (0..nc).map(|_| t2.u32()).collect();
        FloodCase { pattern, n, client, cfg, accept_limit: if client { None } else { *t.pick(&[None, None, Some(0), Some(3)]) }, block_writes, params, sched, chunk }
    }
    fn rule(&self) -> String {
        "a hostile pattern (open-and-reset before/after accept, streams over the limit, CONTINUATION flood, empty/1-byte DATA flood, PING/SETTINGS floods with the endpoint's writes blocked, growing header list, DATA on closed streams, malformed requests reset by the library, WINDOW_UPDATE/PRIORITY/unknown-frame floods; against a client: PUSH_PROMISE, 1xx and stray RST_STREAM floods) with generated limits, accept behaviour (normal / after 3 / never) and chunking is run with n, 2n and 4n repetitions (n ≥ 600; doubled further, up to 32n, while something still grows and it is not a recorded finding); plateau oracle: running maxima and final values of stream records, buffered receive events, queued send frames and bytes consumed while writes are blocked must not grow over both doublings unless the connection was terminated with an error; non-trivial = the pattern was delivered completely or the endpoint terminated the connection".into()
    }
    fn shrink_iters(&self) -> u32 {
        60
    }
    fn run(&self, c: &FloodCase) -> Outcome {
        let mut out = Outcome::default();
        out.label(format!("pattern:{}{}", c.pattern, if c.block_writes { ":writes-blocked" } else { "" }));
        let descr = pattern_descr(c);
        let c1 = build(c, c.n);
        let c2 = build(c, 2 * c.n);
        let c4 = build(c, 4 * c.n);
        let r1 = run_raw(&c1);
        let r2 = run_raw(&c2);
        let r4 = run_raw(&c4);
        let an4 = analyse_raw(&c4, &r4);
        common_raw_oracles(&c4, &r4, &an4, &mut out);
        let p1 = measure(&c1, &r1);
        let p2 = measure(&c2, &r2);
        let p4 = measure(&c4, &r4);
        out.note = format!("n={} → {:?} ; 2n → {:?} ; 4n → {:?}", c.n, p1, p2, p4);
        if p1.panic || p2.panic || p4.panic {
            return out;
        }
        out.nontrivial = r4.obs.script_done || p4.terminated;
        if p4.terminated {
            out.label("terminated-with-error");
        }
        if p4.refused_or_reset > 0 {
            out.label("streams-refused-or-reset");
        }
        if p4.terminated {
            // the quota fired; what was held up to that point is bounded by the quota
            return out;
        }
        let role = if c.client { "client" } else { "server" };
        // growth over both doublings: a quota first crossed between n and 2n shows as growth followed by a plateau
        let grows = |what: &str, a: usize, b: usize, d: usize| -> bool {
            let slack = if what.starts_with("heap") { 8192 } else { 2 };
            let grow = |a: usize, b: usize| b > a + slack && b as f64 > a as f64 * 1.25;
            grow(a, b) && grow(b, d)
        };
        let reply_obliged = c.block_writes && matches!(c.pattern.as_str(), "ping-flood" | "settings-flood" | "headers-then-reset-by-error" | "streams-over-limit");
        let metrics = |p: &Peak| -> Vec<(&'static str, usize)> {
            let mut v = vec![
                ("stream-records", p.streams),
                ("buffered-receive-events", p.recv_events),
                ("queued-send-frames", p.send_frames),
                ("stream-records-at-end", p.end_streams),
                ("buffered-receive-events-at-end", p.end_recv_events),
                ("queued-send-frames-at-end", p.end_send_frames),
                ("heap-bytes-of-connection-task-peak", p.heap_peak),
                ("heap-bytes-of-connection-task-at-end", p.heap_end),
            ];
            // every repetition of these patterns obliges the endpoint to a reply: it cannot go on reading without bound
            // while it cannot write
            if reply_obliged {
                v.push(("bytes-consumed-while-writes-blocked", p.consumed_blocked));
            }
            v
        };
        let growing = |a: &Peak, b: &Peak, d: &Peak| -> Vec<(&'static str, usize, usize, usize)> {
            metrics(a).into_iter().zip(metrics(b)).zip(metrics(d)).filter(|(((w, x), (_, y)), (_, z))| grows(w, *x, *y, *z)).map(|(((w, x), (_, y)), (_, z))| (w, x, y, z)).collect()
        };
        let (mut pa, mut pb, mut pd) = (p1, p2, p4);
        let mut m = 4 * c.n;
        let mut g = growing(&pa, &pb, &pd);
        // a quota may lie beyond 4n (h2 tolerates 1024 locally detected stream errors, for instance): as long as
        // something still grows, and it is not a recorded finding, the flood is doubled again — up to 32n — and only
        // growth that persists to the end counts
        let is_known = |g: &Vec<(&'static str, usize, usize, usize)>| g.iter().any(|(w, _, _, _)| known().matches(&crate::runner::Violation::new("C18", "plateau", format!("C18/{}/{}/{}-grows-with-flood-length", role, descr, w), String::new())).is_some());
        // (patterns that move tens of kilobytes per repetition stop at 8n — still several times h2's largest per-stream
        // quota of 1024 — so that a growing run stays within memory)
        let esc = if c.pattern == "upload-read-after-peer-reset" { 8 } else { 32 };
        while !g.is_empty() && !is_known(&g) && m < esc * c.n && m < 150_000 {
            m *= 2;
            let cm = build(c, m);
            let rm = run_raw(&cm);
            let pm = measure(&cm, &rm);
            out.label("escalated");
            if pm.panic || pm.terminated {
                out.label("terminated-with-error");
                out.note = format!("{} ; {}n → {:?}", out.note, m / c.n, pm);
                return out;
            }
            pa = pb;
            pb = pd;
            pd = pm;
            g = growing(&pa, &pb, &pd);
        }
        for (what, a, b, d) in g {
            out.fail(
                "C18",
                "plateau",
                format!("C18/{}/{}/{}-grows-with-flood-length", role, descr, what),
                format!("pattern {} (accept_limit {:?}, max_concurrent {:?}): {} is {} after {} repetitions, {} after {} and {} after {}, with the connection still up and no error signalled", c.pattern, c.accept_limit, c.cfg.max_concurrent, what, a, m / 4, b, m / 2, d, m),
            );
        }
        out
    }
}
