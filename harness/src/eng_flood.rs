//! C18: per-connection state stays bounded under hostile peers. Each case is
//! a flood pattern run twice, with n and 2n repetitions; every statistic of
//! the guarded probe (running maximum and value at the end) must be the same
//! for both, unless the endpoint refused/terminated the connection.

use crate::eng_raw::*;
use crate::refmodel::wire::{self, Frame, RawFrame};
use crate::runner::{Engine, Outcome};
use crate::sim::*;
use crate::sim_pair::*;
use crate::sim_raw::*;
use crate::tape::Tape;
use serde::{Deserialize, Serialize};

#[derive(Clone, Debug, Serialize, Deserialize)]
pub struct FloodCase {
    pub pattern: String,
    pub n: usize,
    pub client: bool,
    pub cfg: Cfg,
    pub accept_limit: Option<usize>,
    pub block_writes: bool,
    pub sched: Vec<u32>,
    pub chunk: Vec<u32>,
}

const SERVER_PATTERNS: &[&str] = &[
    "open-and-reset",
    "open-and-reset-after-accept",
    "streams-over-limit",
    "continuation-flood",
    "empty-data-flood",
    "tiny-data-flood",
    "ping-flood",
    "settings-flood",
    "huge-header-list",
    "data-on-closed-streams",
    "window-update-flood",
    "priority-flood",
    "headers-then-reset-by-error",
    "unknown-frame-flood",
];
const CLIENT_PATTERNS: &[&str] = &["push-promise-flood", "informational-flood", "ping-flood", "settings-flood", "rst-on-unknown-streams"];

fn hdr(stream: u32, method: &str, end_stream: bool) -> PStep {
    PStep::Headers {
        stream,
        fields: vec![(":method".into(), method.into()), (":scheme".into(), "https".into()), (":authority".into(), "example.com".into()), (":path".into(), format!("/s/{}", stream)), ("x-id".into(), stream.to_string())],
        end_stream,
        splits: vec![],
        pad: None,
        prio: None,
        enc: 0,
    }
}

fn fr(f: Frame) -> PStep {
    PStep::Frame { f, extra_flags: 0, r_bit: false }
}

pub fn build(c: &FloodCase, n: usize) -> RawCase {
    let mut script: Vec<PStep> = vec![PStep::Barrier];
    let mut reqs: Vec<Req> = Vec::new();
    if c.block_writes {
        script.push(PStep::Reading(false));
    }
    let mut next = 1u32;
    match c.pattern.as_str() {
        "open-and-reset" | "open-and-reset-after-accept" => {
            for i in 0..n {
                let id = next;
                next += 2;
                script.push(hdr(id, "POST", false));
                if c.pattern == "open-and-reset-after-accept" && i % 8 == 0 {
                    script.push(PStep::Yield(3));
                }
                script.push(fr(Frame::Rst { stream: id, code: 8 }));
            }
        }
        "streams-over-limit" => {
            for _ in 0..n {
                let id = next;
                next += 2;
                let mut r = default_req(id);
                r.resp_delay = 1_000_000; // the application holds on to what it accepted
                reqs.push(r);
                script.push(hdr(id, "POST", false));
            }
        }
        "continuation-flood" => {
            script.push(PStep::Raw(RawFrame::new(wire::T_HEADERS, 0x1, 1, vec![0x82]).encode()));
            for _ in 0..n {
                script.push(PStep::Raw(RawFrame::new(wire::T_CONT, 0, 1, vec![0x00, 0x01, b'a', 0x01, b'b']).encode()));
            }
        }
        "empty-data-flood" | "tiny-data-flood" => {
            let mut r = default_req(1);
            r.resp_delay = 1_000_000;
            r.req_reader = Reader::Deferred(1_000_000); // reads the first chunk and sits on it
            reqs.push(r);
            script.push(hdr(1, "POST", false));
            for _ in 0..n {
                let data = if c.pattern == "empty-data-flood" { vec![] } else { vec![7u8] };
                script.push(fr(Frame::Data { stream: 1, end_stream: false, pad: None, data }));
            }
        }
        "ping-flood" => {
            for i in 0..n {
                let mut d = [0x22u8; 8];
                d[4..8].copy_from_slice(&(i as u32).to_be_bytes());
                script.push(fr(Frame::Ping { ack: false, data: d }));
            }
        }
        "settings-flood" => {
            for i in 0..n {
                script.push(fr(Frame::Settings { ack: false, params: if i % 2 == 0 { vec![(4, 65535)] } else { vec![] } }));
            }
        }
        "huge-header-list" => {
            // one request whose header list keeps growing with n
            let mut fields = vec![(":method".to_string(), "GET".to_string()), (":scheme".into(), "https".into()), (":authority".into(), "example.com".into()), (":path".into(), "/".into())];
            for i in 0..n {
                fields.push((format!("x-h{}", i), "v".repeat(60)));
            }
            script.push(PStep::Headers { stream: 1, fields, end_stream: true, splits: (1..200).map(|k| k * 16000).collect(), pad: None, prio: None, enc: 0 });
        }
        "data-on-closed-streams" => {
            script.push(hdr(1, "GET", true));
            script.push(PStep::WaitEnd(1));
            for _ in 0..n {
                script.push(fr(Frame::Data { stream: 1, end_stream: false, pad: None, data: vec![1] }));
            }
        }
        "window-update-flood" => {
            script.push(hdr(1, "POST", false));
            for _ in 0..n {
                script.push(fr(Frame::WinUp { stream: 1, inc: 1, inc_r: false }));
                script.push(fr(Frame::WinUp { stream: 0, inc: 1, inc_r: false }));
            }
        }
        "priority-flood" => {
            for i in 0..n {
                script.push(fr(Frame::Priority { stream: 1 + 2 * i as u32, prio: wire::Prio { exclusive: false, dep: 0, weight: 1 } }));
            }
        }
        "headers-then-reset-by-error" => {
            // every stream is malformed (uppercase-free but missing :path): the library resets each one
            for _ in 0..n {
                let id = next;
                next += 2;
                script.push(PStep::Headers { stream: id, fields: vec![(":method".into(), "GET".into()), (":scheme".into(), "https".into()), ("te".into(), "gzip".into())], end_stream: true, splits: vec![], pad: None, prio: None, enc: 0 });
            }
        }
        "unknown-frame-flood" => {
            for _ in 0..n {
                script.push(PStep::Raw(RawFrame::new(0x42, 0, 0, vec![0; 100]).encode()));
            }
        }
        // ---- client under test
        "push-promise-flood" => {
            script.push(PStep::WaitStreams(1));
            for i in 0..n {
                script.push(PStep::PushPromise { stream: 1, promised: 2 + 2 * i as u32, fields: vec![(":method".into(), "GET".into()), (":scheme".into(), "https".into()), (":authority".into(), "example.com".into()), (":path".into(), format!("/p/{}", i))], splits: vec![], pad: None });
            }
        }
        "informational-flood" => {
            script.push(PStep::WaitStreams(1));
            for _ in 0..n {
                script.push(PStep::Respond { nth: 0, fields: vec![(":status".into(), "103".into()), ("link".into(), "</x>".into())], end_stream: false, splits: vec![] });
            }
        }
        "rst-on-unknown-streams" => {
            script.push(PStep::WaitStreams(1));
            for i in 0..n {
                script.push(fr(Frame::Rst { stream: 1001 + 2 * i as u32, code: 8 }));
            }
        }
        _ => {}
    }
    if c.block_writes {
        script.push(PStep::Yield(40));
        script.push(PStep::Reading(true));
    }
    script.push(PStep::Yield(30));
    script.push(PStep::Barrier);
    let spec = RawSpec { peer_settings: vec![], script, grant: Grant::Eager, close_at_end: false };
    if c.client {
        // the application sends one request and does not look at the response (it "accepts slowly or not at all")
        let mut r = default_req(1);
        r.resp_reader = Reader::Deferred(1_000_000);
        reqs.push(r);
    }
    let base = PairCase {
        cap: None,
        accept_limit: c.accept_limit,
        ccfg: c.cfg.clone(),
        scfg: c.cfg.clone(),
        client_init_max_send: None,
        vectored_c: false,
        vectored_s: false,
        sched: c.sched.clone(),
        chunk_c2s: c.chunk.clone(),
        chunk_s2c: c.chunk.clone(),
        reqs,
        ops: vec![],
        fault: None,
        drop_send_request_at_end: false,
    };
    RawCase { h2_side: if c.client { Side::Client } else { Side::Server }, base, spec, inject: None, probe_stream: 0, e_out_cap: if c.block_writes { Some(256) } else { None } }
}

#[derive(Debug, Clone, Default, PartialEq)]
struct Peak {
    streams: usize,
    recv_events: usize,
    send_frames: usize,
    end_streams: usize,
    end_recv_events: usize,
    end_send_frames: usize,
    /// bytes the endpoint consumed from the peer while its own writes were blocked
    consumed_blocked: usize,
    /// live heap bytes allocated inside the endpoint's connection task
    heap_peak: usize,
    heap_end: usize,
    terminated: bool,
    refused_or_reset: usize,
    panic: bool,
}

fn measure(case: &RawCase, rr: &RawRun) -> Peak {
    let e = case.h2_side;
    let mut p = Peak::default();
    for (_, s, st) in &rr.run.samples {
        if *s == e {
            p.streams = p.streams.max(st.store_slab_len);
            p.recv_events = p.recv_events.max(st.recv_buffer_len);
            p.send_frames = p.send_frames.max(st.send_buffer_len);
        }
    }
    if let Some((_, Some(st), _)) = rr.run.stats.iter().find(|s| s.0 == e) {
        p.end_streams = st.store_slab_len;
        p.end_recv_events = st.recv_buffer_len;
        p.end_send_frames = st.send_buffer_len;
        p.streams = p.streams.max(st.store_slab_len);
        p.recv_events = p.recv_events.max(st.recv_buffer_len);
        p.send_frames = p.send_frames.max(st.send_buffer_len);
    }
    p.heap_peak = rr.run.heap_peak.max(0) as usize;
    p.heap_end = rr.run.heap_end.max(0) as usize;
    let an = analyse_raw(case, rr);
    p.terminated = an.tap.frames.iter().any(|f| f.from == e && matches!(&f.frame, Ok(Frame::GoAway { code, .. }) if *code != 0)) || rr.run.events.iter().any(|ev| ev.side == e && matches!(&ev.api, Api::ConnDone { result: Err(_) }));
    p.refused_or_reset = an.tap.frames.iter().filter(|f| f.from == e && matches!(&f.frame, Ok(Frame::Rst { .. }))).count();
    p.panic = rr.run.panic.is_some();
    if case.e_out_cap.is_some() {
        // delivered to E while the peer was not reading (between Reading(false) and Reading(true))
        let peer_pipe = if e == Side::Server { rr.run.wire.c2s.borrow() } else { rr.run.wire.s2c.borrow() };
        let (a, b) = {
            let ex = &rr.obs.executed;
            let off = |i: usize| ex.iter().find(|x| x.0 == i).map(|x| x.1);
            let start = case.spec.script.iter().position(|s| matches!(s, PStep::Reading(false))).and_then(off);
            let stop = case.spec.script.iter().position(|s| matches!(s, PStep::Reading(true))).and_then(off);
            (start.unwrap_or(0), stop.unwrap_or(u64::MAX))
        };
        let mut last = 0usize;
        let mut first: Option<usize> = None;
        for (end, t) in &peer_pipe.dstamp {
            if *t >= a && *t <= b {
                if first.is_none() {
                    first = Some(last);
                }
                p.consumed_blocked = end - first.unwrap();
            }
            last = *end;
        }
    }
    p
}

pub struct FloodEngine;

impl Engine for FloodEngine {
    type Case = FloodCase;
    fn name(&self) -> &'static str {
        "flood-doubling"
    }
    fn tape_lens(&self) -> Vec<usize> {
        vec![60, 120]
    }
    fn gen(&self, tapes: &[Vec<u32>]) -> FloodCase {
        let mut t = Tape::new(&tapes[0]);
        let client = t.chance(1, 4);
        let pattern = if client { t.pick(CLIENT_PATTERNS) } else { t.pick(SERVER_PATTERNS) }.to_string();
        let mut cfg = plain_cfg();
        // without a configured limit any number of concurrently open streams is the peer's right
        if t.chance(1, 2) || pattern == "streams-over-limit" {
            cfg.max_concurrent = Some(*t.pick(&[1u32, 5, 20]));
        }
        if t.chance(1, 3) {
            cfg.reset_max = Some(*t.pick(&[0usize, 1, 10]));
        }
        // (without a configured limit h2's default of 16 MB applies: far beyond what a case sends)
        if t.chance(1, 3) || pattern == "huge-header-list" {
            cfg.max_header_list = Some(*t.pick(&[1000u32, 16384]));
        }
        cfg.reset_dur_zero = t.chance(1, 4);
        let heavy = matches!(pattern.as_str(), "data-on-closed-streams" | "headers-then-reset-by-error");
        let block_writes = matches!(pattern.as_str(), "ping-flood" | "settings-flood" | "open-and-reset" | "data-on-closed-streams" | "headers-then-reset-by-error") && t.bool();
        // n is beyond every quota of the pattern: 1024 library resets, and (writes blocked) a write buffer's worth of 9-byte replies
        let n = if block_writes {
            2200 + t.below(200)
        } else if heavy {
            1200 + t.below(200)
        } else if pattern == "huge-header-list" {
            // beyond four times the advertised limit (h2's abuse threshold) at ~100 B per field
            800 + t.below(100)
        } else {
            *t.pick(&[150usize, 300, 600]) + t.below(20)
        };
        let mut t2 = Tape::new(&tapes[1]);
        let ns = t2.below(60);
        let sched = (0..ns).map(|_| t2.u32()).collect();
        let nc = t2.below(60);
        let chunk = (0..nc).map(|_| t2.u32()).collect();
        FloodCase { pattern, n, client, cfg, accept_limit: if client { None } else { *t.pick(&[None, Some(0), Some(3)]) }, block_writes, sched, chunk }
    }
    fn rule(&self) -> String {
        "a hostile pattern (open-and-reset before/after accept, streams over the limit, CONTINUATION flood, empty/1-byte DATA flood, PING/SETTINGS floods with the endpoint's writes blocked, growing header list, DATA on closed streams, malformed requests reset by the library, WINDOW_UPDATE/PRIORITY/unknown-frame floods; against a client: PUSH_PROMISE, 1xx and stray RST_STREAM floods) with generated limits, accept behaviour (normal / after 3 / never) and chunking is run with n, 2n and 4n repetitions (n ≥ 150); plateau oracle: running maxima and final values of stream records, buffered receive events, queued send frames and bytes consumed while writes are blocked must not grow over both doublings unless the connection was terminated with an error; non-trivial = the pattern was delivered completely or the endpoint terminated the connection".into()
    }
    fn shrink_iters(&self) -> u32 {
        60
    }
    fn run(&self, c: &FloodCase) -> Outcome {
        let mut out = Outcome::default();
        out.label(format!("pattern:{}{}", c.pattern, if c.block_writes { ":writes-blocked" } else { "" }));
        let c1 = build(c, c.n);
        let c2 = build(c, 2 * c.n);
        let c4 = build(c, 4 * c.n);
        let r1 = run_raw(&c1);
        let r2 = run_raw(&c2);
        let r4 = run_raw(&c4);
        let an4 = analyse_raw(&c4, &r4);
        common_raw_oracles(&c4, &r4, &an4, &mut out);
        let p1 = measure(&c1, &r1);
        let p2 = measure(&c2, &r2);
        let p4 = measure(&c4, &r4);
        out.note = format!("n={} → {:?} ; 2n → {:?} ; 4n → {:?}", c.n, p1, p2, p4);
        if p1.panic || p2.panic || p4.panic {
            return out;
        }
        out.nontrivial = r4.obs.script_done || p4.terminated;
        if p4.terminated {
            out.label("terminated-with-error");
        }
        if p4.refused_or_reset > 0 {
            out.label("streams-refused-or-reset");
        }
        if p4.terminated {
            // the quota fired; what was held up to that point is bounded by the quota
            return out;
        }
        let role = if c.client { "client" } else { "server" };
        let slack = 2usize;
        let mut chk = |what: &str, a: usize, b: usize, d: usize| {
            // growth over both doublings: a quota first crossed between n and 2n shows as growth followed by a plateau
            let slack = if what.starts_with("heap") { 4096 } else { slack };
            let grow = |a: usize, b: usize| b > a + slack && b as f64 > a as f64 * 1.25;
            if grow(a, b) && grow(b, d) {
                out.fail(
                    "C18",
                    "plateau",
                    format!("C18/{}/{}/{}-grows-with-flood-length", role, c.pattern, what),
                    format!("pattern {} (accept_limit {:?}, max_concurrent {:?}): {} is {} after n={} repetitions, {} after 2n and {} after 4n, with the connection still up and no error signalled", c.pattern, c.accept_limit, c.cfg.max_concurrent, what, a, c.n, b, d),
                );
            }
        };
        chk("stream-records", p1.streams, p2.streams, p4.streams);
        chk("buffered-receive-events", p1.recv_events, p2.recv_events, p4.recv_events);
        chk("queued-send-frames", p1.send_frames, p2.send_frames, p4.send_frames);
        chk("stream-records-at-end", p1.end_streams, p2.end_streams, p4.end_streams);
        chk("buffered-receive-events-at-end", p1.end_recv_events, p2.end_recv_events, p4.end_recv_events);
        chk("queued-send-frames-at-end", p1.end_send_frames, p2.end_send_frames, p4.end_send_frames);
        chk("heap-bytes-of-connection-task-peak", p1.heap_peak, p2.heap_peak, p4.heap_peak);
        chk("heap-bytes-of-connection-task-at-end", p1.heap_end, p2.heap_end, p4.heap_end);
        if c.block_writes {
            chk("bytes-consumed-while-writes-blocked", p1.consumed_blocked, p2.consumed_blocked, p4.consumed_blocked);
        }
        out
    }
}
