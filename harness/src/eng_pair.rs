//! PAIR engine: generated client/server programs on the simulator, all wire
//! and API oracles evaluated on every run.

use crate::oracles::*;
use crate::oracles2::*;
use crate::runner::{Engine, Outcome};
use crate::sim::*;
use crate::sim_pair::*;
use crate::tapx;

pub struct PairEngine {
    pub focus: Focus,
}

pub fn evaluate_pair(case: &PairCase, run: &PairRun, focus: Focus) -> Outcome {
    let mut out = Outcome::default();
    let sides = [Side::Client, Side::Server];
    let tap = {
        let c2s = run.wire.c2s.borrow();
        let s2c = run.wire.s2c.borrow();
        tapx::analyse(&c2s, &s2c, &sides)
    };
    let av = acked_view(&tap);
    let poisoned = run.stats.iter().any(|s| s.2);
    check_panic(&run.panic, poisoned, &mut out);
    check_wire_basic(&tap, &av, &sides, &mut out);
    check_c02(&tap, &av, &sides, &mut out);
    check_c04(&tap, &av, &sides, &mut out);
    check_c01(&run.events, &mut out);
    check_c13_emitted(&tap, &sides, &mut out);
    wire_classes(&tap, &av, &mut out);
    let two_send_waiters = case.reqs.iter().any(|r| r.then_second && (r.req.chunks.iter().any(|c| c.reserve) || r.req.watch_reset));
    let faulty = case.fault.is_some() || case.ops.iter().any(|o| matches!(o.cmd, ConnCmd::GracefulShutdown | ConnCmd::AbruptShutdown(_) | ConnCmd::DropConnection));
    if focus == Focus::Coop && !faulty {
        check_c01_complete(&run.events, &mut out);
        check_c06(&StallInfo { two_send_waiters, unfinished: &run.unfinished, completed_when_repolled: run.completed_when_repolled, end: &run.end }, run.panic.is_some(), &mut out);
    } else if let RunEnd::BusyLoop(t) = &run.end {
        out.fail("C08", "busy-loop", format!("C08/busy-loop/{}", strip_digits(t)), format!("task {} keeps waking itself without any progress", t));
    } else if focus == Focus::Resets && !faulty && run.completed_when_repolled == Some(true) {
        // a program with resets and dropped handles may stall for reasons of its own, but not in a way that a mere
        // re-poll of every task resolves: that is a wake-up the library owed
        check_c06(&StallInfo { two_send_waiters, unfinished: &run.unfinished, completed_when_repolled: run.completed_when_repolled, end: &run.end }, run.panic.is_some(), &mut out);
    }
    // two correct endpoints running legal programs never accuse each other: a GOAWAY or RST_STREAM carrying
    // PROTOCOL_ERROR, FLOW_CONTROL_ERROR, FRAME_SIZE_ERROR or COMPRESSION_ERROR that no application asked for means
    // one side emitted something illegal or the other penalised legal traffic
    if focus != Focus::Faults && run.panic.is_none() {
        let app_codes: Vec<u32> = run.events.iter().filter_map(|e| if let Api::SentReset { code } = &e.api { Some(*code) } else { None }).chain(case.ops.iter().filter_map(|o| if let ConnCmd::AbruptShutdown(c) = o.cmd { Some(c) } else { None })).collect();
        let known_c04 = out.violations.iter().any(|v| v.signature.starts_with("C04/promised-id-not-increasing"));
        for f in &tap.frames {
            let (what, code) = match &f.frame {
                Ok(crate::refmodel::wire::Frame::GoAway { code, .. }) => ("GOAWAY", *code),
                Ok(crate::refmodel::wire::Frame::Rst { code, .. }) => ("RST_STREAM", *code),
                _ => continue,
            };
            if ![1u32, 3, 6, 9].contains(&code) || app_codes.contains(&code) || known_c04 {
                continue;
            }
            // an endpoint configured to remember its resets for no time at all (or none of them) may treat frames that were
            // in flight when it reset a stream as errors (RFC 9113 §5.1, closed: "can choose to limit the period")
            let acc_cfg = if f.from == Side::Server { &case.scfg } else { &case.ccfg };
            if acc_cfg.reset_dur_zero || acc_cfg.reset_max.is_some() {
                continue;
            }
            let name = match code {
                1 => "PROTOCOL_ERROR",
                3 => "FLOW_CONTROL_ERROR",
                6 => "FRAME_SIZE_ERROR",
                _ => "COMPRESSION_ERROR",
            };
            // the history that (most probably) set it off, for the signature: trailers that were in flight for a stream
            // the accuser had already reset or refused
            let mut history = String::new();
            if what == "GOAWAY" {
                let x = f.from;
                let resets: Vec<(u32, u64)> = tap.frames.iter().filter(|g| g.from == x && g.t_w0 <= f.t_w0).filter_map(|g| if let Ok(crate::refmodel::wire::Frame::Rst { stream, .. }) = &g.frame { Some((*stream, g.t_w0)) } else { None }).collect();
                for (s2, _) in &resets {
                    let heads: Vec<&tapx::TFrame> = tap.frames.iter().filter(|g| g.from != x && g.raw.stream == *s2 && matches!(&g.frame, Ok(crate::refmodel::wire::Frame::Headers { .. }))).collect();
                    if heads.len() >= 2 && heads[1].t_d.map(|d| d <= f.t_w0).unwrap_or(false) {
                        history = "/trailers-in-flight-for-a-stream-it-had-reset".into();
                    }
                }
            }
            out.fail(
                "C09",
                "legal-traffic-penalised",
                format!("C09/pair/legal-exchange-accused/{}-{}-by-{}{}", what, name, f.from.name(), history),
                format!("{} sent {}({}) although both endpoints are h2 running legal programs (frame #{} of its output, stream {})", f.from.name(), what, name, f.idx, f.raw.stream),
            );
            break;
        }
    }
    // a client's GOAWAY names the highest pushed stream it has processed: never below a pushed stream whose response the
    // application had already been handed when the GOAWAY was written
    for f in tap.frames.iter().filter(|f| f.from == Side::Client) {
        if let Ok(crate::refmodel::wire::Frame::GoAway { last, .. }) = &f.frame {
            let delivered = run.events.iter().filter(|e| e.side == Side::Client && e.step + 1 < f.t_w0).filter_map(|e| if let Api::RecvHead { kind: "response", stream, .. } = &e.api { if stream % 2 == 0 { Some(*stream) } else { None } } else { None }).max();
            if let Some(d) = delivered {
                if *last < d {
                    out.fail("C15", "goaway/last-stream-id", "C15/client-goaway-last-stream-id-below-delivered-push", format!("client GOAWAY (frame #{}) carries last-stream-id {} although the response of pushed stream {} had been handed to the application before", f.idx, last, d));
                }
            }
        }
    }
    let app_pending = run.unfinished.iter().any(|(_, g)| matches!(g, Group::ClientApp | Group::ServerApp));
    let conn_err = run.events.iter().any(|e| matches!(&e.api, Api::ConnDone { result: Err(_) }));
    let settled = run.end == RunEnd::Quiescent && !app_pending && run.panic.is_none() && !faulty && !conn_err;
    let read_fault = case.fault.as_ref().and_then(|f| {
        let reader = if f.c2s { Side::Server } else { Side::Client };
        match f.kind {
            CutKind::ReadErr => Some((reader, "sim: connection reset")),
            CutKind::ReadErrEof => Some((reader, "sim: peer closed without close_notify")),
            _ => None,
        }
    });
    // (only when the endpoint really read that error, and its connection did not end for another reason first)
    let read_fault = read_fault.filter(|(x, text)| {
        let delivered = if *x == Side::Server { run.wire.c2s.borrow().read_error_delivered() } else { run.wire.s2c.borrow().read_error_delivered() };
        let other_end = run.events.iter().any(|ev| ev.side == *x && matches!(&ev.api, Api::ConnDone { result: Err(e) } if !(e.is_io && e.text == *text)));
        delivered && !other_end
    });
    check_c17(&C17Ctx { tap: &tap, events: &run.events, h2_sides: &sides, settled, read_fault, quiescent: run.end == RunEnd::Quiescent, unfinished: &run.unfinished }, &mut out);
    let reset_max = [case.ccfg.reset_max.unwrap_or(50), case.scfg.reset_max.unwrap_or(50)];
    let c2s_shutdown = run.wire.c2s.borrow().shutdown_called;
    check_c19(
        &C19Ctx { tap: &tap, events: &run.events, stats: &run.stats, settled, client_handles_gone: settled && case.drop_send_request_at_end, c2s_shutdown, reset_max, orphans: &run.orphans, orphan_flags: &run.orphan_flags },
        &mut out,
    );
    check_queued_requests_sent(&tap, &av, &run.events, run.end == RunEnd::Quiescent && run.panic.is_none() && case.fault.is_none(), &mut out);
    // C03: no receive window stays exhausted while the application holds nothing
    for side in [Side::Client, Side::Server] {
        crate::eng_raw2::check_exhausted_side(side, case, run, &tap, &mut out);
    }
    check_c05(
        &C05Ctx { tap: &tap, av: &av, events: &run.events, h2_sides: &sides, advertised: [case.ccfg.max_concurrent, case.scfg.max_concurrent], check_recycling: true },
        &mut out,
    );
    check_c03(
        &C03Ctx {
            tap: &tap,
            events: &run.events,
            samples: &run.samples,
            final_stats: &run.stats,
            h2_sides: &sides,
            conn_target: [case.ccfg.conn_window.unwrap_or(65535), case.scfg.conn_window.unwrap_or(65535)],
            initial_window: [case.ccfg.initial_window.unwrap_or(65535), case.scfg.initial_window.unwrap_or(65535)],
        },
        &mut out,
    );
    if focus == Focus::Faults {
        let ending = if let Some(f) = &case.fault {
            format!("{:?}-{}", f.kind, if f.c2s { "c2s" } else { "s2c" })
        } else {
            case.ops.iter().find_map(|o| match o.cmd {
                ConnCmd::GracefulShutdown => Some("graceful_shutdown".to_string()),
                ConnCmd::AbruptShutdown(_) => Some("abrupt_shutdown".to_string()),
                ConnCmd::DropConnection => Some(format!("drop-{}-connection", o.side.name())),
                _ => None,
            }).unwrap_or_else(|| "none".into())
        };
        let dropped_conn = [
            case.ops.iter().any(|o| o.side == Side::Client && matches!(o.cmd, ConnCmd::DropConnection)),
            case.ops.iter().any(|o| o.side == Side::Server && matches!(o.cmd, ConnCmd::DropConnection)),
        ];
        if run.panic.is_none() {
            check_c07(&C07Ctx { events: &run.events, unfinished: &run.unfinished, end: &run.end, completed_when_repolled: run.completed_when_repolled, dropped_conn, ending, two_send_waiters }, &mut out);
        }
        out.label("connection-ending");
    }
    if settled {
        out.label("settled");
    }
    if run.end == RunEnd::Budget {
        out.label("step-budget-hit");
    }
    // API-level classes
    let mut parked_caps = 0;
    for e in &run.events {
        match &e.api {
            Api::Capacity { .. } => parked_caps += 1,
            Api::SentReset { .. } => out.label("app-reset"),
            Api::DroppedSend | Api::DroppedRecv => out.label("handle-dropped-early"),
            Api::RecvErr { .. } => out.label("recv-error-surfaced"),
            _ => {}
        }
    }
    if parked_caps > 0 {
        out.label("capacity-loop");
    }
    if !case.ops.is_empty() {
        out.label("conn-ops");
    }
    out.nontrivial = out.labels.iter().any(|l| {
        matches!(
            l.as_str(),
            "continuation" | "body-in-several-frames" | "partial-write-inside-frame" | "data-split-by-max-frame" | "data-limited-by-window" | "app-reset" | "handle-dropped-early"
        )
    });
    out.note = format!("{} requests, {} wire frames, {} API events, {} steps, end={:?}", case.reqs.len(), tap.frames.len(), run.events.len(), run.steps, run.end);
    out
}

impl Engine for PairEngine {
    type Case = PairCase;
    fn name(&self) -> &'static str {
        match self.focus {
            Focus::Coop => "pair-coop",
            Focus::Resets => "pair-resets",
            Focus::Faults => "pair-faults",
        }
    }
    fn tape_lens(&self) -> Vec<usize> {
        vec![600, 401, 302]
    }
    fn gen(&self, tapes: &[Vec<u32>]) -> PairCase {
        gen_pair(tapes, self.focus)
    }
    fn rule(&self) -> String {
        "generated (configs × request/response/push programs × schedule tape × per-direction read/write chunking tapes) h2 client ↔ h2 server exchanges on the deterministic simulator, tapped by an independent parser; non-trivial = the trace shows at least one of: CONTINUATION, a body carried in several DATA frames, a write that stopped inside a frame, a DATA frame cut by max frame size or by a window, an application reset or early handle drop; distinct = distinct case hash".into()
    }
    fn shrink_iters(&self) -> u32 {
        600
    }
    fn run(&self, case: &PairCase) -> Outcome {
        let run = run_pair(case);
        evaluate_pair(case, &run, self.focus)
    }
}

/// Human-readable dump of a run (replay aid).
pub fn dump_pair(case: &PairCase) {
    let run = run_pair(case);
    let tap = {
        let c2s = run.wire.c2s.borrow();
        let s2c = run.wire.s2c.borrow();
        tapx::analyse(&c2s, &s2c, &[Side::Client, Side::Server])
    };
    dump_lines(&tap, &run);
}

pub fn dump_lines(tap: &tapx::Tap, run: &PairRun) {
    #[derive(Debug)]
    enum L<'a> {
        F(&'a tapx::TFrame),
        E(&'a ApiEvent),
    }
    let mut lines: Vec<(u64, u8, L)> = Vec::new();
    for f in &tap.frames {
        lines.push((f.t_w, 0, L::F(f)));
    }
    for e in &run.events {
        lines.push((e.step, 1, L::E(e)));
    }
    lines.sort_by_key(|l| (l.0, l.1));
    for (t, _, l) in lines {
        match l {
            L::F(f) => {
                let d = match &f.frame {
                    Ok(crate::refmodel::wire::Frame::Data { stream, end_stream, data, .. }) => format!("DATA s={} len={} es={}", stream, data.len(), end_stream),
                    Ok(crate::refmodel::wire::Frame::Headers { stream, end_stream, end_headers, frag, .. }) => format!("HEADERS s={} es={} eh={} frag={}B", stream, end_stream, end_headers, frag.len()),
                    Ok(crate::refmodel::wire::Frame::Cont { stream, end_headers, frag }) => format!("CONTINUATION s={} eh={} frag={}B", stream, end_headers, frag.len()),
                    Ok(crate::refmodel::wire::Frame::Push { stream, promised, frag, .. }) => format!("PUSH_PROMISE s={} promised={} frag={}B", stream, promised, frag.len()),
                    Ok(other) => format!("{:?}", other),
                    Err(e) => format!("MALFORMED {:?}", e),
                };
                let blk = match &f.block {
                    Some(Ok(fl)) => format!(" fields={:?}", fl.iter().take(6).map(|x| format!("{}={}", crate::util::show(&x.name), crate::util::show(&x.value[..x.value.len().min(20)]))).collect::<Vec<_>>()),
                    Some(Err(e)) => format!(" BLOCK-ERR {:?}", e),
                    None => String::new(),
                };
                println!("{:>7} {:<6} wire  #{:<3} [w {}..{} d {:?}..{:?}] {}{}", t, f.from.name(), f.idx, f.t_w0, f.t_w, f.t_d0, f.t_d, d, blk);
            }
            L::E(e) => {
                let s = format!("{:?}", e.api);
                println!("{:>7} {:<6} api   key={} {}", t, e.side.name(), e.key, if s.len() > 260 { format!("{}…", &s[..260]) } else { s });
            }
        }
    }
    println!("end={:?} steps={} unfinished={:?} repolled={:?} panic={:?}", run.end, run.steps, run.unfinished, run.completed_when_repolled, run.panic);
    for (s, st, p) in &run.stats {
        println!("stats {}: {:?} poisoned={}", s.name(), st, p);
    }
}

// ------------------------------------------------------------ C20: operations interleaved inside the connection's poll

/// The PAIR programs again, with a fourth tape deciding at which transport
/// callbacks (read / write / flush / shutdown, i.e. inside `Connection::poll`
/// where the library has released its locks) a runnable application task is
/// polled on the spot — exactly what a thread running in parallel could do
/// there. Every oracle of the sequential engines must still hold.
pub struct NestEngine {
    pub focus: Focus,
}

fn known() -> &'static crate::runner::Known {
    static K: std::sync::OnceLock<crate::runner::Known> = std::sync::OnceLock::new();
    K.get_or_init(|| crate::runner::Known::load(&std::path::PathBuf::from(std::env::var("VERIF_ROOT").unwrap_or_else(|_| "/verif".into()))))
}

impl Engine for NestEngine {
    type Case = PairCase;
    fn name(&self) -> &'static str {
        match self.focus {
            Focus::Coop => "nest-coop",
            Focus::Resets => "nest-resets",
            Focus::Faults => "nest-faults",
        }
    }
    fn tape_lens(&self) -> Vec<usize> {
        vec![600, 401, 302, 400]
    }
    fn gen(&self, tapes: &[Vec<u32>]) -> PairCase {
        let mut c = gen_pair(&tapes[..3], self.focus);
        c.nest = tapes[3].clone();
        if c.nest.is_empty() {
            c.nest = vec![0; 8];
        }
        c
    }
    fn rule(&self) -> String {
        "the generated h2 client ↔ h2 server programs of the sequential engines, with an extra tape that at transport callbacks inside a connection's poll (read, write, flush, shutdown: the points where the connection has released its locks) polls a runnable application task right there — request, send-stream, receive-stream, flow-control, ping and handle-drop operations then happen in the middle of the connection's progress, as from a parallel thread; oracle: the connection holds no lock at any such callback, no lock is poisoned, nothing panics or deadlocks, and every sequential oracle (C01 delivery, C02/C03 flow control, C04 state machine, C05 concurrency, C06 progress, C07 wake-ups, C12/C10 wire, C17 resets, C19 release) still holds on the resulting trace; non-trivial = at least 3 nested polls that performed an API operation inside a connection poll".into()
    }
    fn shrink_iters(&self) -> u32 {
        600
    }
    fn run(&self, case: &PairCase) -> Outcome {
        let run = run_pair(case);
        let base = evaluate_pair(case, &run, self.focus);
        let mut out = Outcome::default();
        out.labels = base.labels.clone();
        out.note = format!("{} nested polls; {}", run.nested, base.note);
        out.nontrivial = run.nested >= 3;
        out.label(match run.nested {
            0 => "nested:0",
            1..=2 => "nested:1-2",
            3..=9 => "nested:3-9",
            10..=49 => "nested:10-49",
            _ => "nested:50+",
        });
        for l in &run.lock_held {
            out.fail("C20", "locks/held-at-transport-callback", format!("C20/lock-held-at-transport-callback/{}", l), format!("at a transport callback ({}) inside the connection's poll one of the library's locks was still held: a handle operation on another thread blocks there for the duration of the I/O (and would deadlock if the transport needed that thread)", l));
        }
        // a violation that is a recorded finding of its own property shadows the case
        if base.violations.iter().any(|v| known().matches(v).is_some()) {
            out.label("known-finding-of-sequential-property");
            return out;
        }
        for v in &base.violations {
            out.fail("C20", &v.oracle, format!("C20/interleaved/{}", v.signature), format!("with {} application polls interleaved inside connection polls: {}", run.nested, v.detail));
        }
        out
    }
}
