//! CODEC engine (C12): h2's `Codec` as frame sink and frame stream over a
//! scripted transport, against the independent wire model.

use crate::eng_hpack::{codec_read_all, header_frames};
use crate::mockio::{noop_waker, ScriptIo};
use crate::refmodel::hpack::{Choice, Field, RefDecoder, RefEncoder, Repr};
use crate::refmodel::wire::{self, Frame as WFrame, Prio};
use crate::runner::{Engine, Outcome};
use crate::tape::Tape;
use crate::util::show;
use bytes::{Buf, Bytes};
use h2::verif::frame as hf;
use h2::verif::Codec;
use serde::{Deserialize, Serialize};
use std::collections::VecDeque;
use std::task::{Context, Poll};

// ------------------------------------------------------------ SegBuf

/// A `Buf` made of several non-contiguous segments (honours the `Buf`
/// contract: `chunk()` is empty only when nothing remains).
#[derive(Debug, Clone, Default)]
pub struct SegBuf {
    segs: VecDeque<Bytes>,
}

impl SegBuf {
    pub fn new(data: Vec<u8>, cuts: &[usize]) -> SegBuf {
        let mut all = Bytes::from(data);
        let mut segs = VecDeque::new();
        let mut cs: Vec<usize> = cuts.iter().copied().filter(|&c| c > 0 && c < all.len()).collect();
        cs.sort();
        cs.dedup();
        let mut last = 0;
        for c in cs {
            segs.push_back(all.split_to(c - last));
            last = c;
        }
        if !all.is_empty() {
            segs.push_back(all);
        }
        SegBuf { segs }
    }
}

impl Buf for SegBuf {
    fn remaining(&self) -> usize {
        self.segs.iter().map(|s| s.len()).sum()
    }
    fn chunk(&self) -> &[u8] {
        self.segs.front().map(|s| &s[..]).unwrap_or(&[])
    }
    fn advance(&mut self, mut n: usize) {
        while n > 0 {
            let f = self.segs.front_mut().expect("advance past end");
            if n < f.len() {
                f.advance(n);
                n = 0;
            } else {
                n -= f.len();
                self.segs.pop_front();
            }
        }
    }
    fn chunks_vectored<'a>(&'a self, dst: &mut [std::io::IoSlice<'a>]) -> usize {
        let mut i = 0;
        for s in &self.segs {
            if i == dst.len() {
                break;
            }
            dst[i] = std::io::IoSlice::new(s);
            i += 1;
        }
        i
    }
}

/// body byte at offset `o` of message `m`
pub fn mix(m: u64, o: u64) -> u8 {
    let x = m.wrapping_mul(0x9e3779b97f4a7c15) ^ o.wrapping_mul(0xc2b2ae3d27d4eb4f);
    ((x >> 29) ^ (x >> 7) ^ x) as u8
}

pub fn mix_bytes(m: u64, from: u64, len: usize) -> Vec<u8> {
    (0..len as u64).map(|i| mix(m, from + i)).collect()
}

// ------------------------------------------------------------ write side

#[derive(Clone, Debug, Serialize, Deserialize)]
pub enum WSpec {
    Data { stream: u32, len: usize, end_stream: bool, cuts: Vec<usize> },
    Headers { stream: u32, status: Option<u16>, nfields: usize, value_len: usize, end_stream: bool, push: bool },
    Settings { ack: bool, table: Option<u32>, push: Option<bool>, conc: Option<u32>, win: Option<u32>, frame: Option<u32>, list: Option<u32>, connect: Option<u32> },
    Ping { ack: bool, payload: [u8; 8] },
    GoAway { last: u32, code: u32, debug_len: usize },
    WindowUpdate { stream: u32, inc: u32 },
    Reset { stream: u32, code: u32 },
    /// peer raised/lowered SETTINGS_MAX_FRAME_SIZE
    SetMaxFrame(u32),
    Flush,
}

#[derive(Clone, Debug, Serialize, Deserialize)]
pub struct WCase {
    #[serde(default)]
    pub shutdown: bool,
    pub vectored: bool,
    pub write_plan: Vec<u16>,
    pub frames: Vec<WSpec>,
}

pub struct WriteEngine;

const LENS: &[usize] = &[0, 1, 2, 100, 255, 256, 257, 1000, 1023, 1024, 1025, 4000, 16000, 16383, 16384, 16385, 20000, 65535, 100000];

fn gen_wspec(t: &mut Tape, max_frame: &mut u32) -> WSpec {
    let stream = 1 + 2 * t.below(20) as u32;
    match t.weighted(&[10, 4, 2, 2, 1, 2, 2, 1, 3]) {
        0 => {
            let len = match t.weighted(&[6, 2, 2]) {
                0 => *t.pick(LENS),
                1 => t.below(3000),
                _ => {
                    // frames of (nearly) the maximum size; the 1–16 MiB ones are kept rare (cost)
                    let m = *max_frame as usize;
                    if m <= 70_000 || t.chance(1, 30) { m.saturating_sub(t.below(3)) } else { 16384usize.saturating_sub(t.below(3)) }
                }
            }
            .min(*max_frame as usize);
            let nc = t.below(5);
            let cuts = (0..nc).map(|_| t.below(len.max(1))).collect();
            WSpec::Data { stream, len, end_stream: t.bool(), cuts }
        }
        1 => WSpec::Headers {
            stream,
            status: if t.bool() { Some(200 + t.below(5) as u16) } else { None },
            nfields: match t.below(4) {
                0 => 0,
                1 => t.below(10),
                2 => t.below(60),
                _ => 100 + t.below(500),
            },
            value_len: *t.pick(&[0usize, 1, 10, 100, 200]),
            end_stream: t.bool(),
            push: t.chance(1, 6),
        },
        2 => WSpec::Settings {
            ack: t.chance(1, 4),
            table: if t.bool() { Some(*t.pick(&[0u32, 4096, 100, 65536])) } else { None },
            push: if t.bool() { Some(t.bool()) } else { None },
            conc: if t.bool() { Some(t.below(1000) as u32) } else { None },
            win: if t.bool() { Some(*t.pick(&[0u32, 1, 65535, 0x7fff_ffff])) } else { None },
            frame: if t.bool() { Some(*t.pick(&[16384u32, 16385, 0xff_ffff])) } else { None },
            list: if t.bool() { Some(t.u32()) } else { None },
            connect: if t.chance(1, 4) { Some(t.below(2) as u32) } else { None },
        },
        3 => {
            let b = t.bytes(8);
            let mut p = [0u8; 8];
            p.copy_from_slice(&b);
            WSpec::Ping { ack: t.bool(), payload: p }
        }
        4 => WSpec::GoAway { last: t.below(1000) as u32, code: if t.bool() { t.below(14) as u32 } else { t.u32() }, debug_len: *t.pick(&[0usize, 0, 5, 300, 1000]) },
        5 => WSpec::WindowUpdate { stream: if t.bool() { 0 } else { stream }, inc: 1 + t.below(0x7fff_fffe) as u32 },
        6 => WSpec::Reset { stream, code: if t.bool() { t.below(14) as u32 } else { t.u32() } },
        7 => {
            *max_frame = *t.pick(&[16384u32, 16385, 17000, 65536, 1 << 20, 0xff_ffff]);
            WSpec::SetMaxFrame(*max_frame)
        }
        _ => WSpec::Flush,
    }
}

fn hdr_fields(stream: u32, n: usize, vl: usize) -> Vec<(String, String)> {
    (0..n).map(|i| (format!("x-h{}", (i * 7 + stream as usize) % 97), "v".repeat(vl) + &i.to_string())).collect()
}

/// canonical rendering used on both sides of the comparison
fn canon_hdr(kind: &str, stream: u32, promised: u32, end_stream: bool, fields: &[Field]) -> String {
    let mut s = format!("{} sid={} promised={} es={} ", kind, stream, promised, end_stream);
    for f in fields {
        s.push_str(&format!("{}={};", show(&f.name), crate::tape::fnv(&f.value)));
    }
    s
}

impl Engine for WriteEngine {
    type Case = WCase;
    fn name(&self) -> &'static str {
        "codec-write"
    }
    fn tape_lens(&self) -> Vec<usize> {
        vec![300, 200]
    }
    fn gen(&self, tapes: &[Vec<u32>]) -> WCase {
        let mut t = Tape::new(&tapes[0]);
        let n = 1 + t.below(20);
        let mut mf = 16384u32;
        let frames = (0..n).map(|_| gen_wspec(&mut t, &mut mf)).collect();
        let mut t2 = Tape::new(&tapes[1]);
        let np = t2.below(200);
        WCase { shutdown: t2.chance(1, 3), vectored: t2.bool(), write_plan: (0..np).map(|_| t2.u32() as u16).collect(), frames }
    }
    fn rule(&self) -> String {
        "generated frame sequences (8 emit-able types, DATA sizes around the chain thresholds/buffer size/max frame, multi-segment Buf payloads, header lists up to ~600 fields) written through h2's Codec under scripted partial writes/Pending/vectored I/O; reference parser must read back exactly the submitted frames; non-trivial = a short write or Pending hit inside the sequence, a chained DATA payload (≥256 B) or a CONTINUATION".into()
    }
    fn run(&self, case: &WCase) -> Outcome {
        let mut out = Outcome::default();
        let io = ScriptIo::writer(case.write_plan.clone(), case.vectored);
        let mut codec: Codec<ScriptIo, SegBuf> = Codec::new(io);
        let w = noop_waker();
        let mut cx = Context::from_waker(&w);
        let mut expect: Vec<String> = Vec::new();
        let mut max_frame = 16384usize;
        // (byte offset in the output at which the limit changed)
        let mut limits: Vec<(usize, usize)> = vec![(0, 16384)];
        macro_rules! drive {
            ($e:expr, $what:expr) => {{
                let mut spins = 0u64;
                loop {
                    match $e {
                        Poll::Ready(Ok(())) => break,
                        Poll::Ready(Err(e)) => {
                            out.fail("C12", "codec-write/io", "C12/write-io-error", format!("{}: {:?}", $what, e));
                            return out;
                        }
                        Poll::Pending => {
                            spins += 1;
                            if spins > 50_000_000 {
                                out.fail("C12", "codec-write/stuck", "C12/write-never-completes", format!("{} never completes", $what));
                                return out;
                            }
                        }
                    }
                }
            }};
        }
        for (i, f) in case.frames.iter().enumerate() {
            let frame: hf::Frame<SegBuf> = match f {
                WSpec::Flush => {
                    drive!(codec.flush(&mut cx), "flush");
                    continue;
                }
                WSpec::SetMaxFrame(v) => {
                    // the limit applies to frames buffered from now on; flush first so the
                    // byte position of the change is well defined for the oracle
                    drive!(codec.flush(&mut cx), "flush");
                    codec.set_max_send_frame_size(*v as usize);
                    max_frame = *v as usize;
                    let pos = codec.get_mut().written.len();
                    limits.push((pos, max_frame));
                    continue;
                }
                WSpec::Data { stream, len, end_stream, cuts } => {
                    let len = (*len).min(max_frame);
                    let data = mix_bytes(i as u64, 0, len);
                    expect.push(format!("DATA sid={} es={} len={} h={:016x}", stream, end_stream, len, crate::tape::fnv(&data)));
                    if len >= 256 {
                        out.label("data-chained-or-near");
                        out.nontrivial = true;
                    }
                    let mut d = hf::Data::new(hf::StreamId::from(*stream), SegBuf::new(data, cuts));
                    d.set_end_stream(*end_stream);
                    d.into()
                }
                WSpec::Headers { stream, status, nfields, value_len, end_stream, push } => {
                    let mut pseudo = hf::Pseudo::default();
                    let mut fields = Vec::new();
                    if *push {
                        pseudo = hf::Pseudo::request(http::Method::GET, http::Uri::from_static("https://example.com/p"), None);
                        fields.push(Field::new(b":method", b"GET"));
                        fields.push(Field::new(b":scheme", b"https"));
                        fields.push(Field::new(b":authority", b"example.com"));
                        fields.push(Field::new(b":path", b"/p"));
                    } else if let Some(s) = status {
                        pseudo.status = Some(http::StatusCode::from_u16(*s).unwrap());
                        fields.push(Field::new(b":status", s.to_string().as_bytes()));
                    }
                    let mut map = http::HeaderMap::new();
                    for (n, v) in hdr_fields(*stream, *nfields, *value_len) {
                        map.append(http::header::HeaderName::from_bytes(n.as_bytes()).unwrap(), http::header::HeaderValue::from_str(&v).unwrap());
                    }
                    for (n, v) in map.iter() {
                        fields.push(Field::new(n.as_str().as_bytes(), v.as_bytes()));
                    }
                    let sid = hf::StreamId::from(*stream);
                    if *push {
                        expect.push(canon_hdr("PUSH_PROMISE", *stream, *stream + 1, false, &fields));
                        hf::PushPromise::new(sid, hf::StreamId::from(*stream + 1), pseudo, map).into()
                    } else {
                        expect.push(canon_hdr("HEADERS", *stream, 0, *end_stream, &fields));
                        let mut h = hf::Headers::new(sid, pseudo, map);
                        if *end_stream {
                            h.set_end_stream();
                        }
                        h.into()
                    }
                }
                WSpec::Settings { ack, table, push, conc, win, frame, list, connect } => {
                    if *ack {
                        expect.push("SETTINGS ack=true []".into());
                        hf::Settings::ack().into()
                    } else {
                        let mut s = hf::Settings::default();
                        let mut ps: Vec<(u16, u32)> = Vec::new();
                        s.set_header_table_size(*table);
                        s.set_max_concurrent_streams(*conc);
                        s.set_initial_window_size(*win);
                        s.set_max_frame_size(*frame);
                        s.set_max_header_list_size(*list);
                        if let Some(p) = push {
                            s.set_enable_push(*p);
                        }
                        s.set_enable_connect_protocol(*connect);
                        if let Some(v) = table {
                            ps.push((1, *v));
                        }
                        if let Some(v) = push {
                            ps.push((2, *v as u32));
                        }
                        if let Some(v) = conc {
                            ps.push((3, *v));
                        }
                        if let Some(v) = win {
                            ps.push((4, *v));
                        }
                        if let Some(v) = frame {
                            ps.push((5, *v));
                        }
                        if let Some(v) = list {
                            ps.push((6, *v));
                        }
                        if let Some(v) = connect {
                            ps.push((8, *v));
                        }
                        ps.sort();
                        expect.push(format!("SETTINGS ack=false {:?}", ps));
                        s.into()
                    }
                }
                WSpec::Ping { ack, payload } => {
                    expect.push(format!("PING ack={} {:?}", ack, payload));
                    if *ack {
                        hf::Ping::pong(*payload).into()
                    } else {
                        hf::Ping::new(*payload).into()
                    }
                }
                WSpec::GoAway { last, code, debug_len } => {
                    let dbg = mix_bytes(77, 0, *debug_len);
                    expect.push(format!("GOAWAY last={} code={} debug={:016x}/{}", last, code, crate::tape::fnv(&dbg), dbg.len()));
                    hf::GoAway::with_debug_data(hf::StreamId::from(*last), hf::Reason::from(*code), Bytes::from(dbg)).into()
                }
                WSpec::WindowUpdate { stream, inc } => {
                    expect.push(format!("WINDOW_UPDATE sid={} inc={}", stream, inc));
                    hf::WindowUpdate::new(hf::StreamId::from(*stream), *inc).into()
                }
                WSpec::Reset { stream, code } => {
                    expect.push(format!("RST_STREAM sid={} code={}", stream, code));
                    hf::Reset::new(hf::StreamId::from(*stream), hf::Reason::from(*code)).into()
                }
            };
            drive!(codec.poll_ready(&mut cx), "poll_ready");
            if let Err(e) = codec.buffer(frame) {
                out.fail("C12", "codec-write/buffer", "C12/buffer-rejected-valid-frame", format!("frame #{} {:?}: {:?}", i, f, e));
                return out;
            }
        }
        if case.shutdown {
            // close the codec while frames may still be buffered: everything must reach the
            // transport before poll_shutdown, whatever the write plan does
            drive!(codec.shutdown(&mut cx), "shutdown");
            out.label("shutdown-with-buffered-frames");
        } else {
            drive!(codec.flush(&mut cx), "final flush");
        }
        let io = codec.get_mut();
        if case.shutdown && !io.shutdown_called {
            out.fail("C12", "codec-write/shutdown", "C12/shutdown-not-forwarded", "Codec::shutdown completed without poll_shutdown on the transport".to_string());
            return out;
        }
        if io.short_writes > 0 || io.pendings > 0 {
            out.label("partial-writes");
            out.nontrivial = true;
        }
        if io.vectored_calls > 0 {
            out.label("vectored");
        }
        let bytes = io.written.clone();
        // reference parse
        let (raws, sp) = wire::parse_all(&bytes, false);
        if sp.pending_bytes() != 0 {
            out.fail("C12", "codec-write/parse", "C12/output-not-whole-frames", format!("{} trailing bytes are not a complete frame", sp.pending_bytes()));
            return out;
        }
        let mut got: Vec<String> = Vec::new();
        let mut rd = RefDecoder::new(4096);
        let mut open: Option<(String, u32, u32, bool, Vec<u8>)> = None;
        for (start, _end, raw) in &raws {
            let lim = limits.iter().rev().find(|(pos, _)| pos <= start).map(|x| x.1).unwrap_or(16384);
            if raw.payload.len() > lim {
                out.fail(
                    "C12",
                    "codec-write/max-frame",
                    "C12/frame-exceeds-max-frame-size",
                    format!("frame type {} at offset {} has payload {} > peer's SETTINGS_MAX_FRAME_SIZE {}", raw.ty, start, raw.payload.len(), lim),
                );
                return out;
            }
            if raw.r || (raw.flags & !known_flags(raw.ty)) != 0 {
                out.fail("C12", "codec-write/reserved", "C12/reserved-bits-set", format!("frame type {} flags {:#x} r={}", raw.ty, raw.flags, raw.r));
                return out;
            }
            let f = match WFrame::decode(raw) {
                Ok(f) => f,
                Err(e) => {
                    out.fail("C12", "codec-write/decode", "C12/emitted-frame-malformed", format!("frame type {} at {}: {:?}", raw.ty, start, e));
                    return out;
                }
            };
            if let Some((kind, sid, promised, es, mut blk)) = open.take() {
                match f {
                    WFrame::Cont { stream, end_headers, frag } if stream == sid => {
                        out.label("continuation");
                        out.nontrivial = true;
                        blk.extend(frag);
                        if end_headers {
                            match rd.decode_block(&blk) {
                                Ok((fields, _)) => got.push(canon_hdr(&kind, sid, promised, es, &fields)),
                                Err(e) => {
                                    out.fail("C12", "codec-write/hpack", "C12/emitted-block-undecodable", format!("{:?}", e));
                                    return out;
                                }
                            }
                        } else {
                            open = Some((kind, sid, promised, es, blk));
                        }
                        continue;
                    }
                    other => {
                        out.fail("C12", "codec-write/contiguity", "C12/header-block-interrupted", format!("{} inside a header block of stream {}", other.kind(), sid));
                        return out;
                    }
                }
            }
            match f {
                WFrame::Data { stream, end_stream, pad, data } => {
                    if pad.is_some() {
                        got.push("DATA padded?".into());
                    } else {
                        got.push(format!("DATA sid={} es={} len={} h={:016x}", stream, end_stream, data.len(), crate::tape::fnv(&data)));
                    }
                }
                WFrame::Headers { stream, end_stream, end_headers, frag, .. } => {
                    if end_headers {
                        match rd.decode_block(&frag) {
                            Ok((fields, _)) => got.push(canon_hdr("HEADERS", stream, 0, end_stream, &fields)),
                            Err(e) => {
                                out.fail("C12", "codec-write/hpack", "C12/emitted-block-undecodable", format!("{:?}", e));
                                return out;
                            }
                        }
                    } else {
                        open = Some(("HEADERS".into(), stream, 0, end_stream, frag));
                    }
                }
                WFrame::Push { stream, end_headers, promised, frag, .. } => {
                    if end_headers {
                        match rd.decode_block(&frag) {
                            Ok((fields, _)) => got.push(canon_hdr("PUSH_PROMISE", stream, promised, false, &fields)),
                            Err(e) => {
                                out.fail("C12", "codec-write/hpack", "C12/emitted-block-undecodable", format!("{:?}", e));
                                return out;
                            }
                        }
                    } else {
                        open = Some(("PUSH_PROMISE".into(), stream, promised, false, frag));
                    }
                }
                WFrame::Settings { ack, mut params } => {
                    params.sort();
                    got.push(format!("SETTINGS ack={} {:?}", ack, params));
                }
                WFrame::Ping { ack, data } => got.push(format!("PING ack={} {:?}", ack, data)),
                WFrame::GoAway { last, code, debug, .. } => got.push(format!("GOAWAY last={} code={} debug={:016x}/{}", last, code, crate::tape::fnv(&debug), debug.len())),
                WFrame::WinUp { stream, inc, .. } => got.push(format!("WINDOW_UPDATE sid={} inc={}", stream, inc)),
                WFrame::Rst { stream, code } => got.push(format!("RST_STREAM sid={} code={}", stream, code)),
                other => got.push(format!("UNEXPECTED {}", other.kind())),
            }
        }
        if open.is_some() {
            out.fail("C12", "codec-write/contiguity", "C12/header-block-unterminated", "output ends inside a header block".to_string());
            return out;
        }
        if got != expect {
            let k = got.iter().zip(expect.iter()).position(|(a, b)| a != b).unwrap_or(got.len().min(expect.len()));
            out.fail(
                "C12",
                "codec-write/roundtrip",
                "C12/write-roundtrip-differs",
                format!("{} frames parsed, {} submitted; first difference at #{}: got {:?} want {:?}", got.len(), expect.len(), k, got.get(k), expect.get(k)),
            );
        }
        out
    }
}

fn known_flags(ty: u8) -> u8 {
    match ty {
        wire::T_DATA => 0x1 | 0x8,
        wire::T_HEADERS => 0x1 | 0x4 | 0x8 | 0x20,
        wire::T_SETTINGS | wire::T_PING => 0x1,
        wire::T_PUSH => 0x4 | 0x8,
        wire::T_CONT => 0x4,
        _ => 0,
    }
}

// ------------------------------------------------------------ read side

#[derive(Clone, Debug, Serialize, Deserialize)]
pub struct RFrame {
    pub frame: WFrame,
    pub extra_flags: u8,
    pub r_bit: bool,
    pub pad_byte: u8,
    /// for header-carrying frames: fields to encode (reference encoder) and CONTINUATION split offsets
    pub fields: Vec<(String, String)>,
    pub splits: Vec<usize>,
}

#[derive(Clone, Debug, Serialize, Deserialize)]
pub struct RCase {
    pub read_plan: Vec<u16>,
    pub max_recv_frame: Option<u32>,
    pub frames: Vec<RFrame>,
    /// after the well-formed frames: a frame header announcing this length (payload withheld); 0 = none
    pub oversize_len: u32,
    pub oversize_type: u8,
}

pub struct ReadEngine;

fn undefined_flags(ty: u8) -> u8 {
    // flag bits with no meaning for the type (must be ignored, RFC 9113 §4.1)
    !known_flags(ty)
}

fn gen_rframe(t: &mut Tape, max_recv: usize) -> RFrame {
    let stream = 1 + 2 * t.below(30) as u32;
    let pad = |t: &mut Tape| if t.chance(1, 3) { Some(*t.pick(&[0u8, 1, 7, 100, 255])) } else { None };
    let mut fields = Vec::new();
    let mut splits = Vec::new();
    let frame = match t.weighted(&[8, 5, 2, 2, 3, 2, 2, 2, 3, 3]) {
        0 => {
            let p = pad(t);
            let room = max_recv - p.map(|p| p as usize + 1).unwrap_or(0);
            let len = match t.weighted(&[5, 2, 1]) {
                0 => *t.pick(LENS),
                1 => t.below(2000),
                _ => {
                    if room <= 110_000 || t.chance(1, 30) { room - t.below(2).min(room) } else { 16384 - t.below(2) }
                }
            }
            .min(room);
            WFrame::Data { stream, end_stream: t.bool(), pad: p, data: mix_bytes(stream as u64, 0, len) }
        }
        1 => {
            let n = match t.below(3) {
                0 => t.below(4),
                1 => t.below(20),
                _ => 20 + t.below(80),
            };
            fields.push((":status".to_string(), "200".to_string()));
            for i in 0..n {
                fields.push((format!("x-r{}", (i + stream as usize) % 41), "w".repeat(t.below(40)) + &i.to_string()));
            }
            let ns = t.below(4);
            splits = (0..ns).map(|_| t.below(2000)).collect();
            WFrame::Headers {
                stream,
                end_stream: t.bool(),
                end_headers: true,
                pad: pad(t),
                prio: if t.chance(1, 3) { Some(Prio { exclusive: t.bool(), dep: stream + 2, weight: t.below(256) as u8 }) } else { None },
                frag: vec![],
            }
        }
        2 => WFrame::Priority { stream, prio: Prio { exclusive: t.bool(), dep: if t.bool() { 0 } else { stream + 2 }, weight: t.below(256) as u8 } },
        3 => WFrame::Rst { stream, code: if t.bool() { t.below(14) as u32 } else { t.u32() } },
        4 => {
            if t.chance(1, 4) {
                WFrame::Settings { ack: true, params: vec![] }
            } else {
                let n = t.below(8);
                let params = (0..n)
                    .map(|_| match t.below(9) {
                        0 => (1u16, *t.pick(&[0u32, 4096, 1 << 20])),
                        1 => (2, t.below(2) as u32),
                        2 => (3, if t.bool() { *t.pick(&[0u32, 1, 100, u32::MAX]) } else { t.u32() }),
                        3 => (4, if t.bool() { *t.pick(&[0u32, 1, 65535, 0x7fff_fffe, 0x7fff_ffff]) } else { t.below(0x8000_0000) as u32 }),
                        4 => (5, if t.bool() { *t.pick(&[16384u32, 16385, (1 << 24) - 2, (1 << 24) - 1]) } else { 16384 + t.below((1 << 24) - 16384) as u32 }),
                        5 => (6, t.u32()),
                        6 => (8, t.below(2) as u32),
                        7 => (0x7f00 + t.below(100) as u16, t.u32()),
                        _ => (0, t.u32()),
                    })
                    .collect();
                WFrame::Settings { ack: false, params }
            }
        }
        5 => {
            fields.push((":method".to_string(), "GET".to_string()));
            fields.push((":scheme".to_string(), "https".to_string()));
            fields.push((":authority".to_string(), "example.com".to_string()));
            fields.push((":path".to_string(), "/pushed".to_string()));
            let ns = t.below(3);
            splits = (0..ns).map(|_| 1 + t.below(60)).collect();
            WFrame::Push { stream, end_headers: true, pad: pad(t), promised: 2 + 2 * t.below(100) as u32, promised_r: t.chance(1, 4), frag: vec![] }
        }
        6 => {
            let b = t.bytes(8);
            let mut d = [0u8; 8];
            d.copy_from_slice(&b);
            WFrame::Ping { ack: t.bool(), data: d }
        }
        7 => WFrame::GoAway { last: t.below(0x8000_0000) as u32, last_r: t.chance(1, 4), code: if t.bool() { t.below(14) as u32 } else { t.u32() }, debug: mix_bytes(5, 0, *t.pick(&[0usize, 1, 100, 16000])) },
        8 => WFrame::WinUp { stream: if t.bool() { 0 } else { stream }, inc: 1 + t.below(0x7fff_fffe) as u32, inc_r: t.chance(1, 4) },
        _ => WFrame::Unknown { ty: 10 + t.below(240) as u8, flags: t.below(256) as u8, stream: if t.bool() { 0 } else { stream }, payload: { let n = *t.pick(&[0usize, 1, 9, 500]); t.bytes(n) } },
    };
    let ty = frame.to_raw(0, 0).ty;
    RFrame {
        extra_flags: if t.chance(1, 3) { (t.below(256) as u8) & undefined_flags(ty) & if ty > 9 { 0 } else { 0xff } } else { 0 },
        r_bit: t.chance(1, 5),
        // RFC 9113 §6.1: a receiver MAY reject non-zero padding, so only zero padding is "well-formed for sure"
        pad_byte: 0,
        frame,
        fields,
        splits,
    }
}

impl Engine for ReadEngine {
    type Case = RCase;
    fn name(&self) -> &'static str {
        "codec-read"
    }
    fn tape_lens(&self) -> Vec<usize> {
        vec![300, 120]
    }
    fn gen(&self, tapes: &[Vec<u32>]) -> RCase {
        let mut t = Tape::new(&tapes[0]);
        let max_recv_frame = if t.chance(1, 3) { Some(*t.pick(&[16384u32, 16385, 20000, 100000, 0xff_ffff])) } else { None };
        let lim = max_recv_frame.unwrap_or(16384) as usize;
        let n = t.below(14);
        let frames = (0..n).map(|_| gen_rframe(&mut t, lim)).collect();
        let (oversize_len, oversize_type) = if t.chance(1, 3) && lim < 0xff_ffff - 1001 { (lim as u32 + 1 + *t.pick(&[0u32, 1, 1000]), *t.pick(&[0u8, 1, 4, 6, 9, 0x50])) } else { (0, 0) };
        let mut t2 = Tape::new(&tapes[1]);
        let np = t2.below(120);
        RCase { read_plan: (0..np).map(|_| t2.u32() as u16).collect(), max_recv_frame, frames, oversize_len: oversize_len.min(0xff_ffff), oversize_type }
    }
    fn rule(&self) -> String {
        "generated well-formed frames of all 10 types + unknown types (all flag bits incl. undefined, padding 0..255 with arbitrary pad bytes, priority fields, reserved bits, CONTINUATION chains) serialised by the reference and read through h2's Codec whole and under a scripted read chunking (1 byte … whole, Pending in between); results must equal the reference expectation and each other; optionally a frame header announcing length > max_recv_frame_size must yield FRAME_SIZE_ERROR from the header alone; non-trivial = ≥1 frame crossed a read boundary or CONTINUATION or the oversize probe ran".into()
    }
    fn run(&self, case: &RCase) -> Outcome {
        let mut out = Outcome::default();
        let mut bytes = Vec::new();
        let mut expect: Vec<String> = Vec::new();
        let mut enc = RefEncoder::new(4096);
        for rf in &case.frames {
            match &rf.frame {
                WFrame::Headers { stream, end_stream, pad, prio, .. } => {
                    let mut blk = Vec::new();
                    let mut fl = Vec::new();
                    for (n, v) in &rf.fields {
                        let f = Field::new(n.as_bytes(), v.as_bytes());
                        enc.field(&mut blk, &f, Choice { repr: Repr::Indexed, name_ref: true, huff_name: false, huff_value: v.len() % 2 == 0, pad_int: 0, oldest: false });
                        fl.push(f);
                    }
                    let b = header_frames_ext(*stream, &blk, &rf.splits, *pad, *prio, None, *end_stream, rf.extra_flags, rf.r_bit, rf.pad_byte);
                    if rf.splits.iter().any(|&c| c > 0 && c < blk.len()) {
                        out.label("continuation");
                        out.nontrivial = true;
                    }
                    bytes.extend(b);
                    expect.push(expect_headers("HEADERS", *stream, 0, *end_stream, &fl));
                }
                WFrame::Push { stream, pad, promised, .. } => {
                    let mut blk = Vec::new();
                    let mut fl = Vec::new();
                    for (n, v) in &rf.fields {
                        let f = Field::new(n.as_bytes(), v.as_bytes());
                        enc.field(&mut blk, &f, Choice::compact());
                        fl.push(f);
                    }
                    let b = header_frames_ext(*stream, &blk, &rf.splits, *pad, None, Some(*promised), false, rf.extra_flags, rf.r_bit, rf.pad_byte);
                    bytes.extend(b);
                    expect.push(expect_headers("PUSH_PROMISE", *stream, *promised, false, &fl));
                }
                f => {
                    let mut raw = f.to_raw(rf.extra_flags, rf.pad_byte);
                    raw.r = rf.r_bit;
                    bytes.extend(raw.encode());
                    if let Some(e) = expect_plain(f) {
                        expect.push(e);
                    }
                }
            }
        }
        let well_formed_len = bytes.len();
        if case.oversize_len > 0 {
            let raw = wire::RawFrame::new(case.oversize_type, 0, if matches!(case.oversize_type, 4 | 6) { 0 } else { 1 }, vec![]);
            let mut v = Vec::new();
            raw.encode_with_len(case.oversize_len, &mut v);
            bytes.extend(v);
            out.label("oversize-probe");
            out.nontrivial = true;
        }
        let mf = case.max_recv_frame.map(|v| v as usize);
        let whole = read_all(bytes.clone(), vec![], mf);
        let chunked = read_all(bytes.clone(), case.read_plan.clone(), mf);
        if !case.read_plan.is_empty() && well_formed_len > 0 {
            out.label("chunked-read");
            out.nontrivial = true;
        }
        let mut exp = expect.clone();
        if case.oversize_len > 0 {
            exp.push("ERR GoAway(b\"\", FRAME_SIZE_ERROR, Library)".into());
        } else {
            exp.push("STALL".into()); // input ends, no EOF: the codec simply waits
        }
        for (name, got) in [("whole", &whole), ("chunked", &chunked)] {
            if *got != exp {
                let k = got.iter().zip(exp.iter()).position(|(a, b)| a != b).unwrap_or(got.len().min(exp.len()));
                let sig = if k + 1 == exp.len() && case.oversize_len > 0 {
                    "C12/oversize-frame-not-rejected-at-header"
                } else if name == "chunked" && whole == exp {
                    "C12/read-depends-on-chunking"
                } else {
                    "C12/read-roundtrip-differs"
                };
                out.fail(
                    "C12",
                    "codec-read/roundtrip",
                    sig,
                    format!("{} read: item #{}: h2 parsed {:?}, reference expects {:?} (max_recv_frame {:?})", name, k, got.get(k), exp.get(k), case.max_recv_frame),
                );
                return out;
            }
        }
        out
    }
}

fn read_all(bytes: Vec<u8>, plan: Vec<u16>, max_frame: Option<usize>) -> Vec<String> {
    // eof=false: reuse codec_read_all but with a reader that never reports EOF
    let v = codec_read_all_noeof(bytes, plan, max_frame);
    v
}

fn codec_read_all_noeof(bytes: Vec<u8>, plan: Vec<u16>, max_frame: Option<usize>) -> Vec<String> {
    use futures_core::Stream;
    use std::pin::Pin;
    let io = ScriptIo::reader(bytes, plan, false);
    let mut codec: Codec<ScriptIo, Bytes> = Codec::new(io);
    if let Some(m) = max_frame {
        codec.set_max_recv_frame_size(m);
    }
    codec.set_max_recv_header_list_size(1 << 26);
    let w = noop_waker();
    let mut cx = Context::from_waker(&w);
    let mut out = Vec::new();
    let mut idle = 0;
    let mut last_pos = 0usize;
    loop {
        match Pin::new(&mut codec).poll_next(&mut cx) {
            Poll::Ready(Some(Ok(f))) => {
                idle = 0;
                out.push(canon_h2(f));
            }
            Poll::Ready(Some(Err(e))) => {
                out.push(format!("ERR {:?}", e));
                break;
            }
            Poll::Ready(None) => {
                out.push("EOF".into());
                break;
            }
            Poll::Pending => {
                let pos = codec.get_mut().rpos;
                if pos != last_pos {
                    last_pos = pos;
                    idle = 0;
                }
                idle += 1;
                if idle > 4 {
                    out.push("STALL".into());
                    break;
                }
            }
        }
    }
    let _ = codec_read_all;
    out
}

fn expect_headers(kind: &str, stream: u32, promised: u32, es: bool, fields: &[Field]) -> String {
    // h2 hands regular fields up in an http::HeaderMap: values grouped by name
    // (first-appearance order of names, arrival order within a name)
    let mut pseudo: Vec<String> = Vec::new();
    let mut names: Vec<&[u8]> = Vec::new();
    for f in fields {
        if f.name.starts_with(b":") {
            pseudo.push(format!("{}={}", show(&f.name), show(&f.value)));
        } else if !names.contains(&&f.name[..]) {
            names.push(&f.name);
        }
    }
    let mut reg = String::new();
    for n in names {
        for f in fields.iter().filter(|f| &f.name[..] == n) {
            reg.push_str(&format!("{}={};", show(&f.name), show(&f.value)));
        }
    }
    format!("{} sid={} promised={} es={} pseudo={:?} fields={}", kind, stream, promised, es, pseudo, reg)
}

fn canon_h2(f: hf::Frame) -> String {
    fn pseudo_list(p: &hf::Pseudo) -> Vec<String> {
        let mut v = Vec::new();
        if let Some(m) = &p.method {
            v.push(format!(":method={}", m.as_str()));
        }
        if let Some(s) = &p.scheme {
            v.push(format!(":scheme={}", &**s));
        }
        if let Some(s) = &p.authority {
            v.push(format!(":authority={}", &**s));
        }
        if let Some(s) = &p.path {
            v.push(format!(":path={}", &**s));
        }
        if let Some(s) = &p.protocol {
            v.push(format!(":protocol={}", s.as_str()));
        }
        if let Some(s) = &p.status {
            v.push(format!(":status={}", s.as_u16()));
        }
        v
    }
    fn regs(m: &http::HeaderMap) -> String {
        let mut s = String::new();
        for (n, v) in m.iter() {
            s.push_str(&format!("{}={};", n.as_str(), show(v.as_bytes())));
        }
        s
    }
    match f {
        hf::Frame::Data(d) => {
            let sid: u32 = d.stream_id().into();
            format!("DATA sid={} es={} len={} h={:016x}", sid, d.is_end_stream(), d.payload().len(), crate::tape::fnv(d.payload()))
        }
        hf::Frame::Headers(h) => {
            let sid: u32 = h.stream_id().into();
            let es = h.is_end_stream();
            let (p, m) = h.into_parts();
            format!("HEADERS sid={} promised=0 es={} pseudo={:?} fields={}", sid, es, pseudo_list(&p), regs(&m))
        }
        hf::Frame::PushPromise(h) => {
            let sid: u32 = h.stream_id().into();
            let pid: u32 = h.promised_id().into();
            let (p, m) = h.into_parts();
            format!("PUSH_PROMISE sid={} promised={} es=false pseudo={:?} fields={}", sid, pid, pseudo_list(&p), regs(&m))
        }
        hf::Frame::Priority(p) => format!("{:?}", p),
        hf::Frame::Settings(s) => {
            if s.is_ack() {
                "SETTINGS ack".to_string()
            } else {
                format!(
                    "SETTINGS table={:?} push={:?} conc={:?} win={:?} frame={:?} list={:?} connect={:?}",
                    s.header_table_size(),
                    s.is_push_enabled(),
                    s.max_concurrent_streams(),
                    s.initial_window_size(),
                    s.max_frame_size(),
                    s.max_header_list_size(),
                    s.is_extended_connect_protocol_enabled()
                )
            }
        }
        hf::Frame::Ping(p) => format!("PING ack={} {:?}", p.is_ack(), p.payload()),
        hf::Frame::GoAway(g) => {
            let last: u32 = g.last_stream_id().into();
            let code: u32 = g.reason().into();
            format!("GOAWAY last={} code={} debug={:016x}/{}", last, code, crate::tape::fnv(g.debug_data()), g.debug_data().len())
        }
        hf::Frame::WindowUpdate(w) => {
            let sid: u32 = w.stream_id().into();
            format!("WINDOW_UPDATE sid={} inc={}", sid, w.size_increment())
        }
        hf::Frame::Reset(r) => {
            let sid: u32 = r.stream_id().into();
            let code: u32 = r.reason().into();
            format!("RST_STREAM sid={} code={}", sid, code)
        }
    }
}

/// What h2 must hand up for a well-formed non-header frame (None = silently ignored).
fn expect_plain(f: &WFrame) -> Option<String> {
    Some(match f {
        WFrame::Data { stream, end_stream, data, .. } => format!("DATA sid={} es={} len={} h={:016x}", stream, end_stream, data.len(), crate::tape::fnv(data)),
        WFrame::Priority { stream, prio } => format!(
            "Priority {{ stream_id: StreamId({}), dependency: StreamDependency {{ dependency_id: StreamId({}), weight: {}, is_exclusive: {} }} }}",
            stream, prio.dep, prio.weight, prio.exclusive
        ),
        WFrame::Rst { stream, code } => format!("RST_STREAM sid={} code={}", stream, code),
        WFrame::Settings { ack, params } => {
            if *ack {
                "SETTINGS ack".to_string()
            } else {
                let last = |id: u16| params.iter().rev().find(|p| p.0 == id).map(|p| p.1);
                format!(
                    "SETTINGS table={:?} push={:?} conc={:?} win={:?} frame={:?} list={:?} connect={:?}",
                    last(1),
                    last(2).map(|v| v != 0),
                    last(3),
                    last(4),
                    last(5),
                    last(6),
                    last(8).map(|v| v != 0)
                )
            }
        }
        WFrame::Ping { ack, data } => format!("PING ack={} {:?}", ack, data),
        WFrame::GoAway { last, code, debug, .. } => format!("GOAWAY last={} code={} debug={:016x}/{}", last, code, crate::tape::fnv(debug), debug.len()),
        WFrame::WinUp { stream, inc, .. } => format!("WINDOW_UPDATE sid={} inc={}", stream, inc),
        WFrame::Unknown { .. } => return None,
        WFrame::Headers { .. } | WFrame::Push { .. } | WFrame::Cont { .. } => unreachable!(),
    })
}

#[allow(clippy::too_many_arguments)]
fn header_frames_ext(stream: u32, block: &[u8], splits: &[usize], pad: Option<u8>, prio: Option<Prio>, promised: Option<u32>, end_stream: bool, extra_flags: u8, r_bit: bool, pad_byte: u8) -> Vec<u8> {
    let mut cuts: Vec<usize> = splits.iter().copied().filter(|&c| c <= block.len()).collect();
    cuts.sort();
    cuts.dedup();
    let mut pieces = Vec::new();
    let mut last = 0;
    for c in cuts {
        pieces.push(&block[last..c]);
        last = c;
    }
    pieces.push(&block[last..]);
    let n = pieces.len();
    let mut bytes = Vec::new();
    for (i, p) in pieces.iter().enumerate() {
        let f = if i == 0 {
            match promised {
                Some(pid) => WFrame::Push { stream, end_headers: n == 1, pad, promised: pid, promised_r: false, frag: p.to_vec() },
                None => WFrame::Headers { stream, end_stream, end_headers: n == 1, pad, prio, frag: p.to_vec() },
            }
        } else {
            WFrame::Cont { stream, end_headers: i + 1 == n, frag: p.to_vec() }
        };
        let ty = f.to_raw(0, 0).ty;
        let mut raw = f.to_raw(extra_flags & undefined_flags(ty), pad_byte);
        raw.r = r_bit;
        bytes.extend(raw.encode());
    }
    let _ = header_frames;
    bytes
}
