//! Small helpers shared by the engines.

/// serde: `Vec<u8>` as a hex string (replay files stay readable and small).
pub mod hexser {
    use serde::{Deserialize, Deserializer, Serializer};
    pub fn serialize<S: Serializer>(v: &Vec<u8>, s: S) -> Result<S::Ok, S::Error> {
        s.serialize_str(&super::hex(v))
    }
    pub fn deserialize<'de, D: Deserializer<'de>>(d: D) -> Result<Vec<u8>, D::Error> {
        let s = String::deserialize(d)?;
        super::unhex(&s).ok_or_else(|| serde::de::Error::custom("bad hex"))
    }
}

pub fn hex(v: &[u8]) -> String {
    let mut s = String::with_capacity(v.len() * 2);
    for b in v {
        s.push_str(&format!("{:02x}", b));
    }
    s
}

pub fn unhex(s: &str) -> Option<Vec<u8>> {
    if s.len() % 2 != 0 {
        return None;
    }
    (0..s.len() / 2).map(|i| u8::from_str_radix(&s[2 * i..2 * i + 2], 16).ok()).collect()
}

/// Printable rendering of bytes for messages.
pub fn show(v: &[u8]) -> String {
    let mut s = String::new();
    for &b in v.iter().take(80) {
        if (0x20..0x7f).contains(&b) && b != b'\\' {
            s.push(b as char);
        } else {
            s.push_str(&format!("\\x{:02x}", b));
        }
    }
    if v.len() > 80 {
        s.push_str(&format!("…({}B)", v.len()));
    }
    s
}

thread_local! {
    pub static LAST_PANIC: std::cell::RefCell<Option<String>> = std::cell::RefCell::new(None);
}

/// Panics are caught by the engines (catch_unwind); the hook records message
/// and location instead of printing.
pub fn install_panic_hook() {
    std::panic::set_hook(Box::new(|info| {
        let msg = if let Some(s) = info.payload().downcast_ref::<&str>() {
            s.to_string()
        } else if let Some(s) = info.payload().downcast_ref::<String>() {
            s.clone()
        } else {
            "<non-string panic>".to_string()
        };
        let loc = info.location().map(|l| format!("{}:{}", l.file(), l.line())).unwrap_or_default();
        LAST_PANIC.with(|p| *p.borrow_mut() = Some(format!("{} @ {}", msg, loc)));
        if std::env::var("VERIF_SHOW_PANICS").is_ok() {
            eprintln!("panic: {} @ {}", msg, loc);
        }
        if std::env::var("VERIF_BT").is_ok() {
            eprintln!("{}", std::backtrace::Backtrace::force_capture());
        }
    }));
}

pub fn put_panic(m: String) {
    LAST_PANIC.with(|p| *p.borrow_mut() = Some(m));
}

pub fn take_panic() -> Option<String> {
    LAST_PANIC.with(|p| p.borrow_mut().take())
}
