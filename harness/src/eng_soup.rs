//! C08: frame soup. An h2 server or client faces a generated sequence of
//! frames — well-formed ones that follow the conversation, mutated ones
//! (flags, length field, type, stream id, payload bytes, truncation), illegal
//! SETTINGS / WINDOW_UPDATE values, wrong fixed sizes, stray CONTINUATIONs and
//! plain garbage — under generated chunking and scheduling, optionally with
//! its own writes blocked, and finally loses the peer (EOF, sometimes in the
//! middle of a frame). Whatever arrives, the endpoint must not panic, spin,
//! produce output without end inside one poll, or leave an operation of its
//! application hanging once the peer is gone.

use crate::eng_raw::*;
use crate::oracles::strip_digits;
use crate::refmodel::hpack::{Choice, Field, RefEncoder};
use crate::refmodel::wire::{self, Frame, Prio, RawFrame};
use crate::runner::{Engine, Outcome};
use crate::sim::*;
use crate::sim_pair::*;
use crate::sim_raw::*;
use crate::tape::Tape;

fn block(fields: &[(&str, String)]) -> Vec<u8> {
    // literal without indexing: no dynamic-table state on either side
    let mut enc = RefEncoder::new(4096);
    let mut b = Vec::new();
    for (n, v) in fields {
        enc.field(&mut b, &Field::new(n.as_bytes(), v.as_bytes()), Choice::plain());
    }
    b
}

fn mutate(t: &mut Tape, mut bytes: Vec<u8>, known_streams: &[u32]) -> (Vec<u8>, &'static str) {
    if bytes.len() < 9 {
        return (bytes, "none");
    }
    let plen = bytes.len() - 9;
    match t.weighted(&[3, 3, 3, 2, 3, 3, 2, 2]) {
        0 => {
            bytes[4] ^= 1 << t.below(8);
            (bytes, "flag-flip")
        }
        1 => {
            // length field only: the following bytes are read as something else
            let nl = *t.pick(&[0usize, plen.saturating_sub(1), plen + 1, plen + 9, 16384, 16385, 0xff_ffff]);
            bytes[0] = (nl >> 16) as u8;
            bytes[1] = (nl >> 8) as u8;
            bytes[2] = nl as u8;
            (bytes, "length-field")
        }
        2 => {
            // consistent resize: payload cut or extended together with the length field
            let nl = match t.below(4) {
                0 => 0,
                1 => plen.saturating_sub(1 + t.below(4)),
                2 => plen + 1 + t.below(8),
                _ => t.below(plen + 1),
            };
            bytes.resize(9 + nl, 0);
            bytes[0] = (nl >> 16) as u8;
            bytes[1] = (nl >> 8) as u8;
            bytes[2] = nl as u8;
            (bytes, "resize")
        }
        3 => {
            bytes[3] = if t.bool() { t.below(10) as u8 } else { t.u32() as u8 };
            (bytes, "type")
        }
        4 => {
            let id: u32 = match t.below(6) {
                0 => 0,
                1 => 2 + 2 * t.below(5) as u32,
                2 => 0x7fff_ffff,
                3 => known_streams.get(t.below(known_streams.len().max(1))).copied().unwrap_or(1),
                4 => 1 + 2 * t.below(40) as u32,
                _ => t.u32() & 0x7fff_ffff,
            };
            let r = if t.chance(1, 4) { 0x8000_0000u32 } else { 0 };
            bytes[5..9].copy_from_slice(&(id | r).to_be_bytes());
            (bytes, "stream-id")
        }
        5 => {
            if plen > 0 {
                for _ in 0..1 + t.below(3) {
                    let i = 9 + t.below(plen);
                    bytes[i] = if t.bool() { bytes[i] ^ (1 << t.below(8)) } else { t.u32() as u8 };
                }
            }
            (bytes, "payload-bytes")
        }
        6 => {
            let k = t.below(bytes.len());
            bytes.truncate(k);
            (bytes, "truncated")
        }
        _ => {
            // duplicate the frame back to back
            let c = bytes.clone();
            bytes.extend(c);
            (bytes, "duplicated")
        }
    }
}

const SETTINGS_VALUES: &[(u16, u32)] = &[
    (1, 0),
    (1, 100),
    (1, 0xffff_ffff),
    (2, 0),
    (2, 1),
    (2, 2),
    (3, 0),
    (3, 1),
    (3, 0xffff_ffff),
    (4, 0),
    (4, 1),
    (4, 65535),
    (4, 0x7fff_ffff),
    (4, 0x8000_0000),
    (5, 0),
    (5, 1),
    (5, 16383),
    (5, 16384),
    (5, 0xff_ffff),
    (5, 0x100_0000),
    (6, 0),
    (6, 10),
    (8, 1),
    (8, 2),
    (9, 7),
    (0, 0),
    (0xffff, 0xffff_ffff),
];

pub fn gen_soup(tapes: &[Vec<u32>], server: bool) -> RawCase {
    let mut t = Tape::new(&tapes[0]);
    let mut cfg = plain_cfg();
    if t.chance(1, 3) {
        cfg.max_concurrent = Some(*t.pick(&[0u32, 1, 3, 100]));
    }
    if t.chance(1, 4) {
        cfg.initial_window = Some(*t.pick(&[0u32, 1, 100, 70000]));
    }
    if t.chance(1, 4) {
        cfg.max_header_list = Some(*t.pick(&[10u32, 100, 4000]));
    }
    if t.chance(1, 4) {
        cfg.reset_max = Some(*t.pick(&[0usize, 1, 3]));
    }
    cfg.reset_dur_zero = t.chance(1, 3);
    if !server && t.chance(1, 3) {
        cfg.enable_push = Some(false);
    }
    let mut reqs: Vec<Req> = Vec::new();
    let nreq = if server { 0 } else { 1 + t.below(4) };
    for i in 0..nreq {
        let mut r = default_req(i as u32 + 1);
        r.delay = t.below(30);
        if t.bool() {
            r.method = "POST".into();
            r.req.eos_on_head = false;
            r.req.chunks = vec![Chunk { len: *t.pick(&[1usize, 100, 20000, 70000]), reserve: t.bool(), cuts: vec![], delay: t.below(5), hold: 0 }];
            r.req.trailers = if t.chance(1, 4) { Some(1) } else { None };
        }
        reqs.push(r);
    }
    let mut script: Vec<PStep> = vec![];
    if t.chance(5, 6) {
        script.push(PStep::Barrier);
    }
    let mut waited = 0usize;
    if !server && t.chance(3, 4) {
        waited = 1 + t.below(nreq);
        script.push(PStep::WaitStreams(waited));
    }
    // streams the soup talks about: opened by the peer (server under test) or by the endpoint (client under test;
    // mostly those it is known to have opened already, sometimes all it ever will)
    let known = if waited > 0 && t.chance(3, 4) { waited } else { nreq };
    let mut streams: Vec<u32> = if server { vec![] } else { (0..known as u32).map(|i| 2 * i + 1).collect() };
    let mut next_id: u32 = if server { 1 } else { 2 };
    let n_items = 1 + t.below(28);
    let mut labels: Vec<&'static str> = Vec::new();
    // how hostile: a conversation that is mostly legal reaches deep states before the one bad element arrives;
    // a fully hostile one dies on its first frames
    let hostility = t.weighted(&[4, 3, 3]);
    labels.push(["hostility-low", "hostility-medium", "hostility-high"][hostility]);
    let mut_den = [16u32, 6, 3][hostility];
    let weights: [u32; 14] = match hostility {
        0 => [8, 7, 3, 6, 4, 2, 2, 0, 2, 1, 0, 1, 0, 0],
        1 => [7, 6, 4, 5, 3, 2, 3, 1, 2, 1, 1, 2, 1, 1],
        _ => [7, 6, 4, 4, 3, 2, 3, 3, 2, 2, 2, 2, 2, 1],
    };
    for _ in 0..n_items {
        let pick_stream = |t: &mut Tape, streams: &Vec<u32>| -> u32 {
            if streams.is_empty() || t.chance(1, if hostility == 0 { 60 } else { 10 }) {
                1 + 2 * t.below(6) as u32
            } else if t.chance(2, 3) {
                *streams.last().unwrap()
            } else {
                streams[t.below(streams.len())]
            }
        };
        // (frame, is it a head-block frame that the reference peer should encode itself when unmutated)
        let kind = t.weighted(&weights);
        let frame: Frame = match kind {
            0 => {
                // open a stream: request (peer = client) or promise (peer = server)
                let id = next_id;
                next_id += 2;
                let mut f: Vec<(&str, String)> = vec![(":method", (*t.pick(&["GET", "POST", "HEAD", "CONNECT", "PUT"])).to_string()), (":scheme", "https".into()), (":authority", "example.com".into()), (":path", format!("/s/{}", id))];
                if t.chance(1, 3) {
                    f.push(("content-length", (*t.pick(&["0", "5", "10", "x", "18446744073709551616"])).to_string()));
                }
                if t.chance(1, if hostility == 0 { 30 } else { 6 }) {
                    f.push((*t.pick(&["te", "connection", "Upper", ":late", ""]), "x".into()));
                }
                if t.chance(1, if hostility == 0 { 40 } else { 8 }) {
                    f.remove(t.below(4));
                }
                // (the parent of a promise is one of the streams known before it)
                let parent = pick_stream(&mut t, &streams);
                streams.push(id);
                if server {
                    Frame::Headers { stream: id, end_stream: t.bool(), end_headers: t.chance(7, 8), pad: if t.chance(1, 6) { Some(t.below(20) as u8) } else { None }, prio: if t.chance(1, 6) { Some(Prio { exclusive: t.bool(), dep: if t.bool() { id } else { 0 }, weight: 3 }) } else { None }, frag: block(&f) }
                } else {
                    if t.chance(1, 2) {
                        // push story: 1-3 promises, each followed by its pushed response (and sometimes a body) — either
                        // one after the other, or all promises first and the responses afterwards
                        let k = 1 + t.below(3);
                        let promises_first = t.bool();
                        let mut ids = vec![id];
                        for _ in 1..k {
                            ids.push(next_id);
                            streams.push(next_id);
                            next_id += 2;
                        }
                        let promise = |pid: u32| PStep::Raw(Frame::Push { stream: parent, end_headers: true, pad: None, promised: pid, promised_r: false, frag: block(&[(":method", "GET".to_string()), (":scheme", "https".into()), (":authority", "example.com".into()), (":path", format!("/p/{}", pid))]) }.encode());
                        if promises_first {
                            for pid in &ids {
                                script.push(promise(*pid));
                            }
                        }
                        for pid in &ids {
                            if !promises_first {
                                script.push(promise(*pid));
                            }
                            let es = t.chance(1, 3);
                            script.push(PStep::Raw(Frame::Headers { stream: *pid, end_stream: es, end_headers: true, pad: None, prio: None, frag: block(&[(":status", "200".to_string())]) }.encode()));
                            if !es && t.bool() {
                                script.push(PStep::Raw(Frame::Data { stream: *pid, end_stream: t.bool(), pad: None, data: vec![0x5a; *t.pick(&[0usize, 10, 1000])] }.encode()));
                            }
                        }
                        labels.push("push-story");
                        continue;
                    }
                    Frame::Push { stream: parent, end_headers: t.chance(7, 8), pad: None, promised: id, promised_r: false, frag: block(&f) }
                }
            }
            1 => Frame::Data { stream: pick_stream(&mut t, &streams), end_stream: t.chance(1, 3), pad: if t.chance(1, 5) { Some(*t.pick(&[0u8, 1, 200, 255])) } else { None }, data: vec![0x5a; *t.pick(&[0usize, 1, 5, 10, 100, 16384, 16385, 70000])] },
            2 => Frame::Rst { stream: pick_stream(&mut t, &streams), code: *t.pick(&[0u32, 1, 2, 5, 7, 8, 11, 0xdead_beef]) },
            3 => {
                // a response head, trailers, or a second head
                let s = pick_stream(&mut t, &streams);
                let f: Vec<(&str, String)> = match t.below(5) {
                    0 => vec![(":status", "200".into())],
                    1 => vec![(":status", "103".into())],
                    2 => vec![("x-trailer", "1".into())],
                    3 => vec![(":status", "200".into()), ("content-length", "3".into())],
                    _ => vec![(":method", "GET".into()), (":scheme", "https".into()), (":path", "/again".into())],
                };
                Frame::Headers { stream: s, end_stream: t.bool(), end_headers: t.chance(7, 8), pad: None, prio: None, frag: block(&f) }
            }
            4 => Frame::WinUp { stream: if t.bool() { 0 } else { pick_stream(&mut t, &streams) }, inc: *t.pick(&[0u32, 1, 1000, 65535, 0x7fff_0000, 0x7fff_ffff]), inc_r: t.chance(1, 8) },
            5 => Frame::Ping { ack: t.chance(1, 3), data: [t.u32() as u8; 8] },
            6 => {
                let n = t.below(4);
                Frame::Settings { ack: false, params: (0..n).map(|_| *t.pick(SETTINGS_VALUES)).collect() }
            }
            7 => Frame::Settings { ack: true, params: if t.chance(1, 4) { vec![(4, 100)] } else { vec![] } },
            8 => Frame::Priority { stream: if t.bool() { pick_stream(&mut t, &streams) } else { 0 }, prio: Prio { exclusive: t.bool(), dep: pick_stream(&mut t, &streams), weight: t.u32() as u8 } },
            9 => Frame::GoAway { last: *t.pick(&[0u32, 1, 3, 0x7fff_ffff]), last_r: t.chance(1, 8), code: *t.pick(&[0u32, 1, 2, 11, 0xffff_ffff]), debug: vec![b'd'; t.below(20)] },
            10 => Frame::Cont { stream: pick_stream(&mut t, &streams), end_headers: t.bool(), frag: if t.bool() { vec![] } else { block(&[("x-c", "1".into())]) } },
            11 => Frame::Unknown { ty: 10 + t.below(240) as u8, flags: t.u32() as u8, stream: if t.bool() { 0 } else { pick_stream(&mut t, &streams) }, payload: vec![1; t.below(40)] },
            12 => {
                // fixed-size frame with a wrong size
                let (ty, n) = *t.pick(&[(wire::T_PRIORITY, 4usize), (wire::T_PRIORITY, 6), (wire::T_RST, 3), (wire::T_RST, 5), (wire::T_PING, 7), (wire::T_PING, 9), (wire::T_SETTINGS, 5), (wire::T_SETTINGS, 7), (wire::T_WINUP, 3), (wire::T_WINUP, 5), (wire::T_GOAWAY, 7), (wire::T_GOAWAY, 0)]);
                let sid = if matches!(ty, wire::T_PING | wire::T_SETTINGS | wire::T_GOAWAY) { 0 } else { pick_stream(&mut t, &streams) };
                labels.push("wrong-fixed-size");
                script.push(PStep::Raw(RawFrame::new(ty, 0, sid, vec![0; n]).encode()));
                continue;
            }
            _ => {
                let n = 1 + t.below(40);
                labels.push("garbage");
                script.push(PStep::Raw((0..n).map(|_| t.u32() as u8).collect()));
                continue;
            }
        };
        let bytes = frame.encode();
        if t.chance(1, mut_den) {
            let (b, l) = mutate(&mut t, bytes, &streams);
            labels.push(l);
            script.push(PStep::Raw(b));
        } else {
            labels.push(frame.kind());
            // DATA goes out raw as well: a hostile peer does not wait for window
            script.push(PStep::Raw(bytes));
        }
        if t.chance(1, 4) {
            script.push(PStep::Yield(1 + t.below(12)));
        }
    }
    // and then the peer goes away
    match t.below(4) {
        0 => {}
        1 => script.push(PStep::Yield(1 + t.below(40))),
        2 => {
            // half a frame
            let f = Frame::Data { stream: streams.last().copied().unwrap_or(1), end_stream: true, pad: None, data: vec![7; 50] }.encode();
            let k = 1 + t.below(f.len() - 1);
            script.push(PStep::Raw(f[..k].to_vec()));
            labels.push("eof-inside-frame");
        }
        _ => script.push(PStep::Yield(100)),
    }
    script.push(PStep::Close);
    let spec = RawSpec { peer_settings: if t.chance(1, 4) { vec![*t.pick(SETTINGS_VALUES)] } else { vec![] }, script, grant: *t.pick(&[Grant::Eager, Grant::Never]), close_at_end: true };
    let base = soup_base(tapes, cfg, reqs);
    let inj = Inject { item: labels.join(","), state: String::new(), class: Class::Either, stream: 0, basis: String::new(), never_surface: vec![], must_deliver: vec![], must_deliver_streams: vec![], no_head: vec![], no_clean_end: vec![], prop: "C08".into(), wire_optional: true };
    RawCase { h2_side: if server { Side::Server } else { Side::Client }, base, spec, inject: Some(inj), probe_stream: 0, e_out_cap: if t.chance(1, 5) { Some(*t.pick(&[64usize, 300, 5000])) } else { None } }
}

fn soup_base(tapes: &[Vec<u32>], cfg: Cfg, reqs: Vec<Req>) -> PairCase {
    let mut t2 = Tape::new(&tapes[1]);
    let ns = t2.below(200);
    let sched = (0..ns).map(|_| t2.u32()).collect();
    let mut t3 = Tape::new(&tapes[2]);
    let n1 = t3.below(100);
    let chunk_c2s = (0..n1).map(|_| t3.u32()).collect();
    let n2 = t3.below(100);
    let chunk_s2c = (0..n2).map(|_| t3.u32()).collect();
    PairCase { cap: None, accept_limit: None, ccfg: cfg.clone(), scfg: cfg, client_init_max_send: None, vectored_c: t3.bool(), vectored_s: t3.bool(), sched, chunk_c2s, chunk_s2c, reqs, ops: vec![], fault: None, drop_send_request_at_end: false , nest: vec![]}
}

pub struct SoupEngine {
    pub server: bool,
}

impl Engine for SoupEngine {
    type Case = RawCase;
    fn name(&self) -> &'static str {
        if self.server {
            "raw-soup-server"
        } else {
            "raw-soup-client"
        }
    }
    fn tape_lens(&self) -> Vec<usize> {
        vec![400, 200, 200]
    }
    fn gen(&self, tapes: &[Vec<u32>]) -> RawCase {
        gen_soup(tapes, self.server)
    }
    fn rule(&self) -> String {
        "an h2 endpoint with generated configuration and a normal application (server: answers what it accepts; client: 1–4 requests) receives 1–28 generated frames: conversation-following HEADERS / PUSH_PROMISE / DATA / RST_STREAM / trailers / WINDOW_UPDATE / PING / SETTINGS (legal and illegal values) / PRIORITY / GOAWAY / CONTINUATION / unknown types, a third of them mutated (flag flip, length field, consistent resize, type, stream id incl. R bit, payload bytes, truncation, duplication), fixed-size frames of wrong size, garbage bytes; generated chunking, schedule, optionally a small pipe that blocks the endpoint's writes; then EOF (sometimes inside a frame). Oracle: no panic, no self-waking loop, no endless output inside one poll, and at quiescence after the EOF the connection future and every application operation have completed (lost wake-ups told apart from real hangs by a generous re-poll); the endpoint's own output still satisfies the framing, HPACK, state-machine and flow-control accountants. Non-trivial = the soup was delivered and contained at least one mutated, illegal or garbage element".into()
    }
    fn shrink_iters(&self) -> u32 {
        600
    }
    fn run(&self, case: &RawCase) -> Outcome {
        let rr = run_raw(case);
        let an = analyse_raw(case, &rr);
        let mut out = Outcome::default();
        common_raw_oracles(case, &rr, &an, &mut out);
        let e = case.h2_side;
        let item = case.inject.as_ref().map(|i| i.item.clone()).unwrap_or_default();
        let mut hostile = false;
        for l in item.split(',') {
            if !l.is_empty() {
                out.label(format!("soup:{}", l));
                if !l.chars().next().map(|c| c.is_ascii_uppercase()).unwrap_or(false) {
                    hostile = true;
                }
            }
        }
        if e == Side::Client && case.base.ccfg.max_concurrent.map(|m| m <= 3).unwrap_or(false) && item.contains("push-story") {
            out.label("pushes-over-the-client-limit-attempted");
        }
        if rr.run.panic.is_some() {
            return out;
        }
        let e_pipe = if e == Side::Server { rr.run.wire.s2c.borrow() } else { rr.run.wire.c2s.borrow() };
        if e_pipe.runaway {
            out.fail("C08", "runaway", "C08/endless-output-inside-one-poll", format!("the {} wrote more than {} times within a single poll of its connection ({} bytes so far) without returning", e.name(), crate::sim::RUNAWAY_WRITES, e_pipe.written.len()));
            return out;
        }
        drop(e_pipe);
        out.nontrivial = rr.obs.script_done && hostile;
        if rr.obs.script_done && rr.run.end == RunEnd::Quiescent {
            // the peer is gone: nothing of the endpoint may still be waiting
            let conn_done = rr.run.events.iter().any(|ev| ev.side == e && matches!(&ev.api, Api::ConnDone { .. } | Api::ConnOp { .. } if matches!(&ev.api, Api::ConnDone { .. }) || matches!(&ev.api, Api::ConnOp { op } if op.starts_with("drop(Connection)"))));
            let stuck: Vec<String> = rr
                .run
                .unfinished
                .iter()
                .filter(|(_, g)| match e {
                    Side::Server => matches!(g, Group::ServerConn | Group::ServerApp),
                    Side::Client => matches!(g, Group::ClientConn | Group::ClientApp),
                })
                .map(|(n, _)| n.clone())
                .collect();
            if !stuck.is_empty() || !conn_done {
                let kinds: std::collections::BTreeSet<String> = stuck.iter().map(|n| strip_digits(n)).collect();
                let lost = rr.run.completed_when_repolled == Some(true);
                out.fail(
                    "C08",
                    "hang",
                    format!("C08/{}/hang-after-peer-gone/{}{}", e.name(), kinds.into_iter().collect::<Vec<_>>().join("+"), if lost { "/lost-wakeup" } else { "" }),
                    format!("the peer closed the connection, the system is quiescent, yet {} is still pending (connection future done: {}; completes when every task is re-polled: {:?})", stuck.join(", "), conn_done, rr.run.completed_when_repolled),
                );
            }
        }
        out.note = format!("{} wire frames, end={:?}, script_done={}, soup=[{}]", an.tap.frames.len(), rr.run.end, rr.obs.script_done, item);
        out
    }
}
