//! Property → engines, budgets, evidence.

use crate::eng_codec::{ReadEngine, WriteEngine};
use crate::eng_flood::FloodEngine;
use crate::eng_soup::SoupEngine;
use crate::eng_hpack::{self, DecEngine, EncEngine, SplitEngine};
use crate::eng_pair::PairEngine;
use crate::eng_raw::{CatalogueServerEngine, HttpEngine};
use crate::eng_raw2::{AcksEngine, CapEngine, FlowEngine, ShutdownEngine};
use crate::sim_pair::Focus;
use crate::runner::{self, drive, finish, Ctx, Engine, Report, RunStats, Tier, Violation};
use serde_json::{json, Value};
use std::collections::BTreeMap;

fn scale(tier: Tier, quick: u64, thorough: u64) -> u64 {
    let base = match tier {
        Tier::Quick => quick,
        Tier::Thorough => thorough,
    };
    // VERIF_SCALE_PCT lets sensitivity runs use a fraction of the budget
    match std::env::var("VERIF_SCALE_PCT").ok().and_then(|s| s.parse::<u64>().ok()) {
        Some(p) => (base * p / 100).max(1),
        None => base,
    }
}

fn run_engine<E: Engine>(eng: &E, ctx: &Ctx, cases: u64) -> RunStats {
    let mut pre = RunStats::new(eng.name(), &eng.rule());
    runner::run_committed_replays(eng, ctx, &mut pre);
    if pre.failure.is_some() {
        return pre;
    }
    let mut st = drive(eng, ctx, cases);
    runner::merge(&mut st, pre);
    st
}

fn exhaustive_part(name: &str, rule: &str, property: &str, ctx: &Ctx, rep: eng_hpack::ExhaustiveReport) -> RunStats {
    let mut st = RunStats::new(name, rule);
    st.evaluations = rep.evaluations;
    st.exhaustive = true;
    // distinct by construction (enumeration without repetition)
    for i in 0..rep.nontrivial {
        st.nontrivial.insert(i);
    }
    st.samples = rep.samples;
    if let Some((sig, detail)) = rep.failure {
        let v = runner::Violation::new(property, name, sig, detail);
        if let Some(e) = ctx.known.matches(&v) {
            st.known_hits.insert(e.signature.clone(), (1, e.what.clone()));
        } else {
            let path = runner::write_replay(ctx, name, &json!({"exhaustive": name}), &v);
            st.failure = Some((v, path));
        }
    }
    st
}

pub fn run_check(id: &str, tier: Tier) -> i32 {
    if let Ok(mut p) = runner::CURRENT_PROPERTY.lock() {
        *p = id.to_string();
    }
    crate::util::install_panic_hook();
    let ctx = Ctx::new(id, tier);
    runner::start_watchdog(600);
    let mut parts = Vec::new();
    let mut assumptions: Vec<String> = Vec::new();
    let extra: BTreeMap<String, Value> = BTreeMap::new();
    let level = if id == "C07" { "fault_enumeration" } else { "exploration" };
    match id {
        "C10" => {
            parts.push(run_engine(&EncEngine { big: false }, &ctx, scale(tier, 120_000, 3_000_000)));
            if parts.iter().all(|p| p.failure.is_none()) {
                parts.push(run_engine(&EncEngine { big: true }, &ctx, scale(tier, 6_000, 200_000)));
            }
            if parts.iter().all(|p| p.failure.is_none()) {
                // the decoder's half of staying in sync: a block that arrives in fragments must leave the same fields and
                // the same table as the block in one piece
                parts.push(run_engine(&runner::Reattributed { inner: SplitEngine, from: "C11", to: "C10", label: "decoder-across-fragments", only: "" }, &ctx, scale(tier, 60_000, 1_000_000)));
            }
            assumptions.push("reference decoder (refmodel::hpack) implements RFC 7541 correctly; validated against the third-party fixture stories by `h2v selftest`".into());
            assumptions.push("table-size changes are applied to encoder and decoders at the same history position (what the SETTINGS ACK rule guarantees on a connection)".into());
        }
        "C11" => {
            parts.push(run_engine(&DecEngine, &ctx, scale(tier, 500_000, 10_000_000)));
            if parts.iter().all(|p| p.failure.is_none()) {
                parts.push(run_engine(&SplitEngine, &ctx, scale(tier, 120_000, 3_000_000)));
            }
            if parts.iter().all(|p| p.failure.is_none()) {
                let full = tier == Tier::Thorough;
                let rep = eng_hpack::exhaustive_huffman(if full { 3 } else { 2 }, full);
                parts.push(exhaustive_part(
                    "huffman-exhaustive",
                    "every byte string of length ≤2 (thorough: ≤3) as Huffman input, every string of ≤2 (thorough: ≤3) symbols with every wrong padding; h2::hpack::huffman vs reference",
                    "C11",
                    &ctx,
                    rep,
                ));
                let rep = eng_hpack::exhaustive_integers(if full { 5 } else { 4 });
                parts.push(exhaustive_part(
                    "integer-exhaustive",
                    "prefix integers for N∈{4,5,6,7} with up to 4 (thorough: 5) continuation octets drawn from 13 boundary octet values, in every representation kind, against a 2-entry dynamic table",
                    "C11",
                    &ctx,
                    rep,
                ));
            }
            assumptions.push("reference decoder implements RFC 7541; h2 rejecting an RFC-valid block (HTTP field validation, its documented 5-octet integer limit) is allowed by the property".into());
            assumptions.push("at most one local table-size change per history (the public API only sets it at the handshake)".into());
        }
        "C01" | "C02" | "C04" | "C06" => {
            if id == "C01" {
                // what h2 never produces itself (padding of every length, empty and padding-only frames) comes from the
                // reference peer: uploads to an h2 server, content checked by position
                parts.push(run_engine(&FlowEngine, &ctx, scale(tier, 12_000, 200_000)));
            }
            if id == "C01" {
                // (a legal message that makes the receiving h2 accuse the sending h2 of a protocol violation was not delivered
                // as sent: an encoding the peer cannot read)
                parts.push(run_engine(&runner::Reattributed { inner: PairEngine { focus: Focus::Coop }, from: "C09", to: "C01", label: "not-delivered", only: "legal-exchange-accused" }, &ctx, scale(tier, 12_000, 300_000)));
            } else {
                parts.push(run_engine(&PairEngine { focus: Focus::Coop }, &ctx, scale(tier, 12_000, 300_000)));
            }
            if parts.iter().all(|p| p.failure.is_none()) {
                // (C06: programs with resets and drops are judged for lost wake-ups only — stuck, and complete once re-polled)
                parts.push(run_engine(&PairEngine { focus: Focus::Resets }, &ctx, scale(tier, 8_000, 200_000)));
            }
            if parts.iter().all(|p| p.failure.is_none()) && id == "C04" {
                // stream identifiers running out (initial_stream_id near 2^31-1), late frames for forgotten streams,
                // requests issued afterwards
                parts.push(run_engine(&crate::eng_queue::QueueEngine, &ctx, scale(tier, 30_000, 300_000)));
            }
            if id == "C06" {
                // lost wake-ups against a scripted peer (the program completes only when every task is polled again)
                let n = scale(tier, 6_000, 60_000);
                if parts.iter().all(|p| p.failure.is_none()) {
                    parts.push(run_engine(&CapEngine, &ctx, n));
                }
                if parts.iter().all(|p| p.failure.is_none()) {
                    parts.push(run_engine(&FlowEngine, &ctx, n));
                }
                if parts.iter().all(|p| p.failure.is_none()) {
                    parts.push(run_engine(&AcksEngine, &ctx, n));
                }
                if parts.iter().all(|p| p.failure.is_none()) {
                    parts.push(run_engine(&ShutdownEngine { server: true }, &ctx, n));
                }
                if parts.iter().all(|p| p.failure.is_none()) {
                    parts.push(run_engine(&ShutdownEngine { server: false }, &ctx, n));
                }
                if parts.iter().all(|p| p.failure.is_none()) {
                    parts.push(run_engine(&CatalogueServerEngine, &ctx, n));
                }
                if parts.iter().all(|p| p.failure.is_none()) {
                    parts.push(run_engine(&crate::eng_raw::CatalogueClientEngine, &ctx, n));
                }
                if parts.iter().all(|p| p.failure.is_none()) {
                    parts.push(run_engine(&HttpEngine { server: true }, &ctx, n));
                }
                if parts.iter().all(|p| p.failure.is_none()) {
                    parts.push(run_engine(&HttpEngine { server: false }, &ctx, n));
                }
            }
            if parts.iter().all(|p| p.failure.is_none()) && id == "C06" {
                // requests queued behind the peer's stream limit, the slots released in every way a slot can be released
                parts.push(run_engine(&runner::Reattributed { inner: crate::eng_queue::QueueEngine, from: "C05", to: "C06", label: "queued", only: "queued-request" }, &ctx, scale(tier, 30_000, 300_000)));
            }
            assumptions.push("the simulator's transport and executor honour the AsyncRead/AsyncWrite/Future contracts; the reference frame parser and HPACK decoder are correct".into());
        }
        "C03" => {
            parts.push(run_engine(&FlowEngine, &ctx, scale(tier, 30_000, 300_000)));
            if parts.iter().all(|p| p.failure.is_none()) {
                // (with every handle gone and the connection idle nothing may still be counted as in flight: the idle-state
                // verdict of C19 about received bytes is a leaked receive window)
                parts.push(run_engine(&runner::Reattributed { inner: PairEngine { focus: Focus::Resets }, from: "C19", to: "C03", label: "idle", only: "recv-in-flight-not-zero" }, &ctx, scale(tier, 12_000, 200_000)));
            }
            if parts.iter().all(|p| p.failure.is_none()) {
                parts.push(run_engine(&PairEngine { focus: Focus::Coop }, &ctx, scale(tier, 6_000, 100_000)));
            }
            assumptions.push("connection-level bookkeeping is read through the guarded statistics probe (read-only); stream-level conservation is decided on the wire (never over-credited) and behaviourally (cooperative transfers complete, C06)".into());
        }
        "C05" | "C17" | "C19" => {
            if id == "C17" {
                // (a peer reset that the receive API reports as a clean end of the message has not surfaced)
                parts.push(run_engine(&runner::Reattributed { inner: PairEngine { focus: Focus::Resets }, from: "C01", to: "C17", label: "peer-reset-reads-as-clean-end", only: "clean-end|end-of-stream-at-head" }, &ctx, scale(tier, 16_000, 300_000)));
            } else {
                parts.push(run_engine(&PairEngine { focus: Focus::Resets }, &ctx, scale(tier, 16_000, 300_000)));
            }
            if parts.iter().all(|p| p.failure.is_none()) {
                parts.push(run_engine(&PairEngine { focus: Focus::Coop }, &ctx, scale(tier, 8_000, 200_000)));
            }
            if id == "C05" && parts.iter().all(|p| p.failure.is_none()) {
                // the receive side against a scripted peer: streams over the advertised limit (also while the endpoint's
                // writes are blocked), frames for refused streams, refused identifiers opened again
                parts.push(run_engine(&runner::Reattributed { inner: CatalogueServerEngine, from: "C09", to: "C05", label: "refusal", only: "concurrency-limit|refused-stream" }, &ctx, scale(tier, 60_000, 300_000)));
            }
            if id == "C05" && parts.iter().all(|p| p.failure.is_none()) {
                // the sending side against a scripted peer that changes its limit mid-connection, also while the
                // client's writes are blocked
                parts.push(run_engine(&crate::eng_queue::QueueEngine, &ctx, scale(tier, 30_000, 300_000)));
            }
            if id == "C17" && parts.iter().all(|p| p.failure.is_none()) {
                // peer resets arriving during and after a shutdown handshake (scripted peer)
                parts.push(run_engine(&ShutdownEngine { server: true }, &ctx, scale(tier, 20_000, 200_000)));
            }
            if id == "C17" && parts.iter().all(|p| p.failure.is_none()) {
                // peer-side failures (transport errors of every kind, GOAWAY, shutdown) surfacing on the handles
                parts.push(run_engine(&PairEngine { focus: Focus::Faults }, &ctx, scale(tier, 10_000, 200_000)));
            }
            assumptions.push("the simulator's transport and executor honour the AsyncRead/AsyncWrite/Future contracts; the reference frame parser is correct".into());
        }
        "C07" => {
            parts.push(run_engine(&PairEngine { focus: Focus::Faults }, &ctx, scale(tier, 40_000, 400_000)));
            assumptions.push("every connection is driven by its own task which drops the Connection when its future completes".into());
        }
        "C08" => {
            parts.push(run_engine(&SoupEngine { server: true }, &ctx, scale(tier, 40_000, 600_000)));
            if parts.iter().all(|p| p.failure.is_none()) {
                parts.push(run_engine(&SoupEngine { server: false }, &ctx, scale(tier, 30_000, 400_000)));
            }
            if parts.iter().all(|p| p.failure.is_none()) {
                parts.push(run_engine(&CatalogueServerEngine, &ctx, scale(tier, 6_000, 200_000)));
            }
            // every other scripted-peer engine as well: their generators reach states the soup does not (windows
            // driven negative, blocked writes, shutdown races), and any panic or busy loop there is C08's
            if parts.iter().all(|p| p.failure.is_none()) {
                parts.push(run_engine(&FlowEngine, &ctx, scale(tier, 8_000, 100_000)));
            }
            if parts.iter().all(|p| p.failure.is_none()) {
                parts.push(run_engine(&AcksEngine, &ctx, scale(tier, 6_000, 100_000)));
            }
            if parts.iter().all(|p| p.failure.is_none()) {
                parts.push(run_engine(&crate::eng_raw::CatalogueClientEngine, &ctx, scale(tier, 6_000, 100_000)));
            }
            if parts.iter().all(|p| p.failure.is_none()) {
                parts.push(run_engine(&ShutdownEngine { server: true }, &ctx, scale(tier, 4_000, 100_000)));
            }
            if parts.iter().all(|p| p.failure.is_none()) {
                parts.push(run_engine(&CapEngine, &ctx, scale(tier, 4_000, 100_000)));
            }
            if parts.iter().all(|p| p.failure.is_none()) {
                parts.push(run_engine(&crate::eng_queue::QueueEngine, &ctx, scale(tier, 4_000, 100_000)));
            }
            for f in [Focus::Resets, Focus::Faults] {
                if parts.iter().all(|p| p.failure.is_none()) {
                    parts.push(run_engine(&PairEngine { focus: f }, &ctx, scale(tier, 5_000, 200_000)));
                }
            }
            // the component engines feed h2's HPACK decoder and frame reader directly (hostile templates, mutated and
            // random blocks and frames); a panic there is a panic a peer can cause
            if parts.iter().all(|p| p.failure.is_none()) {
                parts.push(run_engine(&DecEngine, &ctx, scale(tier, 120_000, 2_000_000)));
            }
            if parts.iter().all(|p| p.failure.is_none()) {
                parts.push(run_engine(&SplitEngine, &ctx, scale(tier, 30_000, 500_000)));
            }
            if parts.iter().all(|p| p.failure.is_none()) {
                parts.push(run_engine(&ReadEngine, &ctx, scale(tier, 30_000, 500_000)));
            }
        }
        "C09" => {
            parts.push(run_engine(&CatalogueServerEngine, &ctx, scale(tier, 80_000, 400_000)));
            if parts.iter().all(|p| p.failure.is_none()) {
                parts.push(run_engine(&crate::eng_raw::CatalogueClientEngine, &ctx, scale(tier, 60_000, 300_000)));
            }
            // legal traffic is never penalised: two h2 endpoints running legal programs never accuse each other
            for f in [Focus::Coop, Focus::Resets] {
                if parts.iter().all(|p| p.failure.is_none()) {
                    parts.push(run_engine(&PairEngine { focus: f }, &ctx, scale(tier, 10_000, 200_000)));
                }
            }
            assumptions.push("the catalogue rows (harness/src/eng_raw.rs) transcribe RFC 9113 correctly; only the class of reaction is demanded, never a specific code".into());
        }
        "C13" => {
            parts.push(run_engine(&HttpEngine { server: true }, &ctx, scale(tier, 40_000, 400_000)));
            if parts.iter().all(|p| p.failure.is_none()) {
                parts.push(run_engine(&HttpEngine { server: false }, &ctx, scale(tier, 40_000, 400_000)));
            }
            if parts.iter().all(|p| p.failure.is_none()) {
                // send side: programs that submit connection-specific / TE fields; every emitted header section is
                // run through the same predicate
                parts.push(run_engine(&PairEngine { focus: Focus::Resets }, &ctx, scale(tier, 5_000, 200_000)));
            }
            assumptions.push("refmodel::http transcribes RFC 9113 §8 / RFC 8441 §4 for the classes C13 names; field value syntax is out of scope".into());
        }
        "C20" => {
            for f in [Focus::Coop, Focus::Resets, Focus::Faults] {
                if parts.iter().all(|p| p.failure.is_none()) {
                    parts.push(run_engine(&crate::eng_pair::NestEngine { focus: f }, &ctx, scale(tier, 5_000, 300_000)));
                }
            }
            if parts.iter().all(|p| p.failure.is_none()) {
                parts.push(run_engine(&crate::eng_threads::ThreadEngine, &ctx, scale(tier, 96, 6_000)));
            }
            assumptions.push("interleavings are explored on one thread at the points where the connection calls into the transport (the only points at which it has released its locks); true parallel execution (simultaneous lock acquisition, memory ordering) is exercised only by the thorough tier's real-thread stress and is otherwise outside what a deterministic simulator can decide".into());
        }
        "C18" => {
            parts.push(run_engine(&FloodEngine, &ctx, scale(tier, 3_000, 40_000)));
            assumptions.push("growth is judged by doubling the flood length (no h2 constant baked in); statistics come from the guarded read-only probe sampled every 8 executor steps".into());
        }
        "C16" => {
            parts.push(run_engine(&CapEngine, &ctx, scale(tier, 40_000, 300_000)));
            if parts.iter().all(|p| p.failure.is_none()) {
                // the documented reserve/poll_capacity/send loop under every schedule (held reservations included)
                parts.push(run_engine(&PairEngine { focus: Focus::Coop }, &ctx, scale(tier, 8_000, 150_000)));
            }
        }
        "C14" => {
            parts.push(run_engine(&AcksEngine, &ctx, scale(tier, 60_000, 300_000)));
            if parts.iter().all(|p| p.failure.is_none()) {
                // local settings against the peer (h2 <-> h2): changed values only after the peer's acknowledgement,
                // unchanged values stay in force across later SETTINGS frames
                parts.push(run_engine(&runner::Reattributed { inner: PairEngine { focus: Focus::Coop }, from: "C09", to: "C14", label: "local-settings", only: "legal-exchange-accused" }, &ctx, scale(tier, 12_000, 200_000)));
            }
            assumptions.push("acknowledgement order is demanded per kind (PING acks among themselves, SETTINGS acks among themselves)".into());
        }
        "C15" => {
            parts.push(run_engine(&ShutdownEngine { server: true }, &ctx, scale(tier, 40_000, 300_000)));
            if parts.iter().all(|p| p.failure.is_none()) {
                parts.push(run_engine(&ShutdownEngine { server: false }, &ctx, scale(tier, 40_000, 300_000)));
            }
            if parts.iter().all(|p| p.failure.is_none()) {
                parts.push(run_engine(&PairEngine { focus: Focus::Faults }, &ctx, scale(tier, 10_000, 100_000)));
            }
            if parts.iter().all(|p| p.failure.is_none()) {
                // the client's own GOAWAY (idle close) after pushed responses that arrived in any order
                parts.push(run_engine(&PairEngine { focus: Focus::Coop }, &ctx, scale(tier, 16_000, 100_000)));
            }
        }
        "C12" => {
            parts.push(run_engine(&WriteEngine, &ctx, scale(tier, 40_000, 1_000_000)));
            if parts.iter().all(|p| p.failure.is_none()) {
                parts.push(run_engine(&ReadEngine, &ctx, scale(tier, 60_000, 2_000_000)));
            }
            if parts.iter().all(|p| p.failure.is_none()) {
                // the receive limit in force on a live connection: frames within the advertised SETTINGS_MAX_FRAME_SIZE are
                // parsed, also after later SETTINGS frames (h2 <-> h2, a FRAME_SIZE_ERROR accusation is the symptom)
                parts.push(run_engine(&runner::Reattributed { inner: PairEngine { focus: Focus::Coop }, from: "C09", to: "C12", label: "frame-size", only: "FRAME_SIZE_ERROR" }, &ctx, scale(tier, 16_000, 200_000)));
            }
            assumptions.push("refmodel::wire implements RFC 9113 §4/§6 framing (self-tested by round trip; must parse every byte h2 emits)".into());
            assumptions.push("only zero-valued padding is generated on the read side (a receiver MAY reject non-zero padding)".into());
        }
        _ => {
            eprintln!("no check registered for {}", id);
            return 2;
        }
    }
    if runner::MEM_STOP.load(std::sync::atomic::Ordering::Relaxed) {
        assumptions.push("the run was cut short by the memory guard (resident set above VERIF_MEM_LIMIT_GB, default 24 GiB): fewer cases than budgeted were evaluated; everything evaluated held".into());
    }
    // thorough tier: coverage-guided campaigns over the choice tapes of the property's engines (libFuzzer, fixed work)
    if tier == Tier::Thorough && std::env::var("VERIF_NO_FUZZ").is_err() {
        for (eng, runs) in fuzz_plan(id) {
            if parts.iter().all(|p| p.failure.is_none()) {
                match fuzz_part(eng, id, scale(tier, 0, runs), &ctx) {
                    Some(st) => parts.push(st),
                    None => assumptions.push(format!("libFuzzer campaign over engine {} could not be run in this environment (cargo +nightly fuzz unavailable or build failed): skipped, not counted", eng)),
                }
            }
        }
    }
    finish(&ctx, Report { level, parts, assumptions, extra })
}

/// (engine, libFuzzer runs) per property for the thorough tier
fn fuzz_plan(id: &str) -> Vec<(&'static str, u64)> {
    match id {
        "C01" | "C02" => vec![("pair-coop", 150_000)],
        "C04" => vec![("pair-coop", 150_000), ("raw-queue-client", 100_000)],
        "C06" => vec![("pair-coop", 150_000), ("raw-queue-client", 150_000)],
        "C03" => vec![("raw-flow-server", 200_000)],
        "C05" => vec![("pair-resets", 150_000), ("raw-queue-client", 150_000)],
        "C19" => vec![("pair-resets", 150_000)],
        "C17" => vec![("pair-resets", 100_000), ("pair-faults", 100_000)],
        "C07" => vec![("pair-faults", 200_000)],
        "C08" => vec![("raw-soup-server", 600_000), ("raw-soup-client", 400_000)],
        "C09" => vec![("raw-catalogue-server", 300_000)],
        "C10" => vec![("hpack-enc", 400_000)],
        "C11" => vec![("hpack-dec", 2_000_000), ("hpack-split", 500_000)],
        "C12" => vec![("codec-read", 1_000_000), ("codec-write", 400_000)],
        "C13" => vec![("raw-http-server", 300_000), ("raw-http-client", 300_000)],
        "C14" => vec![("raw-acks-server", 300_000)],
        "C15" => vec![("raw-shutdown-server", 200_000), ("raw-goaway-client", 200_000)],
        "C16" => vec![("raw-capacity-server", 300_000)],
        "C18" => vec![("flood-doubling", 20_000)],
        "C20" => vec![("nest-resets", 150_000), ("nest-coop", 100_000)],
        _ => vec![],
    }
}

fn fuzz_part(engine: &str, property: &str, runs: u64, ctx: &Ctx) -> Option<RunStats> {
    let eng = crate::fuzzapi::engine(engine)?;
    let root = &ctx.verif_root;
    let fuzz_dir = root.join("fuzz");
    let run_dir = fuzz_dir.join("corpus-run").join(format!("{}-{}", property, engine));
    let _ = std::fs::remove_dir_all(&run_dir);
    std::fs::create_dir_all(&run_dir).ok()?;
    // fresh corpus directory seeded from the committed corpus of that engine
    if let Ok(rd) = std::fs::read_dir(fuzz_dir.join("corpus").join(engine)) {
        for e in rd.flatten() {
            let _ = std::fs::copy(e.path(), run_dir.join(e.file_name()));
        }
    }
    let started = std::time::SystemTime::now() - std::time::Duration::from_secs(1);
    let stats_file = fuzz_dir.join(format!("stats-{}-{}.json", property, engine));
    let _ = std::fs::remove_file(&stats_file);
    let max_len: usize = eng.lens().iter().sum::<usize>() * 4;
    let jobs = (ctx.workers.max(1)).min(16);
    // (in fork mode -runs is the total over all jobs)
    let per_job = runs.max(1);
    let log_path = fuzz_dir.join("corpus-run").join(format!("{}-{}.log", property, engine));
    let log = std::fs::File::create(&log_path).ok()?;
    let mut child = std::process::Command::new("cargo")
        .args(["+nightly", "fuzz", "run", "--fuzz-dir"])
        .arg(&fuzz_dir)
        .args(["-s", "none", "fz_tape"])
        .arg(&run_dir)
        .arg("--")
        .arg(format!("-runs={}", per_job))
        .arg(format!("-seed={}", (ctx.seed % 0xffff_fffe) + 1))
        .arg("-len_control=0")
        .arg(format!("-max_len={}", max_len))
        .arg(format!("-fork={}", jobs))
        .arg("-ignore_crashes=0")
        .env("H2V_ENGINE", engine)
        .env("H2V_PROPERTY", property)
        .env("CARGO_NET_OFFLINE", "true")
        .current_dir(&fuzz_dir)
        .stdout(log.try_clone().ok()?)
        .stderr(log)
        .spawn()
        .ok()?;
    // (the campaign takes minutes: keep the watchdog of this process informed)
    let status = loop {
        match child.try_wait() {
            Ok(Some(st)) => break st,
            Ok(None) => {
                std::thread::sleep(std::time::Duration::from_millis(500));
                runner::watchdog_tick();
            }
            Err(_) => return None,
        }
    };
    struct Out {
        status: std::process::ExitStatus,
    }
    let out = Out { status };
    let text_raw = std::fs::read(&log_path).unwrap_or_default();
    let text = String::from_utf8_lossy(&text_raw).into_owned();
    if text.contains("error: could not compile") || text.contains("no such command") || text.contains("error: toolchain") {
        eprintln!("fuzz: cannot build/run the libFuzzer target:\n{}", text.lines().rev().take(12).collect::<Vec<_>>().join("\n"));
        return None;
    }
    let mut st = RunStats::new(
        match engine {
            _ => Box::leak(format!("libfuzzer:{}", engine).into_boxed_str()),
        },
        &format!("libFuzzer (coverage-guided, -fork={} -runs={} in total, seeded from /verif/fuzz/corpus/{}) mutating the choice tapes of engine {}; same generator, simulator and oracles; evaluations = executions, non-trivial counted per execution (not de-duplicated)", jobs, per_job, engine, engine),
    );
    // executions: the target's own counter (per process, written every 500) is a lower bound; libFuzzer's fork mode
    // prints the total
    let mut execs: u64 = 0;
    for l in text.lines() {
        if let Some(i) = l.find("#") {
            // "#12345: cov: ... " lines of fork mode
            if let Some(n) = l[i + 1..].split(|c: char| !c.is_ascii_digit()).next().and_then(|x| x.parse::<u64>().ok()) {
                execs = execs.max(n);
            }
        }
        if let Some(rest) = l.strip_prefix("Done ") {
            if let Some(n) = rest.split(' ').next().and_then(|x| x.parse::<u64>().ok()) {
                execs = execs.max(n);
            }
        }
    }
    let sj: Value = std::fs::read(&stats_file).ok().and_then(|b| serde_json::from_slice(&b).ok()).unwrap_or(Value::Null);
    st.evaluations = execs.max(sj["execs"].as_u64().unwrap_or(0));
    let nt = sj["nontrivial"].as_u64().unwrap_or(0);
    let per = sj["execs"].as_u64().unwrap_or(0).max(1);
    // scale the per-process non-trivial ratio to the total (reported as an estimate in the rule text)
    let est = (st.evaluations as u128 * nt as u128 / per as u128) as u64;
    for k in 0..est.min(1_000_000) {
        st.nontrivial.insert(crate::tape::fnv(format!("{}-{}", engine, k).as_bytes()));
    }
    *st.labels.entry("corpus-files-at-end".into()).or_insert(0) += std::fs::read_dir(&run_dir).map(|r| r.count() as u64).unwrap_or(0);
    // a violating execution wrote its replay file before aborting (in fork mode the child's stderr is not ours)
    let newest = std::fs::read_dir(root.join("replays").join(property))
        .ok()
        .into_iter()
        .flatten()
        .flatten()
        .filter(|e| e.file_name().to_string_lossy().starts_with("fuzz-"))
        .filter(|e| e.metadata().and_then(|m| m.modified()).map(|t| t >= started).unwrap_or(false))
        .map(|e| e.path())
        .next();
    if let Some(path) = newest {
        let v: Value = std::fs::read(&path).ok().and_then(|b| serde_json::from_slice(&b).ok()).unwrap_or(Value::Null);
        let sig = v["violation"]["signature"].as_str().unwrap_or("fuzz").to_string();
        let detail = v["violation"]["detail"].as_str().unwrap_or("").to_string();
        st.failure = Some((Violation::new(property, v["violation"]["oracle"].as_str().unwrap_or("libfuzzer"), sig, detail), path.to_string_lossy().into_owned()));
    } else if !out.status.success() {
        // ended abnormally without a verdict of the oracle (harness exit 2, OOM, timeout of libFuzzer): not a violation
        eprintln!("fuzz: campaign over {} ended abnormally without a verdict:\n{}", engine, text.lines().rev().take(8).collect::<Vec<_>>().join("\n"));
        if execs == 0 {
            return None;
        }
    }
    Some(st)
}

/// `h2v fuzz-seeds`: write a small seed corpus per engine from proptest-generated tapes of non-trivial cases.
pub fn fuzz_seeds() -> i32 {
    use proptest::strategy::{Strategy, ValueTree};
    crate::util::install_panic_hook();
    let root = std::path::PathBuf::from(std::env::var("VERIF_ROOT").unwrap_or_else(|_| "/verif".into()));
    let mut engines: Vec<&str> = Vec::new();
    for id in ["C01", "C03", "C05", "C06", "C07", "C08", "C09", "C10", "C11", "C12", "C13", "C14", "C15", "C16", "C17", "C18", "C20"] {
        for (e, _) in fuzz_plan(id) {
            if !engines.contains(&e) {
                engines.push(e);
            }
        }
    }
    for name in engines {
        let eng = crate::fuzzapi::engine(name).unwrap();
        let lens = eng.lens();
        let dir = root.join("fuzz").join("corpus").join(name);
        let _ = std::fs::remove_dir_all(&dir);
        std::fs::create_dir_all(&dir).unwrap();
        let mut runner = proptest::test_runner::TestRunner::deterministic();
        let strat: Vec<_> = lens.iter().map(|&n| proptest::collection::vec(proptest::num::u32::ANY, n / 4..=n)).collect();
        let mut seen: std::collections::BTreeSet<Vec<String>> = std::collections::BTreeSet::new();
        let mut written = 0;
        for _ in 0..400 {
            let tapes = strat.new_tree(&mut runner).unwrap().current();
            let (_, out) = eng.run_tapes(&tapes);
            let mut l = out.labels.clone();
            l.sort();
            if out.nontrivial && out.violations.is_empty() && seen.insert(l) {
                let bytes = crate::fuzzapi::bytes_from_tapes(&lens, &tapes);
                // the round trip must reproduce the tapes (else the seed would not mean what it was chosen for)
                let back = crate::fuzzapi::tapes_from_bytes(&lens, &bytes);
                let same = back.iter().zip(tapes.iter()).all(|(a, b)| a.len() >= b.len() && a[..b.len()] == b[..] && a[b.len()..].iter().all(|x| *x == 0));
                if same && bytes.len() < 16_000 {
                    std::fs::write(dir.join(format!("seed-{:02}", written)), bytes).unwrap();
                    written += 1;
                }
            }
            if written >= 24 {
                break;
            }
        }
        println!("{}: {} seed inputs", name, written);
    }
    0
}

pub fn replay(path: &str) -> i32 {
    crate::util::install_panic_hook();
    let v: Value = serde_json::from_slice(&std::fs::read(path).expect("read replay")).expect("replay json");
    let engine = v["engine"].as_str().unwrap_or("");
    let property = v["property"].as_str().unwrap_or("").to_string();
    if let Ok(mut p) = runner::CURRENT_PROPERTY.lock() {
        *p = property.clone();
    }
    let case = &v["case"];
    if std::env::var("VERIF_DUMP").is_ok() && engine.starts_with("raw-") {
        if let Ok(c) = serde_json::from_value::<crate::eng_raw::RawCase>(case.clone()) {
            crate::eng_raw::dump_raw(&c);
        }
    }
    if std::env::var("VERIF_DUMP").is_ok() && engine == "flood-doubling" {
        if let Ok(c) = serde_json::from_value::<crate::eng_flood::FloodCase>(case.clone()) {
            let mut c = c;
            c.n = std::env::var("VERIF_DUMP_N").ok().and_then(|s| s.parse().ok()).unwrap_or(c.n);
            crate::eng_raw::dump_raw(&crate::eng_flood::build(&c, c.n));
        }
    }
    if std::env::var("VERIF_DUMP").is_ok() && (engine.starts_with("pair-") || engine.starts_with("nest-")) {
        if let Ok(c) = serde_json::from_value::<crate::sim_pair::PairCase>(case.clone()) {
            crate::eng_pair::dump_pair(&c);
        }
    }
    let out = match engine {
        "hpack-dec" => runner::replay_case(&DecEngine, case),
        "hpack-split" => {
            if let Ok(c) = serde_json::from_value::<eng_hpack::SplitCase>(case.clone()) {
                eng_hpack::debug_split(&c);
            }
            runner::replay_case(&SplitEngine, case)
        }
        "hpack-enc" => runner::replay_case(&EncEngine { big: false }, case),
        "hpack-enc-big" => runner::replay_case(&EncEngine { big: true }, case),
        "codec-write" => runner::replay_case(&WriteEngine, case),
        "raw-catalogue-server" => runner::replay_case(&CatalogueServerEngine, case),
        "raw-catalogue-client" => runner::replay_case(&crate::eng_raw::CatalogueClientEngine, case),
        "raw-acks-server" => runner::replay_case(&AcksEngine, case),
        "raw-flow-server" => runner::replay_case(&FlowEngine, case),
        "raw-capacity-server" => runner::replay_case(&CapEngine, case),
        "flood-doubling" => runner::replay_case(&FloodEngine, case),
        "threads" => runner::replay_case(&crate::eng_threads::ThreadEngine, case),
        "nest-coop" => runner::replay_case(&crate::eng_pair::NestEngine { focus: Focus::Coop }, case),
        "nest-resets" => runner::replay_case(&crate::eng_pair::NestEngine { focus: Focus::Resets }, case),
        "nest-faults" => runner::replay_case(&crate::eng_pair::NestEngine { focus: Focus::Faults }, case),
        "raw-soup-server" => runner::replay_case(&SoupEngine { server: true }, case),
        "raw-soup-client" => runner::replay_case(&SoupEngine { server: false }, case),
        "raw-shutdown-server" => runner::replay_case(&ShutdownEngine { server: true }, case),
        "raw-goaway-client" => runner::replay_case(&ShutdownEngine { server: false }, case),
        "raw-queue-client" => runner::replay_case(&crate::eng_queue::QueueEngine, case),
        "raw-http-server" => runner::replay_case(&HttpEngine { server: true }, case),
        "raw-http-client" => runner::replay_case(&HttpEngine { server: false }, case),
        "pair-coop" => runner::replay_case(&PairEngine { focus: Focus::Coop }, case),
        "pair-resets" => runner::replay_case(&PairEngine { focus: Focus::Resets }, case),
        "pair-faults" => runner::replay_case(&PairEngine { focus: Focus::Faults }, case),
        "codec-read" => runner::replay_case(&ReadEngine, case),
        other => {
            eprintln!("unknown engine {:?}", other);
            return 2;
        }
    };
    println!("labels: {:?}", out.labels);
    println!("note: {}", out.note);
    let mut code = 0;
    for viol in &out.violations {
        println!("violation: property={} oracle={} signature={} :: {}", viol.property, viol.oracle, viol.signature, viol.detail);
        if viol.property == property {
            code = 1;
        }
    }
    if code == 1 {
        println!("VIOLATION property={} replay={}", property, path);
    } else {
        println!("replay: no violation of {}", property);
    }
    code
}

/// Validate the reference models themselves (not a property check).
pub fn selftest() -> i32 {
    use crate::refmodel::hpack::RefDecoder;
    let dir = std::path::Path::new("/repo/fixtures/hpack");
    let mut stories = 0;
    let mut cases = 0;
    let mut bad = 0;
    let mut stack = vec![dir.to_path_buf()];
    while let Some(d) = stack.pop() {
        for e in std::fs::read_dir(&d).expect("fixtures dir") {
            let p = e.unwrap().path();
            if p.is_dir() {
                stack.push(p);
                continue;
            }
            if p.extension().map(|x| x != "json").unwrap_or(true) {
                continue;
            }
            let v: Value = match serde_json::from_slice(&std::fs::read(&p).unwrap()) {
                Ok(v) => v,
                Err(_) => continue,
            };
            let cs = match v["cases"].as_array() {
                Some(c) => c,
                None => continue,
            };
            if cs.iter().any(|c| c.get("wire").is_none()) {
                continue;
            }
            stories += 1;
            let mut dec = RefDecoder::new(4096);
            for c in cs {
                if let Some(sz) = c.get("header_table_size").and_then(|x| x.as_u64()) {
                    // the story's encoder is allowed this much
                    if sz as usize != dec.ceiling {
                        dec.ceiling = sz as usize;
                        if dec.max_size > dec.ceiling {
                            // stories signal reductions themselves
                        }
                    }
                }
                let wire = crate::util::unhex(c["wire"].as_str().unwrap()).unwrap();
                let want: Vec<(Vec<u8>, Vec<u8>)> = c["headers"]
                    .as_array()
                    .unwrap()
                    .iter()
                    .map(|h| {
                        let (k, v) = h.as_object().unwrap().iter().next().unwrap();
                        (k.as_bytes().to_vec(), v.as_str().unwrap().as_bytes().to_vec())
                    })
                    .collect();
                cases += 1;
                match dec.decode_block(&wire) {
                    Ok((got, _)) => {
                        let got: Vec<(Vec<u8>, Vec<u8>)> = got.into_iter().map(|f| (f.name, f.value)).collect();
                        if got != want {
                            bad += 1;
                            eprintln!("{}: fields differ", p.display());
                        }
                    }
                    Err(e) => {
                        bad += 1;
                        eprintln!("{}: reference rejects: {:?}", p.display(), e);
                    }
                }
            }
        }
    }
    println!("selftest: {} stories, {} blocks, {} disagreements", stories, cases, bad);
    if bad == 0 && stories > 0 {
        0
    } else {
        1
    }
}
