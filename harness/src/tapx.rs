//! Tap analysis: turn the recorded byte streams of both directions into timed,
//! parsed frames with independently decoded header blocks and the settings
//! in force (as acknowledged on the wire).

use crate::refmodel::hpack::{Field, HpackErr, RefDecoder};
use crate::refmodel::wire::{self, Frame, RawFrame, Splitter, WireErr};
use crate::sim::{Pipe, Side};

#[derive(Clone, Debug)]
pub struct TFrame {
    /// who wrote it
    pub from: Side,
    pub idx: usize,
    pub off0: usize,
    pub off1: usize,
    /// step at which the first / last byte was accepted by the transport
    pub t_w0: u64,
    pub t_w: u64,
    /// step at which the first / last byte was delivered to the reader (None = not delivered)
    pub t_d0: Option<u64>,
    pub t_d: Option<u64>,
    pub raw: RawFrame,
    pub frame: Result<Frame, WireErr>,
    /// for the frame that completes a header block: the decoded fields
    pub block: Option<Result<Vec<Field>, HpackErr>>,
    /// for the frame that completes a header block: index of the frame that started it
    pub block_start: Option<usize>,
}

impl TFrame {
    pub fn stream(&self) -> u32 {
        self.raw.stream
    }
    pub fn is(&self, ty: u8) -> bool {
        self.raw.ty == ty
    }
    pub fn flag(&self, f: u8) -> bool {
        self.raw.flags & f != 0
    }
}

fn stamp_at(stamps: &[(usize, u64)], off: usize) -> Option<u64> {
    // first stamp whose end offset is > off  (byte `off` was covered by it)
    let i = stamps.partition_point(|(end, _)| *end <= off);
    stamps.get(i).map(|s| s.1)
}

/// Settings parameters a SETTINGS frame carries (last value wins per id).
#[derive(Clone, Debug, Default, PartialEq, Eq)]
pub struct SettingsVals {
    pub header_table: Option<u32>,
    pub enable_push: Option<u32>,
    pub max_concurrent: Option<u32>,
    pub initial_window: Option<u32>,
    pub max_frame: Option<u32>,
    pub max_header_list: Option<u32>,
    pub enable_connect: Option<u32>,
}

impl SettingsVals {
    pub fn from_params(p: &[(u16, u32)]) -> SettingsVals {
        let mut s = SettingsVals::default();
        for (k, v) in p {
            match *k {
                wire::S_HEADER_TABLE_SIZE => s.header_table = Some(*v),
                wire::S_ENABLE_PUSH => s.enable_push = Some(*v),
                wire::S_MAX_CONCURRENT => s.max_concurrent = Some(*v),
                wire::S_INITIAL_WINDOW => s.initial_window = Some(*v),
                wire::S_MAX_FRAME => s.max_frame = Some(*v),
                wire::S_MAX_HEADER_LIST => s.max_header_list = Some(*v),
                wire::S_ENABLE_CONNECT => s.enable_connect = Some(*v),
                _ => {}
            }
        }
        s
    }
}

/// Settings of one endpoint as they are *in force for its peer's sending*:
/// the values of every SETTINGS frame the peer has acknowledged so far.
#[derive(Clone, Debug)]
pub struct Effective {
    pub header_table: u32,
    pub enable_push: bool,
    pub max_concurrent: Option<u32>,
    pub initial_window: u32,
    pub max_frame: u32,
}

impl Default for Effective {
    fn default() -> Self {
        Effective { header_table: 4096, enable_push: true, max_concurrent: None, initial_window: 65535, max_frame: 16384 }
    }
}

impl Effective {
    pub fn apply(&mut self, s: &SettingsVals) {
        if let Some(v) = s.header_table {
            self.header_table = v;
        }
        if let Some(v) = s.enable_push {
            self.enable_push = v != 0;
        }
        if let Some(v) = s.max_concurrent {
            self.max_concurrent = Some(v);
        }
        if let Some(v) = s.initial_window {
            self.initial_window = v;
        }
        if let Some(v) = s.max_frame {
            self.max_frame = v;
        }
    }
}

pub struct Tap {
    /// all frames of both directions ordered by (t_w, from, idx)
    pub frames: Vec<TFrame>,
    /// problems of the tap itself (unparseable output etc.), attributed to the writer
    pub problems: Vec<(Side, String)>,
    pub trailing: [usize; 2],
    pub bad_preface: bool,
}

pub fn side_idx(s: Side) -> usize {
    match s {
        Side::Client => 0,
        Side::Server => 1,
    }
}

fn parse_dir(p: &Pipe, from: Side) -> (Vec<TFrame>, usize, bool) {
    let mut sp = Splitter::new(from == Side::Client);
    let raws = sp.push(&p.written);
    let mut out = Vec::new();
    for (i, (a, b, raw)) in raws.into_iter().enumerate() {
        let frame = Frame::decode(&raw);
        out.push(TFrame {
            from,
            idx: i,
            off0: a,
            off1: b,
            t_w0: stamp_at(&p.wstamp, a).unwrap_or(0),
            t_w: stamp_at(&p.wstamp, b - 1).unwrap_or(0),
            t_d0: stamp_at(&p.dstamp, a),
            t_d: stamp_at(&p.dstamp, b - 1),
            raw,
            frame,
            block: None,
            block_start: None,
        });
    }
    (out, sp.pending_bytes(), sp.bad_preface)
}

/// Build the merged, decoded timeline. `strict_hpack`: enforce the
/// "reduction must be signalled" rule on h2's encoders.
pub fn analyse(c2s: &Pipe, s2c: &Pipe, h2_sides: &[Side]) -> Tap {
    let (fc, tc, bad_preface) = parse_dir(c2s, Side::Client);
    let (fs, ts, _) = parse_dir(s2c, Side::Server);
    let mut frames: Vec<TFrame> = fc.into_iter().chain(fs).collect();
    frames.sort_by_key(|f| (f.t_w, side_idx(f.from), f.idx));
    let mut problems = Vec::new();
    // per writer: decoder for its blocks, pending SETTINGS of the *other* side awaiting this writer's ACK
    let mut dec = [RefDecoder::new(4096), RefDecoder::new(4096)];
    for s in h2_sides {
        dec[side_idx(*s)].strict_signal = true;
    }
    let mut unacked: [Vec<SettingsVals>; 2] = [Vec::new(), Vec::new()]; // index = side that must ACK
    let mut open: [Option<(usize, u32, Vec<u8>)>; 2] = [None, None]; // (start frame pos, stream, fragments)
    let mut dead = [false, false];
    for pos in 0..frames.len() {
        let w = side_idx(frames[pos].from);
        let f = frames[pos].frame.clone();
        match f {
            Ok(Frame::Settings { ack: false, params }) => {
                unacked[1 - w].push(SettingsVals::from_params(&params));
            }
            Ok(Frame::Settings { ack: true, .. }) => {
                if !unacked[w].is_empty() {
                    let s = unacked[w].remove(0);
                    if let Some(v) = s.header_table {
                        dec[w].set_ceiling(v as usize);
                    }
                }
            }
            Ok(Frame::Headers { stream, end_headers, frag, .. }) | Ok(Frame::Push { stream, end_headers, frag, .. }) => {
                if open[w].is_some() {
                    problems.push((frames[pos].from, format!("frame #{}: new header block while one is open", frames[pos].idx)));
                }
                if end_headers {
                    if !dead[w] {
                        let r = dec[w].decode_block(&frag).map(|x| x.0);
                        if r.is_err() {
                            dead[w] = true;
                        }
                        frames[pos].block = Some(r);
                    }
                    frames[pos].block_start = Some(pos);
                } else {
                    open[w] = Some((pos, stream, frag));
                }
            }
            Ok(Frame::Cont { stream, end_headers, frag }) => match open[w].take() {
                Some((start, s, mut acc)) if s == stream => {
                    acc.extend(frag);
                    if end_headers {
                        if !dead[w] {
                            let r = dec[w].decode_block(&acc).map(|x| x.0);
                            if r.is_err() {
                                dead[w] = true;
                            }
                            frames[pos].block = Some(r);
                        }
                        frames[pos].block_start = Some(start);
                    } else {
                        open[w] = Some((start, s, acc));
                    }
                }
                other => {
                    open[w] = other;
                    // reported by the C04 monitor as well; nothing to decode
                }
            },
            _ => {}
        }
    }
    Tap { frames, problems, trailing: [tc, ts], bad_preface }
}

impl Tap {
    pub fn from_side(&self, s: Side) -> impl Iterator<Item = (usize, &TFrame)> {
        self.frames.iter().enumerate().filter(move |(_, f)| f.from == s)
    }
}
