//! HTTP message validity predicate, RFC 9113 §8.1–8.3, §8.5 and RFC 8441 §4,
//! restricted to the classes property C13 names. Written from the RFC text.
//! Field *value* syntax is out of scope.

use super::hpack::Field;

#[derive(Clone, Copy, Debug, PartialEq, Eq)]
pub enum Kind {
    Request,
    /// request carried by PUSH_PROMISE
    PushRequest,
    Response,
    /// HEADERS after the final head
    Trailers,
}

#[derive(Clone, Debug, Default, PartialEq, Eq)]
pub struct Verdict {
    /// reasons the header section itself is malformed (never to be delivered)
    pub malformed: Vec<&'static str>,
    /// parsed content-length values, field by field (None = unparsable)
    pub content_lengths: Vec<Option<u64>>,
    /// final response status, if any
    pub status: Option<u16>,
    pub method: Option<Vec<u8>>,
}

impl Verdict {
    pub fn is_valid(&self) -> bool {
        self.malformed.is_empty()
    }
}

const CONNECTION_SPECIFIC: &[&[u8]] = &[b"connection", b"keep-alive", b"proxy-connection", b"transfer-encoding", b"upgrade"];
const PSEUDO: &[&[u8]] = &[b":method", b":scheme", b":authority", b":path", b":protocol", b":status"];

fn parse_u64(v: &[u8]) -> Option<u64> {
    if v.is_empty() || v.len() > 19 || !v.iter().all(|b| b.is_ascii_digit()) {
        return None;
    }
    std::str::from_utf8(v).ok()?.parse().ok()
}

/// `end_stream`: the HEADERS frame carries END_STREAM. `ext_connect`: the
/// receiver enabled SETTINGS_ENABLE_CONNECT_PROTOCOL.
pub fn check(kind: Kind, fields: &[Field], end_stream: bool, ext_connect: bool) -> Verdict {
    let mut v = Verdict::default();
    let mut seen_regular = false;
    let mut seen: Vec<&[u8]> = Vec::new();
    let get = |n: &[u8]| fields.iter().find(|f| f.name == n).map(|f| &f.value[..]);
    for f in fields {
        let n = &f.name[..];
        if n.is_empty() {
            v.malformed.push("empty-field-name");
            continue;
        }
        if n.iter().any(|b| b.is_ascii_uppercase()) {
            v.malformed.push("uppercase-field-name");
        }
        if n[0] == b':' {
            if seen_regular {
                v.malformed.push("pseudo-header-after-regular-field");
            }
            if !PSEUDO.contains(&n) {
                v.malformed.push("unknown-pseudo-header");
            } else if seen.contains(&n) {
                v.malformed.push("duplicate-pseudo-header");
            }
            seen.push(n);
        } else {
            seen_regular = true;
            let lower: Vec<u8> = n.to_ascii_lowercase();
            if CONNECTION_SPECIFIC.contains(&&lower[..]) {
                v.malformed.push("connection-specific-field");
            }
            if lower == b"te" && f.value != b"trailers" {
                v.malformed.push("te-other-than-trailers");
            }
            if lower == b"content-length" {
                v.content_lengths.push(parse_u64(&f.value));
            }
        }
    }
    let has = |n: &[u8]| fields.iter().any(|f| f.name == n);
    match kind {
        Kind::Request | Kind::PushRequest => {
            if has(b":status") {
                v.malformed.push("response-pseudo-header-in-request");
            }
            let method = get(b":method");
            v.method = method.map(|m| m.to_vec());
            match method {
                None => v.malformed.push("missing-method"),
                Some(b"CONNECT") => {
                    if has(b":protocol") {
                        // extended CONNECT (RFC 8441 §4)
                        if !ext_connect {
                            v.malformed.push("extended-connect-not-enabled");
                        }
                        if !has(b":scheme") || !has(b":path") {
                            v.malformed.push("extended-connect-missing-scheme-or-path");
                        }
                    } else {
                        if has(b":scheme") || has(b":path") {
                            v.malformed.push("connect-with-scheme-or-path");
                        }
                        if !has(b":authority") {
                            v.malformed.push("connect-without-authority");
                        }
                    }
                }
                Some(_) => {
                    if has(b":protocol") {
                        v.malformed.push("protocol-without-connect");
                    }
                    if !has(b":scheme") {
                        v.malformed.push("missing-scheme");
                    }
                    match get(b":path") {
                        None => v.malformed.push("missing-path"),
                        Some(p) if p.is_empty() => v.malformed.push("empty-path"),
                        _ => {}
                    }
                }
            }
            if kind == Kind::PushRequest {
                if let Some(m) = method {
                    if m != b"GET" && m != b"HEAD" {
                        v.malformed.push("promised-request-unsafe-method");
                    }
                }
                if v.content_lengths.iter().any(|c| *c != Some(0)) {
                    v.malformed.push("promised-request-with-body");
                }
            }
        }
        Kind::Response => {
            match get(b":status") {
                None => v.malformed.push("missing-status"),
                Some(s) => {
                    v.status = std::str::from_utf8(s).ok().and_then(|x| x.parse().ok());
                    if let Some(st) = v.status {
                        if (100..200).contains(&st) && end_stream {
                            v.malformed.push("interim-response-with-end-stream");
                        }
                    }
                }
            }
            if has(b":method") || has(b":scheme") || has(b":authority") || has(b":path") || has(b":protocol") {
                v.malformed.push("request-pseudo-header-in-response");
            }
        }
        Kind::Trailers => {
            if fields.iter().any(|f| f.name.first() == Some(&b':')) {
                v.malformed.push("pseudo-header-in-trailers");
            }
            if !end_stream {
                v.malformed.push("trailers-without-end-stream");
            }
        }
    }
    if v.content_lengths.iter().any(|c| c.is_none()) {
        v.malformed.push("unparsable-content-length");
    }
    // RFC 9110 §8.6: several content-length fields are only valid if they carry the same value
    if v.content_lengths.windows(2).any(|w| w[0] != w[1]) {
        v.malformed.push("conflicting-content-length");
    }
    v.malformed.sort();
    v.malformed.dedup();
    v
}

/// Does the body length agree with every content-length field? `exempt`:
/// response to HEAD, or 204/304 (no DATA expected at all).
pub fn body_agrees(v: &Verdict, data_len: u64, exempt_no_body: bool) -> bool {
    if exempt_no_body && data_len == 0 {
        return true;
    }
    v.content_lengths.iter().all(|c| *c == Some(data_len))
}

#[cfg(test)]
mod tests {
    use super::*;
    fn f(n: &str, v: &str) -> Field {
        Field::new(n.as_bytes(), v.as_bytes())
    }
    #[test]
    fn basic() {
        let ok = vec![f(":method", "GET"), f(":scheme", "https"), f(":path", "/"), f("accept", "*/*")];
        assert!(check(Kind::Request, &ok, true, false).is_valid());
        let bad = vec![f(":method", "GET"), f("accept", "*/*"), f(":scheme", "https"), f(":path", "/")];
        assert_eq!(check(Kind::Request, &bad, true, false).malformed, vec!["pseudo-header-after-regular-field"]);
        let c = vec![f(":method", "CONNECT"), f(":authority", "a:1")];
        assert!(check(Kind::Request, &c, false, false).is_valid());
        let r = vec![f(":status", "200"), f("te", "gzip")];
        assert_eq!(check(Kind::Response, &r, false, false).malformed, vec!["te-other-than-trailers"]);
    }
}
