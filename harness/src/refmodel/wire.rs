//! Independent RFC 9113 §4/§6 frame layer: streaming parser and serialiser for
//! all ten frame types plus unknown types, all flag bits, padding, priority
//! fields and reserved bits. Written from the RFC; no h2 code.

use serde::{Deserialize, Serialize};

pub const PREFACE: &[u8] = b"PRI * HTTP/2.0\r\n\r\nSM\r\n\r\n";

pub const T_DATA: u8 = 0;
pub const T_HEADERS: u8 = 1;
pub const T_PRIORITY: u8 = 2;
pub const T_RST: u8 = 3;
pub const T_SETTINGS: u8 = 4;
pub const T_PUSH: u8 = 5;
pub const T_PING: u8 = 6;
pub const T_GOAWAY: u8 = 7;
pub const T_WINUP: u8 = 8;
pub const T_CONT: u8 = 9;

pub const F_END_STREAM: u8 = 0x1;
pub const F_ACK: u8 = 0x1;
pub const F_END_HEADERS: u8 = 0x4;
pub const F_PADDED: u8 = 0x8;
pub const F_PRIORITY: u8 = 0x20;

pub const S_HEADER_TABLE_SIZE: u16 = 1;
pub const S_ENABLE_PUSH: u16 = 2;
pub const S_MAX_CONCURRENT: u16 = 3;
pub const S_INITIAL_WINDOW: u16 = 4;
pub const S_MAX_FRAME: u16 = 5;
pub const S_MAX_HEADER_LIST: u16 = 6;
pub const S_ENABLE_CONNECT: u16 = 8;

#[derive(Clone, Debug, PartialEq, Eq, Serialize, Deserialize)]
pub struct RawFrame {
    pub ty: u8,
    pub flags: u8,
    /// reserved bit of the stream identifier
    pub r: bool,
    pub stream: u32,
    pub payload: Vec<u8>,
}

impl RawFrame {
    pub fn new(ty: u8, flags: u8, stream: u32, payload: Vec<u8>) -> RawFrame {
        RawFrame { ty, flags, r: false, stream, payload }
    }
    pub fn encode(&self) -> Vec<u8> {
        let mut v = Vec::with_capacity(9 + self.payload.len());
        self.encode_with_len(self.payload.len() as u32, &mut v);
        v
    }
    /// header may lie about the length (used by violation injectors)
    pub fn encode_with_len(&self, len: u32, v: &mut Vec<u8>) {
        assert!(len < (1 << 24));
        v.extend_from_slice(&len.to_be_bytes()[1..]);
        v.push(self.ty);
        v.push(self.flags);
        let id = (self.stream & 0x7fff_ffff) | if self.r { 0x8000_0000 } else { 0 };
        v.extend_from_slice(&id.to_be_bytes());
        v.extend_from_slice(&self.payload);
    }
}

/// Incremental splitter: bytes in, raw frames out (with start offsets).
#[derive(Clone, Debug, Default)]
pub struct Splitter {
    buf: Vec<u8>,
    /// absolute offset of buf[0]
    base: usize,
    /// expect (and strip) the client connection preface first
    pub preface_left: usize,
    pub bad_preface: bool,
}

impl Splitter {
    pub fn new(expect_preface: bool) -> Splitter {
        Splitter { buf: Vec::new(), base: 0, preface_left: if expect_preface { PREFACE.len() } else { 0 }, bad_preface: false }
    }
    /// Feed bytes; returns complete frames as (start offset, end offset, frame).
    pub fn push(&mut self, bytes: &[u8]) -> Vec<(usize, usize, RawFrame)> {
        self.buf.extend_from_slice(bytes);
        let mut out = Vec::new();
        let mut p = 0usize;
        if self.preface_left > 0 {
            let done = PREFACE.len() - self.preface_left;
            let n = self.preface_left.min(self.buf.len());
            if self.buf[..n] != PREFACE[done..done + n] {
                self.bad_preface = true;
            }
            self.preface_left -= n;
            p = n;
        }
        if self.preface_left == 0 {
            loop {
                let rest = &self.buf[p..];
                if rest.len() < 9 {
                    break;
                }
                let len = ((rest[0] as usize) << 16) | ((rest[1] as usize) << 8) | rest[2] as usize;
                if rest.len() < 9 + len {
                    break;
                }
                let id = u32::from_be_bytes([rest[5], rest[6], rest[7], rest[8]]);
                let f = RawFrame {
                    ty: rest[3],
                    flags: rest[4],
                    r: id & 0x8000_0000 != 0,
                    stream: id & 0x7fff_ffff,
                    payload: rest[9..9 + len].to_vec(),
                };
                out.push((self.base + p, self.base + p + 9 + len, f));
                p += 9 + len;
            }
        }
        self.buf.drain(..p);
        self.base += p;
        out
    }
    pub fn pending_bytes(&self) -> usize {
        self.buf.len()
    }
    /// declared length and type of the partial frame at the head, if its
    /// 9-byte header is complete
    pub fn pending_head(&self) -> Option<(usize, u8, u8, u32)> {
        if self.preface_left > 0 || self.buf.len() < 9 {
            return None;
        }
        let r = &self.buf;
        let len = ((r[0] as usize) << 16) | ((r[1] as usize) << 8) | r[2] as usize;
        let id = u32::from_be_bytes([r[5], r[6], r[7], r[8]]) & 0x7fff_ffff;
        Some((len, r[3], r[4], id))
    }
}

#[derive(Clone, Copy, Debug, PartialEq, Eq, Serialize, Deserialize)]
pub struct Prio {
    pub exclusive: bool,
    pub dep: u32,
    pub weight: u8,
}

#[derive(Clone, Debug, PartialEq, Eq, Serialize, Deserialize)]
pub enum Frame {
    Data { stream: u32, end_stream: bool, pad: Option<u8>, data: Vec<u8> },
    Headers { stream: u32, end_stream: bool, end_headers: bool, pad: Option<u8>, prio: Option<Prio>, frag: Vec<u8> },
    Priority { stream: u32, prio: Prio },
    Rst { stream: u32, code: u32 },
    Settings { ack: bool, params: Vec<(u16, u32)> },
    Push { stream: u32, end_headers: bool, pad: Option<u8>, promised: u32, promised_r: bool, frag: Vec<u8> },
    Ping { ack: bool, data: [u8; 8] },
    GoAway { last: u32, last_r: bool, code: u32, debug: Vec<u8> },
    WinUp { stream: u32, inc: u32, inc_r: bool },
    Cont { stream: u32, end_headers: bool, frag: Vec<u8> },
    Unknown { ty: u8, flags: u8, stream: u32, payload: Vec<u8> },
}

/// Why a raw frame is not well-formed at the framing layer (RFC 9113 §4.2, §6).
#[derive(Clone, Copy, Debug, PartialEq, Eq)]
pub enum WireErr {
    /// fixed-size frame with a wrong length (FRAME_SIZE_ERROR)
    BadLength,
    /// pad length ≥ remaining payload (PROTOCOL_ERROR)
    BadPadding,
    /// frame type on stream 0 that requires a stream, or vice versa
    BadStream,
}

fn strip_pad(flags: u8, p: &[u8]) -> Result<(Option<u8>, &[u8]), WireErr> {
    if flags & F_PADDED == 0 {
        return Ok((None, p));
    }
    if p.is_empty() {
        return Err(WireErr::BadLength);
    }
    let n = p[0] as usize;
    let rest = &p[1..];
    Ok((Some(p[0]), if n > rest.len() { return Err(WireErr::BadPadding) } else { &rest[..rest.len() - n] }))
}

impl Frame {
    pub fn stream(&self) -> u32 {
        match self {
            Frame::Data { stream, .. }
            | Frame::Headers { stream, .. }
            | Frame::Priority { stream, .. }
            | Frame::Rst { stream, .. }
            | Frame::Push { stream, .. }
            | Frame::WinUp { stream, .. }
            | Frame::Cont { stream, .. }
            | Frame::Unknown { stream, .. } => *stream,
            Frame::Settings { .. } | Frame::Ping { .. } | Frame::GoAway { .. } => 0,
        }
    }

    pub fn kind(&self) -> &'static str {
        match self {
            Frame::Data { .. } => "DATA",
            Frame::Headers { .. } => "HEADERS",
            Frame::Priority { .. } => "PRIORITY",
            Frame::Rst { .. } => "RST_STREAM",
            Frame::Settings { .. } => "SETTINGS",
            Frame::Push { .. } => "PUSH_PROMISE",
            Frame::Ping { .. } => "PING",
            Frame::GoAway { .. } => "GOAWAY",
            Frame::WinUp { .. } => "WINDOW_UPDATE",
            Frame::Cont { .. } => "CONTINUATION",
            Frame::Unknown { .. } => "UNKNOWN",
        }
    }

    /// Structural decode of one raw frame. Stream-0 rules are reported by
    /// `BadStream`; everything state-dependent is left to the state model.
    pub fn decode(r: &RawFrame) -> Result<Frame, WireErr> {
        let p = &r.payload[..];
        let s = r.stream;
        Ok(match r.ty {
            T_DATA => {
                if s == 0 {
                    return Err(WireErr::BadStream);
                }
                let (pad, d) = strip_pad(r.flags, p).map_err(|e| if e == WireErr::BadLength { WireErr::BadPadding } else { e })?;
                Frame::Data { stream: s, end_stream: r.flags & F_END_STREAM != 0, pad, data: d.to_vec() }
            }
            T_HEADERS => {
                if s == 0 {
                    return Err(WireErr::BadStream);
                }
                // Padding covers everything after the pad length octet
                let (pad, body) = strip_pad(r.flags, p)?;
                let (prio, frag) = if r.flags & F_PRIORITY != 0 {
                    if body.len() < 5 {
                        return Err(if pad.is_some() { WireErr::BadPadding } else { WireErr::BadLength });
                    }
                    let d = u32::from_be_bytes([body[0], body[1], body[2], body[3]]);
                    (Some(Prio { exclusive: d & 0x8000_0000 != 0, dep: d & 0x7fff_ffff, weight: body[4] }), &body[5..])
                } else {
                    (None, body)
                };
                Frame::Headers {
                    stream: s,
                    end_stream: r.flags & F_END_STREAM != 0,
                    end_headers: r.flags & F_END_HEADERS != 0,
                    pad,
                    prio,
                    frag: frag.to_vec(),
                }
            }
            T_PRIORITY => {
                if s == 0 {
                    return Err(WireErr::BadStream);
                }
                if p.len() != 5 {
                    return Err(WireErr::BadLength);
                }
                let d = u32::from_be_bytes([p[0], p[1], p[2], p[3]]);
                Frame::Priority { stream: s, prio: Prio { exclusive: d & 0x8000_0000 != 0, dep: d & 0x7fff_ffff, weight: p[4] } }
            }
            T_RST => {
                if p.len() != 4 {
                    return Err(WireErr::BadLength);
                }
                if s == 0 {
                    return Err(WireErr::BadStream);
                }
                Frame::Rst { stream: s, code: u32::from_be_bytes([p[0], p[1], p[2], p[3]]) }
            }
            T_SETTINGS => {
                if s != 0 {
                    return Err(WireErr::BadStream);
                }
                let ack = r.flags & F_ACK != 0;
                if (ack && !p.is_empty()) || p.len() % 6 != 0 {
                    return Err(WireErr::BadLength);
                }
                let params = p
                    .chunks(6)
                    .map(|c| (u16::from_be_bytes([c[0], c[1]]), u32::from_be_bytes([c[2], c[3], c[4], c[5]])))
                    .collect();
                Frame::Settings { ack, params }
            }
            T_PUSH => {
                if s == 0 {
                    return Err(WireErr::BadStream);
                }
                let (pad, body) = strip_pad(r.flags, p)?;
                if body.len() < 4 {
                    return Err(if pad.is_some() { WireErr::BadPadding } else { WireErr::BadLength });
                }
                let d = u32::from_be_bytes([body[0], body[1], body[2], body[3]]);
                Frame::Push {
                    stream: s,
                    end_headers: r.flags & F_END_HEADERS != 0,
                    pad,
                    promised: d & 0x7fff_ffff,
                    promised_r: d & 0x8000_0000 != 0,
                    frag: body[4..].to_vec(),
                }
            }
            T_PING => {
                if p.len() != 8 {
                    return Err(WireErr::BadLength);
                }
                if s != 0 {
                    return Err(WireErr::BadStream);
                }
                let mut d = [0u8; 8];
                d.copy_from_slice(p);
                Frame::Ping { ack: r.flags & F_ACK != 0, data: d }
            }
            T_GOAWAY => {
                if s != 0 {
                    return Err(WireErr::BadStream);
                }
                if p.len() < 8 {
                    return Err(WireErr::BadLength);
                }
                let l = u32::from_be_bytes([p[0], p[1], p[2], p[3]]);
                Frame::GoAway {
                    last: l & 0x7fff_ffff,
                    last_r: l & 0x8000_0000 != 0,
                    code: u32::from_be_bytes([p[4], p[5], p[6], p[7]]),
                    debug: p[8..].to_vec(),
                }
            }
            T_WINUP => {
                if p.len() != 4 {
                    return Err(WireErr::BadLength);
                }
                let d = u32::from_be_bytes([p[0], p[1], p[2], p[3]]);
                Frame::WinUp { stream: s, inc: d & 0x7fff_ffff, inc_r: d & 0x8000_0000 != 0 }
            }
            T_CONT => {
                if s == 0 {
                    return Err(WireErr::BadStream);
                }
                Frame::Cont { stream: s, end_headers: r.flags & F_END_HEADERS != 0, frag: p.to_vec() }
            }
            ty => Frame::Unknown { ty, flags: r.flags, stream: s, payload: p.to_vec() },
        })
    }

    /// Serialise; `extra_flags` ORs in undefined flag bits, padding bytes are
    /// `pad_byte`.
    pub fn to_raw(&self, extra_flags: u8, pad_byte: u8) -> RawFrame {
        fn padded(pad: &Option<u8>, body: Vec<u8>, pad_byte: u8) -> (u8, Vec<u8>) {
            match pad {
                None => (0, body),
                Some(n) => {
                    let mut v = Vec::with_capacity(body.len() + 1 + *n as usize);
                    v.push(*n);
                    v.extend_from_slice(&body);
                    v.extend(std::iter::repeat(pad_byte).take(*n as usize));
                    (F_PADDED, v)
                }
            }
        }
        fn prio_bytes(p: &Prio) -> [u8; 5] {
            let d = (p.dep & 0x7fff_ffff) | if p.exclusive { 0x8000_0000 } else { 0 };
            let b = d.to_be_bytes();
            [b[0], b[1], b[2], b[3], p.weight]
        }
        let mut r = match self {
            Frame::Data { stream, end_stream, pad, data } => {
                let (pf, body) = padded(pad, data.clone(), pad_byte);
                RawFrame::new(T_DATA, pf | if *end_stream { F_END_STREAM } else { 0 }, *stream, body)
            }
            Frame::Headers { stream, end_stream, end_headers, pad, prio, frag } => {
                let mut body = Vec::new();
                let mut fl = 0;
                if let Some(p) = prio {
                    body.extend_from_slice(&prio_bytes(p));
                    fl |= F_PRIORITY;
                }
                body.extend_from_slice(frag);
                let (pf, body) = padded(pad, body, pad_byte);
                if *end_stream {
                    fl |= F_END_STREAM;
                }
                if *end_headers {
                    fl |= F_END_HEADERS;
                }
                RawFrame::new(T_HEADERS, fl | pf, *stream, body)
            }
            Frame::Priority { stream, prio } => RawFrame::new(T_PRIORITY, 0, *stream, prio_bytes(prio).to_vec()),
            Frame::Rst { stream, code } => RawFrame::new(T_RST, 0, *stream, code.to_be_bytes().to_vec()),
            Frame::Settings { ack, params } => {
                let mut body = Vec::new();
                for (k, v) in params {
                    body.extend_from_slice(&k.to_be_bytes());
                    body.extend_from_slice(&v.to_be_bytes());
                }
                RawFrame::new(T_SETTINGS, if *ack { F_ACK } else { 0 }, 0, body)
            }
            Frame::Push { stream, end_headers, pad, promised, promised_r, frag } => {
                let mut body = Vec::new();
                let d = (promised & 0x7fff_ffff) | if *promised_r { 0x8000_0000 } else { 0 };
                body.extend_from_slice(&d.to_be_bytes());
                body.extend_from_slice(frag);
                let (pf, body) = padded(pad, body, pad_byte);
                RawFrame::new(T_PUSH, pf | if *end_headers { F_END_HEADERS } else { 0 }, *stream, body)
            }
            Frame::Ping { ack, data } => RawFrame::new(T_PING, if *ack { F_ACK } else { 0 }, 0, data.to_vec()),
            Frame::GoAway { last, last_r, code, debug } => {
                let mut body = Vec::new();
                let d = (last & 0x7fff_ffff) | if *last_r { 0x8000_0000 } else { 0 };
                body.extend_from_slice(&d.to_be_bytes());
                body.extend_from_slice(&code.to_be_bytes());
                body.extend_from_slice(debug);
                RawFrame::new(T_GOAWAY, 0, 0, body)
            }
            Frame::WinUp { stream, inc, inc_r } => {
                let d = (inc & 0x7fff_ffff) | if *inc_r { 0x8000_0000 } else { 0 };
                RawFrame::new(T_WINUP, 0, *stream, d.to_be_bytes().to_vec())
            }
            Frame::Cont { stream, end_headers, frag } => {
                RawFrame::new(T_CONT, if *end_headers { F_END_HEADERS } else { 0 }, *stream, frag.clone())
            }
            Frame::Unknown { ty, flags, stream, payload } => RawFrame::new(*ty, *flags, *stream, payload.clone()),
        };
        r.flags |= extra_flags;
        r
    }

    pub fn encode(&self) -> Vec<u8> {
        self.to_raw(0, 0).encode()
    }

    /// Flow-controlled length (RFC 9113 §6.1: whole payload incl. pad length
    /// octet and padding).
    pub fn flow_len(&self) -> u32 {
        match self {
            Frame::Data { pad, data, .. } => data.len() as u32 + pad.map(|p| p as u32 + 1).unwrap_or(0),
            _ => 0,
        }
    }
}

/// Parse a complete byte string (after an optional preface) into frames; the
/// trailing partial frame, if any, is returned as leftover length.
pub fn parse_all(bytes: &[u8], expect_preface: bool) -> (Vec<(usize, usize, RawFrame)>, Splitter) {
    let mut s = Splitter::new(expect_preface);
    let v = s.push(bytes);
    (v, s)
}

#[cfg(test)]
mod tests {
    use super::*;
    #[test]
    fn roundtrip_all_kinds() {
        let frames = vec![
            Frame::Data { stream: 1, end_stream: true, pad: Some(3), data: b"abc".to_vec() },
            Frame::Data { stream: 3, end_stream: false, pad: None, data: vec![] },
            Frame::Headers {
                stream: 5,
                end_stream: true,
                end_headers: false,
                pad: Some(0),
                prio: Some(Prio { exclusive: true, dep: 3, weight: 9 }),
                frag: vec![0x82],
            },
            Frame::Priority { stream: 7, prio: Prio { exclusive: false, dep: 0, weight: 255 } },
            Frame::Rst { stream: 1, code: 8 },
            Frame::Settings { ack: false, params: vec![(1, 4096), (9, 7)] },
            Frame::Settings { ack: true, params: vec![] },
            Frame::Push { stream: 1, end_headers: true, pad: None, promised: 2, promised_r: false, frag: vec![1, 2] },
            Frame::Ping { ack: true, data: [1, 2, 3, 4, 5, 6, 7, 8] },
            Frame::GoAway { last: 9, last_r: false, code: 2, debug: b"x".to_vec() },
            Frame::WinUp { stream: 0, inc: 77, inc_r: false },
            Frame::Cont { stream: 5, end_headers: true, frag: vec![] },
            Frame::Unknown { ty: 0xfa, flags: 0xff, stream: 0, payload: vec![9] },
        ];
        let mut bytes = Vec::new();
        for f in &frames {
            bytes.extend(f.encode());
        }
        // one byte at a time
        let mut sp = Splitter::new(false);
        let mut got = Vec::new();
        for b in &bytes {
            for (_, _, r) in sp.push(&[*b]) {
                got.push(Frame::decode(&r).unwrap());
            }
        }
        assert_eq!(got, frames);
    }
}
