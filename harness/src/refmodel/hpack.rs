//! Independent RFC 7541 (HPACK) reference: decoder (strict), encoder with
//! caller-chosen representations, Huffman coder. Written from the RFC text;
//! uses no h2 code and no h2 tables.

use super::huff_table::HUFF;
use std::collections::VecDeque;

/// RFC 7541 Appendix A.
pub const STATIC_TABLE: [(&str, &str); 61] = [
    (":authority", ""),
    (":method", "GET"),
    (":method", "POST"),
    (":path", "/"),
    (":path", "/index.html"),
    (":scheme", "http"),
    (":scheme", "https"),
    (":status", "200"),
    (":status", "204"),
    (":status", "206"),
    (":status", "304"),
    (":status", "400"),
    (":status", "404"),
    (":status", "500"),
    ("accept-charset", ""),
    ("accept-encoding", "gzip, deflate"),
    ("accept-language", ""),
    ("accept-ranges", ""),
    ("accept", ""),
    ("access-control-allow-origin", ""),
    ("age", ""),
    ("allow", ""),
    ("authorization", ""),
    ("cache-control", ""),
    ("content-disposition", ""),
    ("content-encoding", ""),
    ("content-language", ""),
    ("content-length", ""),
    ("content-location", ""),
    ("content-range", ""),
    ("content-type", ""),
    ("cookie", ""),
    ("date", ""),
    ("etag", ""),
    ("expect", ""),
    ("expires", ""),
    ("from", ""),
    ("host", ""),
    ("if-match", ""),
    ("if-modified-since", ""),
    ("if-none-match", ""),
    ("if-range", ""),
    ("if-unmodified-since", ""),
    ("last-modified", ""),
    ("link", ""),
    ("location", ""),
    ("max-forwards", ""),
    ("proxy-authenticate", ""),
    ("proxy-authorization", ""),
    ("range", ""),
    ("referer", ""),
    ("refresh", ""),
    ("retry-after", ""),
    ("server", ""),
    ("set-cookie", ""),
    ("strict-transport-security", ""),
    ("transfer-encoding", ""),
    ("user-agent", ""),
    ("vary", ""),
    ("via", ""),
    ("www-authenticate", ""),
];

#[derive(Clone, Debug, PartialEq, Eq, Hash, serde::Serialize, serde::Deserialize)]
pub struct Field {
    pub name: Vec<u8>,
    pub value: Vec<u8>,
}

impl Field {
    pub fn new(n: &[u8], v: &[u8]) -> Field {
        Field { name: n.to_vec(), value: v.to_vec() }
    }
    pub fn size(&self) -> usize {
        self.name.len() + self.value.len() + 32
    }
}

#[derive(Clone, Copy, Debug, PartialEq, Eq)]
pub enum HpackErr {
    /// index 0 or beyond static+dynamic table
    BadIndex,
    /// prefix integer does not fit the reference's (very wide) limit
    IntOverflow,
    /// block ends inside a representation
    Truncated,
    /// size update above the ceiling allowed by SETTINGS
    SizeUpdateTooLarge,
    /// size update after a field representation
    SizeUpdateMisplaced,
    /// a required size update (after a reduction) is missing
    MissingSizeUpdate,
    /// Huffman: EOS symbol decoded
    HuffEos,
    /// Huffman: padding longer than 7 bits or not all ones
    HuffPadding,
}

/// Facts about a decoded block the oracles need besides the fields.
#[derive(Clone, Debug, Default)]
pub struct BlockInfo {
    /// some prefix integer used more than 5 octets in total (h2 documents a
    /// limit; rejecting those is an allowed implementation limit)
    pub long_int: bool,
    /// some integer used a non-minimal encoding
    pub size_updates: Vec<usize>,
    pub dyn_refs: usize,
    pub huff_strings: usize,
    pub inserted: usize,
    pub evicted: usize,
}

// ---------------------------------------------------------------- Huffman

struct Trie {
    // node -> [child0, child1]; negative = -(sym+1) leaf; 0 = none
    nodes: Vec<[i32; 2]>,
}

fn trie() -> &'static Trie {
    use std::sync::OnceLock;
    static T: OnceLock<Trie> = OnceLock::new();
    T.get_or_init(|| {
        let mut nodes: Vec<[i32; 2]> = vec![[0, 0]];
        for (sym, &(code, len)) in HUFF.iter().enumerate() {
            let mut cur = 0usize;
            for i in (0..len).rev() {
                let bit = ((code >> i) & 1) as usize;
                if i == 0 {
                    assert_eq!(nodes[cur][bit], 0, "prefix-free");
                    nodes[cur][bit] = -(sym as i32 + 1);
                } else {
                    if nodes[cur][bit] == 0 {
                        nodes.push([0, 0]);
                        let n = nodes.len() as i32 - 1;
                        nodes[cur][bit] = n;
                    }
                    assert!(nodes[cur][bit] > 0, "prefix-free");
                    cur = nodes[cur][bit] as usize;
                }
            }
        }
        Trie { nodes }
    })
}

/// RFC 7541 §5.2: decode a Huffman string. Padding: strictly less than 8 bits,
/// all ones (MSBs of EOS); a string containing EOS is an error.
pub fn huff_decode(src: &[u8]) -> Result<Vec<u8>, HpackErr> {
    let t = trie();
    let mut out = Vec::with_capacity(src.len() * 2);
    let mut cur = 0usize;
    let mut bits_since_sym = 0u32;
    let mut all_ones = true;
    for &b in src {
        for i in (0..8).rev() {
            let bit = ((b >> i) & 1) as usize;
            bits_since_sym += 1;
            if bit == 0 {
                all_ones = false;
            }
            let nx = t.nodes[cur][bit];
            if nx < 0 {
                let sym = (-nx - 1) as usize;
                if sym == 256 {
                    return Err(HpackErr::HuffEos);
                }
                out.push(sym as u8);
                cur = 0;
                bits_since_sym = 0;
                all_ones = true;
            } else {
                // the code is complete (full binary tree), so nx != 0
                assert!(nx > 0);
                cur = nx as usize;
            }
        }
    }
    if bits_since_sym > 7 {
        // includes the case of 30 one-bits (EOS) handled above; anything that is
        // 8+ bits of pending prefix is too much padding
        return Err(HpackErr::HuffPadding);
    }
    if bits_since_sym > 0 && !all_ones {
        return Err(HpackErr::HuffPadding);
    }
    Ok(out)
}

/// Huffman-encode with EOS-prefix padding (all ones).
pub fn huff_encode(src: &[u8]) -> Vec<u8> {
    let mut out = Vec::new();
    let mut acc: u64 = 0;
    let mut n = 0u32;
    for &b in src {
        let (code, len) = HUFF[b as usize];
        acc = (acc << len) | code as u64;
        n += len as u32;
        while n >= 8 {
            out.push((acc >> (n - 8)) as u8);
            n -= 8;
        }
        acc &= (1u64 << n) - 1;
    }
    if n > 0 {
        let pad = 8 - n;
        out.push(((acc << pad) | ((1u64 << pad) - 1)) as u8);
    }
    out
}

pub fn huff_len(src: &[u8]) -> usize {
    let bits: usize = src.iter().map(|&b| HUFF[b as usize].1 as usize).sum();
    (bits + 7) / 8
}

// ---------------------------------------------------------------- integers

/// RFC 7541 §5.1. Returns (value, octets consumed). Reference limit: value
/// must fit in u64 and at most 10 continuation octets.
pub fn int_decode(src: &[u8], prefix: u32) -> Result<(u64, usize), HpackErr> {
    if src.is_empty() {
        return Err(HpackErr::Truncated);
    }
    let mask = ((1u32 << prefix) - 1) as u8;
    let mut v = (src[0] & mask) as u64;
    if v < mask as u64 {
        return Ok((v, 1));
    }
    let mut acc = v as u128;
    let mut shift = 0u32;
    let mut i = 1;
    loop {
        if i >= src.len() {
            return Err(HpackErr::Truncated);
        }
        let b = src[i];
        i += 1;
        if shift > 63 {
            return Err(HpackErr::IntOverflow);
        }
        acc += ((b & 0x7f) as u128) << shift;
        shift += 7;
        if b & 0x80 == 0 {
            break;
        }
    }
    if acc > u64::MAX as u128 {
        return Err(HpackErr::IntOverflow);
    }
    v = acc as u64;
    Ok((v, i))
}

/// Encode with `extra` superfluous zero continuation octets (non-minimal form,
/// legal per RFC 7541 §5.1 decoding algorithm).
pub fn int_encode(dst: &mut Vec<u8>, first_bits: u8, prefix: u32, v: u64, extra: usize) {
    let mask = ((1u32 << prefix) - 1) as u64;
    if v < mask && extra == 0 {
        dst.push(first_bits | v as u8);
        return;
    }
    if v < mask {
        // cannot be expressed non-minimally (prefix not saturated)
        dst.push(first_bits | v as u8);
        return;
    }
    dst.push(first_bits | mask as u8);
    let mut rem = v - mask;
    loop {
        if rem >= 128 {
            dst.push((rem % 128) as u8 | 0x80);
            rem /= 128;
        } else {
            if extra > 0 {
                dst.push(rem as u8 | 0x80);
                for k in 0..extra {
                    dst.push(if k + 1 == extra { 0x00 } else { 0x80 });
                }
            } else {
                dst.push(rem as u8);
            }
            break;
        }
    }
}

// ---------------------------------------------------------------- decoder

#[derive(Clone, Debug)]
pub struct RefDecoder {
    pub table: VecDeque<Field>,
    pub size: usize,
    /// current maximum size chosen by the encoder (≤ ceiling)
    pub max_size: usize,
    /// ceiling from SETTINGS_HEADER_TABLE_SIZE (what the decoder advertised and
    /// the encoder acknowledged)
    pub ceiling: usize,
    /// smallest ceiling set since the last block, if it was below max_size at
    /// that moment: the next block must start with an update ≤ this
    pub required_update: Option<usize>,
    /// enforce `required_update` (strict mode, used on h2's encoder output)
    pub strict_signal: bool,
    pub max_seen_size: usize,
}

impl RefDecoder {
    pub fn new(size: usize) -> RefDecoder {
        RefDecoder {
            table: VecDeque::new(),
            size: 0,
            max_size: size,
            ceiling: size,
            required_update: None,
            strict_signal: false,
            max_seen_size: 0,
        }
    }

    /// The decoder side advertised a new SETTINGS_HEADER_TABLE_SIZE and the
    /// encoder acknowledged it.
    pub fn set_ceiling(&mut self, c: usize) {
        if c < self.max_size {
            let r = match self.required_update {
                Some(r) => r.min(c),
                None => c,
            };
            self.required_update = Some(r);
        }
        self.ceiling = c;
    }

    fn evict_to(&mut self, limit: usize, info: &mut BlockInfo) {
        while self.size > limit {
            let f = self.table.pop_back().expect("size>0 implies entries");
            self.size -= f.size();
            info.evicted += 1;
        }
    }

    fn get(&self, idx: u64) -> Result<Field, HpackErr> {
        if idx == 0 {
            return Err(HpackErr::BadIndex);
        }
        let i = idx as usize;
        if i <= 61 {
            let (n, v) = STATIC_TABLE[i - 1];
            return Ok(Field::new(n.as_bytes(), v.as_bytes()));
        }
        match self.table.get(i - 62) {
            Some(f) => Ok(f.clone()),
            None => Err(HpackErr::BadIndex),
        }
    }

    fn insert(&mut self, f: Field, info: &mut BlockInfo) {
        let sz = f.size();
        if sz > self.max_size {
            // §4.4: empties the table, entry not added
            self.evict_to(0, info);
            return;
        }
        self.evict_to(self.max_size - sz, info);
        self.size += sz;
        self.table.push_front(f);
        info.inserted += 1;
        if self.size > self.max_seen_size {
            self.max_seen_size = self.size;
        }
    }

    fn string(src: &[u8], info: &mut BlockInfo) -> Result<(Vec<u8>, usize), HpackErr> {
        if src.is_empty() {
            return Err(HpackErr::Truncated);
        }
        let huff = src[0] & 0x80 != 0;
        let (len, n) = int_decode(src, 7)?;
        if n > 5 {
            info.long_int = true;
        }
        let len = usize::try_from(len).map_err(|_| HpackErr::Truncated)?;
        if src.len() - n < len {
            return Err(HpackErr::Truncated);
        }
        let raw = &src[n..n + len];
        let s = if huff {
            info.huff_strings += 1;
            huff_decode(raw)?
        } else {
            raw.to_vec()
        };
        Ok((s, n + len))
    }

    /// Decode one complete header block. On error the decoder state is
    /// unspecified (a decoding error is fatal for the connection).
    pub fn decode_block(&mut self, block: &[u8]) -> Result<(Vec<Field>, BlockInfo), HpackErr> {
        let mut info = BlockInfo::default();
        let mut out = Vec::new();
        let mut p = 0usize;
        let mut seen_field = false;
        let required = self.required_update.take();
        let mut first_update = true;
        while p < block.len() {
            let b = block[p];
            if b & 0x80 != 0 {
                // indexed
                let (idx, n) = int_decode(&block[p..], 7)?;
                if n > 5 {
                    info.long_int = true;
                }
                if !seen_field {
                    Self::check_required(required, first_update, self.strict_signal)?;
                }
                seen_field = true;
                let f = self.get(idx)?;
                if idx > 61 {
                    info.dyn_refs += 1;
                }
                out.push(f);
                p += n;
            } else if b & 0xe0 == 0x20 {
                // size update
                let (v, n) = int_decode(&block[p..], 5)?;
                if n > 5 {
                    info.long_int = true;
                }
                if seen_field {
                    return Err(HpackErr::SizeUpdateMisplaced);
                }
                if v > self.ceiling as u64 {
                    return Err(HpackErr::SizeUpdateTooLarge);
                }
                if first_update && self.strict_signal {
                    if let Some(r) = required {
                        if v as usize > r {
                            return Err(HpackErr::MissingSizeUpdate);
                        }
                    }
                }
                first_update = false;
                self.max_size = v as usize;
                self.evict_to(self.max_size, &mut info);
                info.size_updates.push(v as usize);
                p += n;
            } else {
                let (prefix, index_it) = if b & 0xc0 == 0x40 { (6, true) } else { (4, false) };
                let (idx, n) = int_decode(&block[p..], prefix)?;
                if n > 5 {
                    info.long_int = true;
                }
                if !seen_field {
                    Self::check_required(required, first_update, self.strict_signal)?;
                }
                seen_field = true;
                let mut q = p + n;
                let name = if idx == 0 {
                    let (s, m) = Self::string(&block[q..], &mut info)?;
                    q += m;
                    s
                } else {
                    if idx > 61 {
                        info.dyn_refs += 1;
                    }
                    self.get(idx)?.name
                };
                let (value, m) = Self::string(&block[q..], &mut info)?;
                q += m;
                let f = Field { name, value };
                if index_it {
                    self.insert(f.clone(), &mut info);
                }
                out.push(f);
                p = q;
            }
        }
        if !seen_field {
            // an empty block (or only size updates) still must carry the signal
            Self::check_required(required, first_update, self.strict_signal)?;
        }
        if self.size > self.max_size || (self.strict_signal && self.max_size > self.ceiling) {
            // cannot happen by construction; kept as a self check
            panic!("refmodel::hpack invariant broken");
        }
        Ok((out, info))
    }

    fn check_required(required: Option<usize>, first_update: bool, strict: bool) -> Result<(), HpackErr> {
        if strict && required.is_some() && first_update {
            // no size update was seen before the first field
            return Err(HpackErr::MissingSizeUpdate);
        }
        Ok(())
    }
}

// ---------------------------------------------------------------- encoder

/// How the reference encoder represents one field.
#[derive(Clone, Copy, Debug, PartialEq, Eq, serde::Serialize, serde::Deserialize)]
pub enum Repr {
    /// fully indexed if a matching entry exists, else falls back to `Incremental`
    Indexed,
    Incremental,
    Without,
    Never,
}

#[derive(Clone, Copy, Debug, serde::Serialize, serde::Deserialize)]
pub struct Choice {
    pub repr: Repr,
    /// use an indexed name when one exists
    pub name_ref: bool,
    pub huff_name: bool,
    pub huff_value: bool,
    /// extra zero continuation octets on the integers (non-minimal), 0..=2
    pub pad_int: u8,
    /// prefer the oldest matching entry instead of the newest
    pub oldest: bool,
}

impl Choice {
    pub fn plain() -> Choice {
        Choice { repr: Repr::Without, name_ref: false, huff_name: false, huff_value: false, pad_int: 0, oldest: false }
    }
    pub fn compact() -> Choice {
        Choice { repr: Repr::Indexed, name_ref: true, huff_name: true, huff_value: true, pad_int: 0, oldest: false }
    }
}

/// Reference encoder: keeps the same dynamic table as a decoder would.
#[derive(Clone, Debug)]
pub struct RefEncoder {
    pub dec: RefDecoder,
}

impl RefEncoder {
    pub fn new(size: usize) -> RefEncoder {
        RefEncoder { dec: RefDecoder::new(size) }
    }

    pub fn size_update(&mut self, dst: &mut Vec<u8>, v: usize) {
        int_encode(dst, 0x20, 5, v as u64, 0);
        let mut info = BlockInfo::default();
        self.dec.max_size = v;
        self.dec.evict_to(v, &mut info);
    }

    fn find(&self, f: &Field, oldest: bool) -> (Option<u64>, Option<u64>) {
        // (full match index, name match index)
        let mut full = None;
        let mut name = None;
        for (i, (n, v)) in STATIC_TABLE.iter().enumerate() {
            if n.as_bytes() == &f.name[..] {
                if name.is_none() || oldest {
                    name = Some(i as u64 + 1);
                }
                if v.as_bytes() == &f.value[..] && (full.is_none() || oldest) {
                    full = Some(i as u64 + 1);
                }
            }
        }
        for (i, e) in self.dec.table.iter().enumerate() {
            if e.name == f.name {
                if name.is_none() || oldest {
                    name = Some(i as u64 + 62);
                }
                if e.value == f.value && (full.is_none() || oldest) {
                    full = Some(i as u64 + 62);
                }
            }
        }
        (full, name)
    }

    fn put_string(dst: &mut Vec<u8>, s: &[u8], huff: bool, pad: usize) {
        if huff {
            let h = huff_encode(s);
            int_encode(dst, 0x80, 7, h.len() as u64, pad);
            dst.extend_from_slice(&h);
        } else {
            int_encode(dst, 0x00, 7, s.len() as u64, pad);
            dst.extend_from_slice(s);
        }
    }

    pub fn field(&mut self, dst: &mut Vec<u8>, f: &Field, c: Choice) {
        let (full, name) = self.find(f, c.oldest);
        let pad = c.pad_int as usize;
        let mut repr = c.repr;
        if repr == Repr::Indexed {
            if let Some(i) = full {
                int_encode(dst, 0x80, 7, i, pad);
                return;
            }
            repr = Repr::Incremental;
        }
        let (bits, prefix) = match repr {
            Repr::Incremental => (0x40u8, 6),
            Repr::Without => (0x00, 4),
            Repr::Never => (0x10, 4),
            Repr::Indexed => unreachable!(),
        };
        match (c.name_ref, name) {
            (true, Some(i)) => int_encode(dst, bits, prefix, i, pad),
            _ => {
                int_encode(dst, bits, prefix, 0, 0);
                Self::put_string(dst, &f.name, c.huff_name, pad);
            }
        }
        Self::put_string(dst, &f.value, c.huff_value, pad);
        if repr == Repr::Incremental {
            let mut info = BlockInfo::default();
            self.dec.insert(f.clone(), &mut info);
        }
    }
}

#[cfg(test)]
mod tests {
    use super::*;

    #[test]
    fn rfc_c4_examples() {
        // RFC 7541 C.4.1
        let block = [
            0x82, 0x86, 0x84, 0x41, 0x8c, 0xf1, 0xe3, 0xc2, 0xe5, 0xf2, 0x3a, 0x6b, 0xa0, 0xab, 0x90, 0xf4, 0xff,
        ];
        let mut d = RefDecoder::new(4096);
        let (f, _) = d.decode_block(&block).unwrap();
        assert_eq!(f[3], Field::new(b":authority", b"www.example.com"));
        assert_eq!(d.size, 57);
        // C.4.2
        let block = [0x82, 0x86, 0x84, 0xbe, 0x58, 0x86, 0xa8, 0xeb, 0x10, 0x64, 0x9c, 0xbf];
        let (f, _) = d.decode_block(&block).unwrap();
        assert_eq!(f[4], Field::new(b"cache-control", b"no-cache"));
        assert_eq!(d.size, 110);
    }

    #[test]
    fn huff_roundtrip_and_padding() {
        let s = b"www.example.com";
        assert_eq!(huff_encode(s), [0xf1, 0xe3, 0xc2, 0xe5, 0xf2, 0x3a, 0x6b, 0xa0, 0xab, 0x90, 0xf4, 0xff]);
        for b in 0..=255u8 {
            let e = huff_encode(&[b, b]);
            assert_eq!(huff_decode(&e).unwrap(), vec![b, b]);
        }
        assert_eq!(huff_decode(&[0xff]), Err(HpackErr::HuffPadding)); // 8 bits of padding
        assert_eq!(huff_decode(&[0xff, 0xff, 0xff, 0xff]), Err(HpackErr::HuffEos));
        assert_eq!(huff_decode(&[0x1e]), Err(HpackErr::HuffPadding)); // 'a'=00011 + 110
        assert_eq!(huff_decode(&[0x1f]).unwrap(), b"a");
    }

    #[test]
    fn ints() {
        let mut v = Vec::new();
        int_encode(&mut v, 0, 5, 1337, 0);
        assert_eq!(v, [31, 154, 10]);
        assert_eq!(int_decode(&v, 5).unwrap(), (1337, 3));
        let mut v = Vec::new();
        int_encode(&mut v, 0, 5, 1337, 2);
        assert_eq!(int_decode(&v, 5).unwrap(), (1337, 5));
        assert_eq!(int_decode(&[10], 5).unwrap(), (10, 1));
    }
}
