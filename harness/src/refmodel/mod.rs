//! Reference models written from the RFCs (9113, 7541). No dependency on h2.
pub mod hpack;
pub mod http;
pub mod huff_table;
pub mod wire;
