#!/usr/bin/env python3
"""keep_seed.py <seed-out-dir> <seeded-id> [detected-by text]: copy a verified seeded change into /verif/seeded/<id>/."""
import sys, os, json, shutil
src, sid = sys.argv[1], sys.argv[2]
det = sys.argv[3] if len(sys.argv) > 3 else None
dst = f"/verif/seeded/{sid}"
os.makedirs(dst, exist_ok=True)
for f in ("patch.diff", "demo.rs"):
    shutil.copy(os.path.join(src, f), os.path.join(dst, f))
meta = {}
try:
    meta = json.load(open(os.path.join(src, "meta.json")))
except Exception:
    pass
ver = open(os.path.join(src, "verified.txt")).read() if os.path.exists(os.path.join(src, "verified.txt")) else ""
out = {
    "property": meta.get("property", sid.split("-")[0]),
    "summary": meta.get("summary", ""),
    "needs": meta.get("needs", ""),
    "files_changed": meta.get("files_changed", []),
    "demo": "demo.rs — integration test; place under tests/h2-tests/tests/<name>.rs and run `cargo test --offline -p h2-tests --test <name>`",
    "demo_cmd_of_author": meta.get("demo_cmd", ""),
    "what_i_ran": "tools/verify_seed.sh in a scratch worktree: demo on the clean tree (passes), demo with patch.diff applied (fails), full suite `cargo test --workspace --no-fail-fast --offline` with the patch (only the baseline always-fail test fails)",
    "verification_output": ver,
    "origin": "independent sub-agent given only the property text and a scratch worktree",
}
if os.path.exists(os.path.join(dst, "meta.json")):
    old = json.load(open(os.path.join(dst, "meta.json")))
    if "detected_by" in old and det is None:
        out["detected_by"] = old["detected_by"]
if det:
    out["detected_by"] = det
json.dump(out, open(os.path.join(dst, "meta.json"), "w"), indent=1)
print("kept", dst)
