import json,sys
d=json.load(open('/verif/known_findings.json'))
def add(prop,sig,what):
    if not any(e['signature']==sig for e in d['findings']):
        d['findings'].append({"property":prop,"signature":sig,"status":"known","commit":"","what":what,"line":"KNOWN-FINDING: property=%s %s"%(prop,what[:120])})
add(sys.argv[1],sys.argv[2],sys.argv[3])
json.dump(d,open('/verif/known_findings.json','w'),indent=1)
