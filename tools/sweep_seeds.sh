#!/bin/sh
# Apply every kept seeded change to /repo in turn, run the quick check of its property (plus the
# checks named in tools/sweep_extra.txt for that seed), record what was reported, undo the change.
#   sweep_seeds.sh [<id> ...]        results: /verif/seeded/RESULTS.tsv (+ per-seed detected_by in meta.json)
# With SWEEP_REPO=<scratch worktree of /repo> and SWEEP_VERIF=<scratch copy of /verif whose harness/Cargo.toml
# points at that worktree> nothing in /repo is touched (the copy is refreshed from /verif once, at the start).
REPO=${SWEEP_REPO:-/repo}
VROOT=${SWEEP_VERIF:-/verif}
cd /verif || exit 2
if [ "$VROOT" != "/verif" ]; then
  rsync -a --exclude 'harness/target' --exclude 'harness/Cargo.toml' --exclude 'fuzz/target' --exclude 'fuzz/corpus-run' --exclude 'replays' --exclude 'evidence' /verif/ "$VROOT"/
  git -C "$REPO" checkout -q -- . ; git -C "$REPO" reset -q --hard "$(git -C /repo rev-parse HEAD)"
fi
git -C "$REPO" diff --quiet || { echo "$REPO is dirty"; exit 2; }
IDS="$@"; [ -z "$IDS" ] && IDS=$(ls seeded | grep -E '^C[0-9]+-[0-9]+$')
OUT=/verif/seeded/RESULTS.tsv
[ -f "$OUT" ] || printf "seed\tcheck\texit\tsignature\n" > "$OUT"
for id in $IDS; do
  prop=${id%%-*}
  extra=$(grep "^$id " tools/sweep_extra.txt 2>/dev/null | cut -d' ' -f2-)
  git -C "$REPO" apply "/verif/seeded/$id/patch.diff" || git -C "$REPO" apply --3way "/verif/seeded/$id/patch.diff" || { printf "%s\t-\t-\tPATCH-DOES-NOT-APPLY\n" "$id" >> "$OUT"; git -C "$REPO" checkout -q -- .; continue; }
  found=""
  for c in $prop $extra; do
    log=$(VERIF_EVIDENCE_DIR=/tmp/sweep-evidence "$VROOT/check" "$c" quick 2>&1); rc=$?
    sig=$(printf "%s\n" "$log" | grep -m1 "violation detail" | sed 's/.*signature=\(.*\) :: .*/\1/' | cut -c1-160)
    grep -v "^$id	$c	" "$OUT" > "$OUT.tmp"; mv "$OUT.tmp" "$OUT"
    printf "%s\t%s\t%s\t%s\n" "$id" "$c" "$rc" "${sig:-none}" >> "$OUT"
    if [ "$rc" = "1" ]; then
      found="$found ./check $c quick → $sig;"
      rp=$(printf "%s\n" "$log" | grep -m1 "^VIOLATION" | sed 's/.*replay=//')
      # the shrunk failing case joins the committed regression tier of that check (it passes on the unchanged tree)
      [ -f "$rp" ] && [ "$(stat -c %s "$rp")" -lt 400000 ] && mkdir -p "regress/$c" && cp "$rp" "regress/$c/seed-$id.json"
      break
    fi
  done
  git -C "$REPO" checkout -q -- . ; git -C "$REPO" reset -q
  python3 - "$id" "$found" <<'PY'
import json,sys
p='/verif/seeded/%s/meta.json'%sys.argv[1]
m=json.load(open(p))
m['detected_by']=sys.argv[2].strip() or 'NOT DETECTED by the quick tier of its property check'
json.dump(m,open(p,'w'),indent=1)
PY
  echo "$id: ${found:-not detected}"
done
echo sweep-done
