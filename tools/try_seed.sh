#!/bin/sh
# Run checks against a seeded change applied to /repo, then undo it.
#   try_seed.sh <patch.diff> <Cxx> [<Cxx> ...]     (env VERIF_SCALE_PCT etc. pass through)
P="$1"; shift
git -C /repo diff --quiet || { echo "/repo is dirty"; exit 2; }
git -C /repo apply "$P" || git -C /repo apply --3way "$P" || { echo "patch does not apply"; exit 2; }
for c in "$@"; do
  /verif/check "$c" quick 2>&1 | grep -E "VIOLATION|violation detail|KNOWN|evaluations=|build failed|error" | cut -c1-400
  echo "exit=$?"
done
git -C /repo checkout -q -- . ; git -C /repo reset -q
echo "/repo restored: $(git -C /repo status --short | wc -l) changes"
