#!/bin/sh
# Confirm a seeded change myself in a scratch worktree:
#   verify_seed.sh <seed-dir> <worktree> <demo-test-name>
# 1) clean tree: demo passes; 2) with patch: compiles, full suite passes (except the baseline
# always-fail test), demo fails. Writes <seed-dir>/verified.txt. The worktree is left clean.
SEED="$1"; WT="$2"; NAME="$3"
LOG="$SEED/verified.txt"
cd "$WT" || exit 2
git checkout -q -- . ; git clean -fdq tests src 2>/dev/null
cp "$SEED/demo.rs" "tests/h2-tests/tests/$NAME.rs"
{
echo "== seed $SEED in $WT at $(git rev-parse --short HEAD) =="
echo "-- demo WITHOUT the change:"
cargo test --offline -p h2-tests --test "$NAME" 2>&1 | grep -E "^test |test result" | head -20
git apply "$SEED/patch.diff" || { echo "PATCH DOES NOT APPLY"; exit 1; }
echo "-- demo WITH the change:"
cargo test --offline -p h2-tests --test "$NAME" 2>&1 | grep -E "^test |test result|panicked" | head -20
rm -f "tests/h2-tests/tests/$NAME.rs"
echo "-- full suite WITH the change:"
cargo test --workspace --no-fail-fast --offline 2>&1 | grep -E "^test result|FAILED|^error" | sort | uniq -c | head -30
} > "$LOG" 2>&1
git checkout -q -- . ; git clean -fdq tests src 2>/dev/null
echo "verified -> $LOG"
