#!/bin/sh
# Run every quick check on the unchanged tree under several seeds; anything but exit 0 is listed.
#   soak.sh <seed> [<seed> ...]         log: /tmp/soak.log
cd /verif || exit 2
git -C /repo diff --quiet || { echo "/repo is dirty"; exit 2; }
for seed in "$@"; do
  for c in C01 C02 C03 C04 C05 C06 C07 C08 C09 C10 C11 C12 C13 C14 C15 C16 C17 C18 C19 C20; do
    out=$(VERIF_SEED=$seed VERIF_EVIDENCE_DIR=/tmp/soak-evidence ./check $c quick 2>&1); rc=$?
    if [ $rc -ne 0 ]; then
      echo "ALARM seed=$seed $c exit=$rc"; printf "%s\n" "$out" | grep -E "violation detail|VIOLATION|watchdog|harness panic" | cut -c1-500
      rp=$(printf "%s\n" "$out" | grep -m1 "^VIOLATION" | sed 's/.*replay=//'); [ -f "$rp" ] && cp "$rp" /tmp/soak-alarm-$seed-$c.json
    fi
  done
  echo "seed $seed done"
done
echo soak-done
