#!/usr/bin/env python3
"""Regenerates /verif/MANIFEST.json from the table below (kept in one place so the
manifest is always valid). Run: python3 tools/gen_manifest.py"""
import json, subprocess, os

ROOT = os.path.dirname(os.path.dirname(os.path.abspath(__file__)))

def hook_commits():
    try:
        out = subprocess.check_output(["git", "-C", "/repo", "log", "--format=%H %s"], text=True)
        return [l.split()[0] for l in out.splitlines() if l.split(" ", 1)[1].startswith("verif hooks")]
    except Exception:
        return []

# id -> (engine, category, technique, level text, level note, design ref)
CHECKS = {
 "C10": ("hpack-enc", "exploration",
   "property-based testing (proptest tapes): generated header-list/table-size histories through h2's Codec, round-trip oracle against an independent strict RFC 7541 decoder + h2's decoder, metamorphic split-vs-unsplit",
   "Generated search: every header block h2 emits for a generated history (header lists, SETTINGS_HEADER_TABLE_SIZE and MAX_FRAME_SIZE changes, partial writes) is reassembled by an independent frame parser and decoded by a strict reference decoder (rejects oversize/late/missing size updates) and by h2's own decoder; fields must equal the submission, fragments must concatenate to the unsplit encoding. Exploration, not proof: holds on everything generated.",
   "Trusts refmodel::hpack (validated on 382 third-party fixture stories / 40k blocks by ./check selftest) and that encoder and decoder see table-size changes at the same history position. The decoder side across HEADERS/CONTINUATION fragment boundaries runs through the split engine (re-attributed): a size update or insertion lost at a boundary desynchronises the tables.",
   "DESIGN.md §3 C10"),
 "C11": ("hpack-dec", "exploration",
   "property-based testing + exhaustive enumeration: differential oracle (h2 hpack::Decoder / Codec vs independent RFC 7541 reference), metamorphic whole-vs-split through HEADERS+CONTINUATION, exhaustive Huffman strings ≤2 bytes and boundary prefix integers",
   "Generated block histories (reference-encoded with random representation choices, mutated, hostile templates, random bytes) are decoded by h2 and by the reference: h2 must never accept what RFC 7541 makes an error and must return the same fields; the last block is also fed through h2's real Codec whole and at every split point. Sub-spaces (all ≤2-byte Huffman inputs, all ≤2-symbol strings with every padding defect, boundary prefix integers) are enumerated exhaustively.",
   "Trusts refmodel::hpack (fixture-validated). h2 rejecting RFC-valid input is allowed by the property and only counted.",
   "DESIGN.md §3 C11"),
 "C12": ("codec", "exploration",
   "property-based testing: round-trip oracle — frames written through h2's Codec are parsed by an independent RFC 9113 parser, reference-serialised frames are parsed by h2 under generated read chunkings (metamorphic: whole vs chunked), oversize-frame probe",
   "Generated frame sequences go through h2's Codec write side (scripted short writes, Pending, vectored on/off, multi-segment Buf payloads, max-frame-size changes) and must be read back identically, within the size limit, by the independent parser; reference-serialised frames of all ten types plus unknown types (all flags, padding, priority, reserved bits, CONTINUATION chains) must be parsed by h2 to the expected values for every generated read chunking, and a frame header announcing more than max_recv_frame_size must be refused with FRAME_SIZE_ERROR before any payload arrives.",
   "On a live connection (h2 <-> h2): frames within the advertised SETTINGS_MAX_FRAME_SIZE are parsed also after later SETTINGS frames that do not mention it (a FRAME_SIZE_ERROR accusation is the symptom). Trusts refmodel::wire (round-trip self-test; must parse every byte h2 emits). Read side uses zero padding only (receivers MAY reject non-zero padding). GOAWAY debug data ≤ 1000 B as h2's callers only pass short static strings.",
   "DESIGN.md §3 C12"),
 "C01": ("sim-pair", "exploration",
   "property-based testing (stateful/model-based): generated client+server programs, configurations, schedules and chunkings on a deterministic simulator; oracle = sent-vs-received comparison of the API event log (heads, content-addressed body bytes, trailers, clean end) per stream",
   "Generated h2-client ↔ h2-server exchanges (request/response/interim/push programs with bodies around every size constant, windows 1…1 MiB, frame sizes, buffer limits, resets and drops) run on a single-threaded executor that polls a task only when woken, over a transport that cuts reads and writes by a generated tape. Whatever the receive API returns must be a prefix of what the send API accepted on the same stream (heads in order, bytes checked against a position-keyed content function, trailers), a clean end only for completely sent messages, and complete delivery in cooperative runs.",
   "Trusts the simulator's transport/executor contracts. Both endpoints are h2; symmetric encode/decode mistakes are caught by the independent tap (frame parser + reference HPACK decoder) that also runs on every case. What h2 never emits (padding of every length, empty and padding-only DATA) is sent by the reference peer in the flow engine and checked by cumulative position; a sixth of the requests call poll_informational again after the final head was taken. A legal message that makes the receiving h2 accuse the sending h2 of a protocol violation counts as not delivered (re-attributed accusation oracle).",
   "DESIGN.md §3 C01"),
 "C02": ("sim-pair", "exploration",
   "property-based testing: generated exchanges on the deterministic simulator; oracle = independent flow-control accountant over the tapped wire (credit = acked initial window ± acked SETTINGS deltas + delivered WINDOW_UPDATEs − DATA sent)",
   "Every DATA frame either endpoint writes is checked, at the step its first byte reached the transport, against the stream and connection credit the peer had granted by then (grants counted once delivered, SETTINGS_INITIAL_WINDOW_SIZE changes from the wire position of the sender's ACK), over generated programs with windows 1…2^20, mid-connection window changes, reserve_capacity loops, resets and partial writes.",
   "A grant delivered in the same executor step as the DATA frame is given to the sender (most permissive). Accountant arithmetic in i64.",
   "DESIGN.md §3 C02"),
 "C04": ("sim-pair", "exploration",
   "property-based testing: generated exchanges with resets/drops at every position; oracle = RFC 9113 §5.1/§6 sender-side stream automaton run over each endpoint's tapped output",
   "The frames each endpoint emits are run through a sender-side automaton written from RFC 9113: id order and parity, HEADERS/PUSH_PROMISE opening, nothing on idle streams, only permitted frames after END_STREAM/RST_STREAM (extra RST_STREAMs must be answers to peer frames), DATA only between final HEADERS and trailers, contiguous header blocks, stream-0 discipline, PUSH_PROMISE only while push is enabled and the parent is open.",
   "Clauses that depend on what the peer has sent use delivery times from the tap (a frame counts as known to the endpoint once its first byte was delivered). The raw-queue-client engine adds clients whose stream identifiers run out (initial_stream_id near 2^31-1), late frames for forgotten streams and requests issued afterwards.",
   "DESIGN.md §3 C04"),
 "C06": ("sim-pair", "exploration",
   "property-based testing over schedules: cooperative generated programs on an executor that polls only woken tasks; oracle = no application task pending at quiescence; stalled cases re-run with spurious polls to tell a lost wake-up from an accounting stall",
   "Cooperative programs (every reader reads and releases, every sender sends what it is assigned, connections driven by their own tasks) are run under generated schedules, chunkings, windows ≥ 1, limits ≥ 1 and mid-connection window changes. At quiescence (nothing runnable, nothing in flight) every application task must have finished. A stalled case is re-polled generously: completing then proves a lost wake-up; stalling still is an accounting stall.",
   "Bounded liveness only (deadlock/lost-wakeup freedom per generated program and schedule), not fairness over unbounded time. The raw-queue-client engine adds requests queued behind a scripted peer's stream limit with the slots released by peer END_STREAM / own END_STREAM / send_reset / dropped handles / peer RST_STREAM; tap oracle: every submitted, uncancelled request is on the wire at quiescence unless the acknowledged limit is reached. Programs with resets and drops (PAIR Resets) are judged for lost wake-ups only; the client connection is first polled under another waker than later. Every scripted-peer engine (capacity, flow, acks, shutdown, goaway, both catalogues, both http engines) also runs here with the lost-wake-up oracle: a program stuck at quiescence that completes once every task is polled again was not woken by the library.",
   "DESIGN.md §3 C06"),
 "C05": ("sim-pair", "exploration",
   "property-based testing: generated exchanges with small limits and every close path; oracle = slot accounting over the tapped wire (open-on-the-wire count vs acknowledged limit) and over the API log (streams surfaced concurrently; refusals only when slots may be taken)",
   "For every HEADERS that opens a client stream the number of earlier own streams not yet closed as far as the client can know must be below the limit in the last SETTINGS it acknowledged; the server never hands more concurrently active streams to accept() than it advertised, never surfaces a stream it refused, and refuses only when as many earlier streams may still be open; generated limits 1,2,3,5,100, resets, drops, early response-future drops while queued.",
   "Send side with a limit changed by the peer mid-connection (also while the client's writes are blocked) and every way of releasing a slot: raw-queue-client engine. Receive side under blocked writes, frames for refused streams and refused ids opened again: refusal rows of the server catalogue (re-attributed).",
   "DESIGN.md §3 C05"),
 "C07": ("sim-pair", "fault_enumeration",
   "property-based fault injection: generated exchanges × one generated ending (EOF, read error, write error, write-zero at a generated byte offset of either direction or on the idle connection; graceful/abrupt shutdown; dropping either connection object) on the deterministic simulator; oracle = nothing pending at quiescence, connection futures completed",
   "After the generated ending every application task (response futures, body/trailer reads, capacity waits, readiness, accept, push promises, pings) must have resolved when nothing is runnable any more, and both connection futures must have completed (unless that object was the one dropped). A pending task is re-polled to classify lost wake-ups.",
   "Programs are cooperative (no send half dropped while its side keeps reading) so that a hang is the library's. Fault offsets are sampled, not enumerated, in the quick tier.",
   "DESIGN.md §3 C07"),
 "C08": ("sim-raw", "exploration",
   "property-based testing / structured fuzzing: frame-soup engines (h2 server and h2 client under test) receive 1-28 generated frames following the conversation, a third of them mutated (flag flip, length field, consistent resize, type, stream id incl. R bit, payload bytes, truncation, duplication), illegal SETTINGS / WINDOW_UPDATE values, fixed-size frames of wrong size, garbage bytes, under generated chunking / schedule / blocked writes, then EOF (sometimes inside a frame); plus the RFC violation catalogue and the PAIR engines with resets and faults; oracle = no panic, no self-waking loop, no endless output inside one poll, everything completes after the peer is gone, own output stays legal",
   "Every run of every simulator engine reports panics (with location), poisoned locks and busy connection tasks as C08 violations. The soup engines add: more than 100 000 transport writes inside one poll (runaway output), and at quiescence after the peer's EOF the connection future and every application operation must have completed (lost wake-ups told apart by a generous re-poll). The endpoint's own output is still held against the framing, HPACK, state-machine and flow-control accountants.",
   "A panic of the code under test inside a component engine (HPACK decoder, frame reader fed directly) is a verdict, and those engines run here too. Generated, not exhaustive: a defect that needs one specific 5-frame sequence in one specific chunking is found only with the probability the generator gives that sequence (same-stream stories are biased up for that reason).",
   "DESIGN.md §7.2 C08"),
 "C09": ("sim-raw", "exploration",
   "property-based testing: (generated legal prefix reaching a stream state) × (one item of an RFC 9113 violation / legal-but-unusual catalogue) × probe request; oracle = required reaction class per catalogue row (connection error / at least stream error / tolerated), containment (nothing surfaced, other streams keep working)",
   "85 catalogue rows, each carrying the RFC sentence it encodes, are injected into an h2 server whose target stream was driven into one of the states none, open, half-closed remote, closed, reset by the peer, refused for exceeding the limit, request rejected, during and after a graceful-shutdown handshake — optionally while the server's writes are blocked; afterwards a PING barrier and a probe request decide: connection errors need GOAWAY(code≠0) and an ended connection, stream errors need at least RST_STREAM on that stream with the probe still served, legal-but-unusual items need no error at all and a served probe. Only the class of reaction is demanded, never a code.",
   "PAIR accusation oracle (h2 client <-> h2 server, cooperative and reset programs): no GOAWAY or RST_STREAM carrying PROTOCOL_ERROR / FLOW_CONTROL_ERROR / FRAME_SIZE_ERROR / COMPRESSION_ERROR that no application asked for (skipped for an accuser configured to remember no resets). Catalogue rows transcribed from RFC 9113 by hand (audit: harness/src/eng_raw.rs). A second engine puts an h2 client under test: 30 rows (PUSH_PROMISE misuse, frames on reserved streams, responses out of place, role-independent framing/SETTINGS/HPACK rows, legal-but-unusual traffic) x 6 states of the client's request, same oracle; forbidden promised streams must never surface as pushes.",
   "DESIGN.md §3 C09, App. A"),
 "C17": ("sim-pair", "exploration",
   "property-based testing: generated exchanges with send_reset(code∈u32)/handle drops at every position; oracle = RST_STREAM count/code/order per stream on the tapped wire against the API log, and error-info comparison (reason, remote/library/user, reset/go-away) on every handle",
   "Per stream and endpoint: the n-th RST_STREAM needs n−1 late peer frames (n when the first was not application-caused); RST after HEADERS on own streams; the first code equals the caller's code, CANCEL for an implicit cancel, NO_ERROR only from a server whose response was complete; an explicit send_reset on an unfinished open stream of a live connection must reach the wire; every error a handle reports as remote carries a code the peer really sent.",
   "A task waiting in poll_reset (first polled under another waker) is woken by the peer's RST_STREAM by itself, not by the simulator's diagnostic re-poll; a peer reset that the receive API reports as a clean end has not surfaced. Discard oracle: no DATA of a stream that was not yet on the wire is written after send_reset (programs reset after END_STREAM with the body queued behind windows, the concurrency limit or a frame in flight). Peer resets delivered to the endpoint surface on the handles with the peer's code, also during a shutdown handshake (scripted peer). Codes are generated over the full u32 range (3/4 biased to the 14 registered codes). I/O failures: the Faults engine injects EOF, read errors (ConnectionReset and UnexpectedEof kinds), write errors and write-zero at generated offsets; every I/O error a handle reports must carry a text the simulated transport produced (a synthetic error made up by the library is a violation).",
   "DESIGN.md §3 C17, §7.2"),
 "C19": ("sim-pair", "exploration",
   "property-based testing: generated exchanges where every stream ends by some path and every handle is dropped; oracle = read-only statistics probe (guarded hook) at quiescence of the live connection against the a-priori idle values, wire/API check of the idle client close",
   "At quiescence of a live connection with all application tasks finished the store holds only remembered local resets (≤ quota), no orphan records, empty send buffer, zero concurrency counters, zero in-flight receive bytes, fully unassigned connection send capacity; `dangling store key` panics are attributed here; a client whose last SendRequest and stream are gone must send GOAWAY(NO_ERROR), shut the transport down and return Ok(()).",
   "Every reset counted as remembered is a record still held (counter vs records). Two known findings (push-related leaks) and one record leak are listed in known_findings.json by signature; unreachable records are identified through the guarded orphans() / orphan_flags() probes and classified by the queue that still holds them, else by their history (reset while waiting for send capacity / finished cleanly / reset / other) so that a different leak is still reported.",
   "DESIGN.md §3 C19, §7.2"),
 "C13": ("sim-raw", "exploration",
   "property-based testing from a grammar: header sections (request/response/interim/trailers + one mutation) and DATA-vs-content-length sequences sent by the reference peer to an h2 server and an h2 client; oracle = RFC 9113 §8 validity predicate (refmodel::http) vs what the receive API delivers; the same predicate runs over every header section either endpoint emits",
   "Malformed header sections (uppercase, connection-specific, TE, unknown/duplicate/misplaced/wrong-direction/missing pseudo-header fields, CONNECT forms, pseudo-headers in trailers, trailers without END_STREAM, content-length that disagrees with DATA, with HEAD/204/304 exemptions) must never be handed to the application as valid and a mismatching body must not end cleanly; valid oddities must be delivered; programs submitting connection-specific/TE fields check that nothing malformed is emitted.",
   "Value syntax of individual fields is outside the predicate. Two leniencies pinned by the repository's own tests are listed as known findings.",
   "DESIGN.md §3 C13, App. B"),
 "C14": ("sim-raw", "exploration",
   "property-based testing: generated bursts of SETTINGS/PING interleaved with requests against an h2 server with responses in flight, half of them while the server's writes are blocked behind a finite unread pipe; oracle over the tap: ack sequences vs arrival sequences, plus the acked-settings view applied to everything sent afterwards",
   "PING acknowledgements must echo payloads in arrival order, never outnumber or precede the frames they answer, and all owed acknowledgements must be on the wire at quiescence of the live connection; frames written after an ACK must obey the acknowledged values (frame size, window deltas on open streams incl. negative windows, HPACK table size with signalled reduction, concurrency, ENABLE_PUSH switched in bursts while handlers push) — violations of those monitors are re-attributed to C14.",
   "PINGs with undefined flag bits are answered once, unsolicited (flagged) acknowledgements never. Local settings against the peer (h2 <-> h2 with set_initial_window_size at generated moments): unchanged values stay in force across later SETTINGS frames, changed ones apply at the peer's ACK — any protocol accusation between the endpoints is re-attributed here.",
   "DESIGN.md §3 C14"),
 "C15": ("sim-raw", "exploration",
   "property-based testing: graceful/abrupt shutdown of an h2 server at generated moments (optionally with a user PING outstanding) against the reference peer, and GOAWAY(any last-id, any 32-bit code, debug data, optionally two-step) sent to an h2 client with requests on both sides of the cut and late requests; oracle over tap + API log",
   "Server: GOAWAY last-stream-ids never increase and never fall below a stream already handed to accept(); graceful shutdown sends GOAWAY(2^31-1), then — once its PING is acknowledged — GOAWAY(real id), drains and completes; abrupt shutdown carries the caller's code. Client: streams above the peer's last-stream-id get no response and fail with the peer's exact code, streams at or below it complete in both directions (also when the connection window only suffices after the failed streams returned what they held), no new stream is opened once the GOAWAY was processed, the connection result carries code and debug data.",
   "Moments are sampled (event-count triggers), not enumerated. PAIR programs (all foci): a client's GOAWAY never carries a last-stream-id below a pushed stream whose response the application had been handed.",
   "DESIGN.md §3 C15"),
 "C03": ("sim-raw", "exploration",
   "property-based testing (stateful): generated upload histories with every discard path and local window reconfigurations against an h2 server (reference peer) and in h2↔h2 exchanges; oracle = conservation invariants over a sampled read-only bookkeeping probe plus an independent advertised-window accountant on the tapped wire",
   "Every 8 executor steps the guarded statistics probe is sampled: connection-level `available + in flight` must equal the configured target (a leak or a double credit breaks the sum), and bytes counted in flight must be held by an application receive handle that is still alive (data discarded for reset, dropped, finished, refused streams or as padding must have been credited back). From the wire: no WINDOW_UPDATE may raise an advertised stream window above the initial window in force or the connection window above the target in force, nor above 2^31-1, and the window computable from the wire must equal the endpoint's own belief at the end.",
   "With every handle gone and the connection idle nothing may be counted as in flight (readers that never release included). Stream-level conservation is decided from the wire (over-credit), by the exhausted-window oracle (no stream or connection window stays at zero at quiescence while the application holds none of its bytes; hundreds of updates falling due together, blocked writes) and behaviourally (cooperative transfers complete under C06 with windows down to 1 byte); the probe exposes connection-level counters only.",
   "DESIGN.md §3 C03"),
 "C16": ("sim-raw", "exploration",
   "property-based testing (stateful): generated capacity programs (reserve / wait-for-capacity / send / release / abandon, several streams, windows from 1 byte, max_send_buffer_size, mid-flight SETTINGS_INITIAL_WINDOW_SIZE changes) on an h2 server against the reference peer with generated window grants; oracle over API log + tap",
   "Whatever capacity() reports is spendable at once (send_data of that many bytes is accepted and the bytes reach the wire within the peer's windows); reported capacity never exceeds the request, the send-buffer bound or the windows computed independently from the tap; poll_capacity never yields a zero-sized grant while the stream can still send; capacity taken from a stream (lowered reservation, finished, reset or dropped stream, lowered initial window) becomes available to the other waiting streams: every program whose total demand fits the windows the peer granted completes.",
   "Server role only (the send path is shared code); fairness between streams is judged only as 'nobody starves', not by proportion. Capacity spent beyond the peer's window (window lowered before the response starts) counts here. Conservation probe: with every open stream reserving 1 MiB, what the streams hold together equals exactly the connection window not on the wire (release paths: lowered reservation, END_STREAM, trailers with blocked body, reset, drop, SETTINGS). A program that only finishes on the simulator's diagnostic re-poll counts as not woken.",
   "DESIGN.md §3 C16"),
 "C18": ("sim-raw", "exploration",
   "property-based testing with a metamorphic (scaling) oracle: generated hostile traffic patterns, limits, accept behaviour and chunkings against an h2 server or client, each run with n, 2n and 4n repetitions (doubling further, up to 32n, while something still grows); oracle = plateau of sampled state counters and of the connection's live heap bytes (counting allocator) under doubling",
   "Patterns: open-and-reset (before / after accept), streams over the advertised limit, CONTINUATION flood, empty / tiny / padded DATA floods on an unread stream, PING and SETTINGS floods while the endpoint's writes are blocked, header lists beyond the advertised size, DATA on closed streams, malformed requests the library resets, WINDOW_UPDATE / PRIORITY / unknown-frame floods, abandoned accepted streams, generated frame-unit floods; against a client: PUSH_PROMISE, 1xx and stray RST_STREAM floods. Unless the endpoint terminated the connection with an error, stream records, buffered receive events, queued send frames, bytes consumed while its own writes are blocked and live heap bytes allocated inside Connection::poll must not grow over both doublings.",
   "Bounds are judged by scaling (a quota that is merely huge would pass); memory of the application-facing handles is not attributed to the connection.",
   "DESIGN.md §3 C18"),
 "C20": ("sim-pair", "exploration",
   "property-based testing over schedules: (a) the generated h2 client/server programs with an extra choice tape that polls runnable application tasks at transport callbacks inside a connection's poll (the points where the connection has released its locks), every sequential oracle re-evaluated on the interleaved trace; (b) randomised real-thread stress (OS threads using request, send, receive/flow-control and ping handles in parallel with both connection drivers) with a completion / integrity / no-poison oracle",
   "(a) is deterministic and shrinkable: handle operations (send_request, send_data, reserve/poll_capacity, release_capacity, send_reset, ping, handle clone/drop, body reads) happen in the middle of Connection::poll exactly where another thread could run; the connection must hold no lock there (locks_free probe), nothing may panic, poison or deadlock, and the delivery, flow-control, state-machine, concurrency, progress, wake-up, reset and release oracles must hold on the resulting trace — that is what 'equivalent to some sequential order' means operationally. (b) covers what one thread cannot: simultaneous lock acquisition (lock-order inversions deadlock within seconds) and lost wake-ups across threads; a stall is a verdict only when no involved thread consumed CPU time between two looks, so machine load cannot raise an alarm.",
   "A third of the thread programs end each producer with a request whose http::Request extensions own the last reference to a stream handle (dropped inside send_request). (b) is not reproducible at will (the replay file is the program; the observed violation is reported as observed). Weak-memory effects that x86 hardware does not exhibit are out of reach of both.",
   "DESIGN.md §7.2 C20"),
}

NOT_YET = "check not built yet in this round (machinery in progress; see DESIGN.md §5 build order)"

def main():
    props = [json.loads(l) for l in open(os.path.join(ROOT, "properties.jsonl"))]
    checks, na = [], []
    for p in props:
        pid = p["id"]
        if pid in CHECKS:
            eng, cat, tech, text, note, ref = CHECKS[pid]
            checks.append({
                "property_id": pid,
                "quick_cmd": f"./check {pid} quick",
                "thorough_cmd": f"./check {pid} thorough",
                "evidence_file": f"evidence/{pid}.json",
                "replay_cmd_template": "./check replay {path}",
                "engine": eng,
                "level_claimed": {"category": cat, "text": text, "design_ref": ref},
                "level_note": note,
                "technique": tech,
            })
        else:
            na.append({"property_id": pid, "reason": NOT_YET})
    m = {
        "version": 1,
        "setup_cmd": "cd /verif/harness && CARGO_NET_OFFLINE=true cargo build --release",
        "hooks": {
            "guard": "cargo feature `verif` of the h2 crate (off by default)",
            "enable": "the harness depends on h2 = { path = \"/repo\", features = [\"verif\"] }; every ./check rebuilds it from /repo's working tree",
            "baseline_off_cmd": "cd /repo && cargo test --workspace --no-fail-fast --offline",
            "source_commits": hook_commits(),
            "add_only": True,
        },
        "engines": [
            {"name": "hpack-enc", "path": "harness/src/eng_hpack.rs", "serves_properties": ["C10"], "kind_free_text": "proptest-driven generated histories through h2's Codec write side; strict reference HPACK decoder as oracle"},
            {"name": "codec", "path": "harness/src/eng_codec.rs", "serves_properties": ["C12"], "kind_free_text": "h2 Codec as Sink/Stream over a scripted transport vs refmodel::wire"},
            {"name": "sim-pair", "path": "harness/src/{sim,sim_pair,eng_pair,eng_threads,oracles,oracles2,tapx}.rs", "serves_properties": ["C01", "C02", "C04", "C05", "C06", "C07", "C17", "C19", "C20"], "kind_free_text": "deterministic simulator: h2 client and server on a waker-faithful single-thread executor over a scripted transport with an independent tap; proptest-generated programs/schedules/chunkings"},
            {"name": "sim-raw", "path": "harness/src/{sim_raw,eng_raw,eng_raw2,eng_soup,eng_flood,heapmeter}.rs", "serves_properties": ["C03", "C08", "C09", "C13", "C14", "C15", "C16", "C18"], "kind_free_text": "h2 endpoint against a scripted frame-level reference peer (cooperative core + generated deviation script) on the deterministic simulator"},
            {"name": "hpack-dec", "path": "harness/src/eng_hpack.rs", "serves_properties": ["C11"], "kind_free_text": "differential h2 decoder vs RFC 7541 reference on generated/mutated/hostile blocks; whole-vs-split through Codec; exhaustive Huffman/integer sub-spaces"},
        ],
        "checks": checks,
        "not_applicable": na,
        "notes": "All checks are generated-input search (proptest over choice tapes, libFuzzer targets in thorough tiers) against explicit oracles written in /verif/harness/src/refmodel from the RFCs. Exit 0 held / 1 VIOLATION / 2 infrastructure. VERIF_SEED selects the PRNG seed. known_findings.json lists recorded genuine defects by signature.",
    }
    json.dump(m, open(os.path.join(ROOT, "MANIFEST.json"), "w"), indent=1)
    print("checks:", [c["property_id"] for c in checks], "n/a:", len(na))

main()
