#![no_main]
//! One target for every engine: libFuzzer mutates the choice tapes.
//!   H2V_ENGINE=<engine name> H2V_PROPERTY=<Cxx> cargo +nightly fuzz run --fuzz-dir /verif/fuzz -s none fz_tape <corpus dir> -- -runs=N -seed=S
use libfuzzer_sys::fuzz_target;

fuzz_target!(|data: &[u8]| {
    h2v::fuzzapi::fuzz_one(data);
});
